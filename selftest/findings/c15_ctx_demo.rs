// Demonstration for the C15 finding (copy to ed25519-dalek/tests/c15_ctx_demo.rs; cargo test --offline -p ed25519-dalek --features digest --test c15_ctx_demo).
// On the pinned snapshot a build with debug assertions panics in verify_prehashed for a 256-byte context; after the fix it returns Err.
use ed25519_dalek::{Signature, SigningKey, VerifyingKey};
use sha2::{Digest, Sha512};

#[test]
fn verify_prehashed_long_context_is_err_not_panic() {
    let sk = SigningKey::from_bytes(&[7u8; 32]);
    let vk: VerifyingKey = sk.verifying_key();
    let sig: Signature = sk.sign_prehashed(Sha512::new().chain_update(b"m"), Some(b"ctx")).unwrap();
    let long = [0u8; 256];
    assert!(sk.sign_prehashed(Sha512::new().chain_update(b"m"), Some(&long)).is_err());
    let r = std::panic::catch_unwind(|| vk.verify_prehashed(Sha512::new().chain_update(b"m"), Some(&long), &sig));
    assert!(r.is_ok(), "verify_prehashed panicked on a 256-byte context");
    assert!(r.unwrap().is_err());
    let r = std::panic::catch_unwind(|| vk.verify_prehashed_strict(Sha512::new().chain_update(b"m"), Some(&long), &sig));
    assert!(r.is_ok(), "verify_prehashed_strict panicked on a 256-byte context");
    assert!(r.unwrap().is_err());
}
