#!/usr/bin/env python3
"""mkmutant.py <name> <file-relative-to-repo> <old> <new> [<file> <old> <new> ...]: make a diff under selftest/mutants by exact string replacement (first occurrence unless old ends with '@all')"""
import subprocess, sys
name = sys.argv[1]
trip = sys.argv[2:]
assert len(trip) % 3 == 0
subprocess.check_call(["git", "-C", "/repo", "diff", "--quiet"])
try:
    for i in range(0, len(trip), 3):
        f, old, new = trip[i:i + 3]
        p = "/repo/" + f
        s = open(p).read()
        assert old in s, "pattern not found in %s: %r" % (f, old)
        s = s.replace(old, new, 1)
        open(p, "w").write(s)
    d = subprocess.check_output(["git", "-C", "/repo", "diff"], text=True)
    open("/verif/selftest/mutants/%s.diff" % name, "w").write(d)
    print("wrote", name, len(d.splitlines()), "lines")
finally:
    subprocess.check_call(["git", "-C", "/repo", "checkout", "--", "."])
