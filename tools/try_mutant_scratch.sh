#!/bin/bash
# try_mutant_scratch.sh <patch> <ids...> : apply a patch to a scratch worktree (not /repo) and run checks against it with a separate
# fact cache; for use while something else is running against /repo.  Evidence files are backed up and restored.
set -u
patch="$1"; shift
wt=/tmp/wt-mut
[ -d $wt ] || git -C /repo worktree add -q --detach $wt HEAD
git -C $wt checkout -q -- . ; git -C $wt apply "$patch" || { echo "patch does not apply"; exit 2; }
bk=$(mktemp -d); cp -r /verif/evidence/. $bk/ 2>/dev/null
for id in "$@"; do
  VERIF_REPO=$wt VERIF_CACHE=/tmp/cache-mut /verif/check $id --tier quick > /tmp/mut-$id.log 2>&1; rc=$?
  echo "== $id exit=$rc  $(grep -c VIOLATION /tmp/mut-$id.log) violations"; grep "rule=" /tmp/mut-$id.log | head -4 | cut -c1-300; tail -1 /tmp/mut-$id.log
done
git -C $wt checkout -q -- .
rm -rf /verif/evidence; mkdir -p /verif/evidence; cp -r $bk/. /verif/evidence/; rm -rf $bk
