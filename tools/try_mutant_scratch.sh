#!/bin/bash
# try_mutant_scratch.sh <patch> <ids...> : apply a patch to a scratch worktree (not /repo) and run checks against it with a separate
# fact cache and a separate evidence directory; for use while something else is running against /repo.
# TAG=<name> selects the scratch worktree /tmp/wt-<name> (default mut) so that several can run side by side.
set -u
patch="$1"; shift
tag=${TAG:-mut}
wt=/tmp/wt-$tag
[ -d $wt ] || git -C /repo worktree add -q --detach $wt HEAD
git -C $wt checkout -q -- . ; git -C $wt apply "$patch" || { echo "patch does not apply"; exit 2; }
mkdir -p /tmp/ev-$tag
for id in "$@"; do
  VERIF_EVIDENCE=/tmp/ev-$tag VERIF_REPO=$wt VERIF_CACHE=/tmp/cache-$tag /verif/check $id --tier ${TIER:-quick} > /tmp/$tag-$id.log 2>&1; rc=$?
  echo "== $id exit=$rc  $(grep -c VIOLATION /tmp/$tag-$id.log) violations"; grep "rule=" /tmp/$tag-$id.log | head -4 | cut -c1-300; tail -1 /tmp/$tag-$id.log
done
git -C $wt checkout -q -- .
