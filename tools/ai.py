#!/usr/bin/env python3
"""tools/ai.py <cfg>/<mode> <backend u64|u32> <fn regex> [<param index>=<spec> ...] : abstract-interpret one function with the type
invariants as inputs (debug aid).  spec: fe:<excess> | <int type>:<lo>:<hi> | top | bytes<N>"""
import sys, os, re, time
sys.path.insert(0, os.path.join(os.path.dirname(os.path.abspath(__file__)), "..", "lib"))
import extract, facts
from absint import *
from eng_absint import Driver, within

km = tuple(sys.argv[1].split("/"))
backend = sys.argv[2]
dirs, failed, th = extract.ensure([km], verbose=False)
F = facts.Facts(dirs[km])
pat = sys.argv[3]
fs = [f for k, f in F.fns.items() if "mir" in f and (re.search(pat, k) or re.search(pat, f["path"]))]
if len(fs) != 1:
    print("matches:", [f["key"] for f in fs][:20]); sys.exit(1)
f = fs[0]
D = Driver(F, backend)
D.all_generic_roots = bool(os.environ.get("GENERIC"))
ov = {}
for s in sys.argv[4:]:
    i, sp = s.split("=")
    p = sp.split(":")
    if p[0] == "fe":
        v = D.inv.fe(float(p[1]))
    elif p[0] == "top":
        v = TOP
    elif p[0].startswith("bytes"):
        v = ("arr", (I(0, 255),) * int(p[0][5:]))
    else:
        v = I(int(p[1]), int(p[2]))
    ov[int(i) - 1] = v
t0 = time.time()
ret = D.run_root(f, ov or None)
print("fn", f["path"], "steps", D.ip.steps, "%.2fs" % (time.time() - t0))
print("ret:", show_val(ret, 5)[:600] if ret is not None else None)
for x in D.skipped + D.errors:
    print("SKIP/ERR", x[1])
for (g, k, ok, why, v) in D.ret_obl:
    print("ret-obligation", k, ok, why)
bad = [o for o in D.ip.obl.values() if not o.ok]
print("obligations:", len(D.ip.obl), "unproved:", len(bad))
for o in bad[:40]:
    print("  UNPROVED", o.fn["path"].split("::")[-1], o.kind, o.detail, o.loc.split("/")[-1], "|", o.why[:160])
if D.ip.unmodelled:
    print("unmodelled:", sorted(D.ip.unmodelled.items(), key=lambda x: -x[1])[:30])
