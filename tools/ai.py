#!/usr/bin/env python3
"""tools/ai.py <cfg>/<mode> <fn regex> <argspec>... : run the abstract interpreter on one function (debug aid)
argspec: fe51:<bits> | fe2625:<excess> | u64:<lo>:<hi> | top | bytes32 | bytes64 | i8x64:<lo>:<hi>"""
import sys, os, re, time
sys.path.insert(0, os.path.join(os.path.dirname(os.path.abspath(__file__)), "..", "lib"))
import extract, facts
from absint import *
from absint_models import Models

def spec(s):
    p = s.split(":")
    if p[0] == "fe51":
        b = float(p[1]); return ("st", (("arr", (I(0, int(2**b) - 1),) * 5),))
    if p[0] == "fe2625":
        b = float(p[1]); return ("st", (("arr", tuple(I(0, int(2**((26 if i % 2 == 0 else 25) + b)) - 1) for i in range(10))),))
    if p[0] == "bytes32":
        return ("arr", (I(0, 255),) * 32)
    if p[0] == "bytes64":
        return ("arr", (I(0, 255),) * 64)
    if p[0] == "scalar":
        return ("st", (("arr", (I(0, 255),) * 31 + (I(0, int(p[1]) if len(p) > 1 else 127),)),))
    if p[0] == "sc52":
        return ("st", (("arr", (I(0, 2**int(p[1]) - 1),) * 5),))
    if p[0] == "top":
        return TOP
    if p[0] in INT_TYPES:
        return I(int(p[1]), int(p[2]))
    if p[0] == "i8x64":
        return ("arr", (I(int(p[1]), int(p[2])),) * 64)
    raise SystemExit("bad spec " + s)

km = tuple(sys.argv[1].split("/"))
dirs, failed, th = extract.ensure([km], verbose=False)
F = facts.Facts(dirs[km])
pat = sys.argv[2]
fs = [f for k, f in F.fns.items() if "mir" in f and (re.search(pat, k) or re.search(pat, f["path"]))]
if len(fs) != 1:
    print("matches:", [f["key"] for f in fs][:20]); sys.exit(1)
f = fs[0]
ip = Interp(F, Models())
vals = [spec(s) for s in sys.argv[3:]]
t0 = time.time()
ret, root = ip.run_root(f, vals)
print("fn", f["path"], "steps", ip.steps, "%.2fs" % (time.time() - t0))
print("ret:", show_val(ret, 4))
for i, v in root.items():
    print("root[%d]:" % i, show_val(v, 4))
bad = [o for o in ip.obl.values() if not o.ok]
print("obligations:", len(ip.obl), "unproved:", len(bad))
for o in bad[:40]:
    print("  UNPROVED", o.fn["path"].split("::")[-1], o.kind, o.detail, o.loc, "|", o.why[:150])
if ip.unmodelled:
    print("unmodelled:", sorted(ip.unmodelled.items(), key=lambda x: -x[1])[:30])
