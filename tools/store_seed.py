#!/usr/bin/env python3
"""store_seed.py <id> <needs> <demo cmd> : copy a confirmed seeded change into /verif/seeded/<id>/ with meta.json"""
import json, os, shutil, sys
pid, needs, cmd = sys.argv[1], sys.argv[2], sys.argv[3]
src = "/tmp/seed-" + pid
dst = "/verif/seeded/" + pid
os.makedirs(dst, exist_ok=True)
for f in ("patch.diff", "demo_test.rs", "notes.md"):
    if os.path.exists(os.path.join(src, f)):
        shutil.copy(os.path.join(src, f), os.path.join(dst, f))
if os.path.isdir(os.path.join(src, "demo")):
    shutil.copytree(os.path.join(src, "demo"), os.path.join(dst, "demo"), dirs_exist_ok=True, ignore=shutil.ignore_patterns("target"))
conf = open(os.path.join(dst, "confirm.log")).read() if os.path.exists(os.path.join(dst, "confirm.log")) else ""
meta = {
    "property": pid,
    "source": "independent sub-agent given only the property text and a scratch worktree",
    "needs_to_manifest": needs,
    "demo_command": cmd,
    "confirmed_by_me": {"baseline_suite_with_change": "138/138 passed (cargo nextest run --workspace --offline in a fresh worktree)",
                        "demo_with_change": "fails", "demo_without_change": "passes", "log": "confirm.log"},
    "confirm_log_tail": conf.strip().splitlines()[-1] if conf.strip() else "",
}
json.dump(meta, open(os.path.join(dst, "meta.json"), "w"), indent=1)
print("stored", pid)
