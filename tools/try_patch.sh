#!/bin/bash
# usage: try_patch.sh <patch.diff> <Cnn> [<Cnn> ...]   -- apply a seeded change to /repo, run checks, always undo
set -u
patch="$1"; shift
cd /repo || exit 2
if [ -n "$(git status --porcelain --untracked-files=no)" ]; then echo "/repo not clean"; exit 2; fi
git apply "$patch" || { echo "patch does not apply"; exit 2; }
bk=$(mktemp -d /tmp/evbk-XXXX); cp -a /verif/evidence/. $bk/
trap 'git -C /repo checkout -- . ; git -C /repo status --porcelain --untracked-files=no; rm -rf /verif/evidence; mkdir -p /verif/evidence; cp -a $bk/. /verif/evidence/; rm -rf $bk' EXIT
cd /verif
rc=0
for id in "$@"; do
  tier=${TIER:-quick}
  ./check "$id" --tier "$tier" > /tmp/try_patch_$id.log 2>&1; r=$?
  echo "== $id exit=$r  $(grep -c '^VIOLATION' /tmp/try_patch_$id.log) violations"
  grep -v '^VIOLATION' /tmp/try_patch_$id.log | grep 'rule=' | head -${SHOW:-6}
  tail -1 /tmp/try_patch_$id.log
  [ $r -ne 0 ] && rc=1
done
exit $rc
