#!/usr/bin/env python3
"""Regression of the checks against every stored seeded change and self-mutant, in a scratch worktree (never touches /repo):
   tools/run_seeds.py [filter-regex]  ->  selftest/RESULTS.md
   expectation: a seed / mutant must be reported by the listed check; a `benign` mutant must leave the listed checks silent."""
import json, os, re, subprocess, sys, time, shutil

V = "/verif"
WT = "/tmp/wt-seeds"
CACHE = "/tmp/cache-seeds"
EXPECT = {  # seed -> check expected to report it (DESIGN 10.5)
    "C01": "C11", "C01.2": "C01", "C02": "C02", "C02.2": "C02", "C03": "C03", "C03.2": "C12", "C04": "C04", "C04.2": "C04",
    "C05": "C11", "C05.2": "C11", "C06": "C06", "C06.2": "C12", "C07": "C07", "C07.2": "C07", "C08": "C08",
    "C09": "C09", "C09.2": "C04", "C10": "C10", "C10.2": "C10", "C11": "C11", "C11.2": "C11", "C12": "C12", "C12.2": "C12",
    "C13": "C13", "C13.2": "C04", "C14": "C14", "C14.2": "C14", "C15": "C15", "C15.2": "C15", "C16": "C16", "C16.2": "C16",
    "C17": "C17", "C17.2": "C06",
    "C01.3": "C01", "C03.3": "C03", "C04.3": "C07", "C08.3": "C13", "C13.3": "C13", "C14.3": "C14",
    "C02.4": "C02", "C06.4": "C17", "C07.4": "C07", "C09.4": "C04", "C16.4": "C16", "C17.4": "C17",
    "C04.5": "C07", "C05.5": "C01", "C10.5": "C10", "C12.5": "C12", "C15.5": "C15",
    "C03.6": "C17", "C06.6": "C01", "C08.6": "C08", "C13.6": "C04", "C14.6": "C14", "C16.6": "C16",
    "C01.7": "C01", "C02.7": "C02", "C05.7": "C04", "C07.7": "C07", "C09.7": "C09", "C11.7": "C11", "C12.7": "C12", "C17.7": "C17",
    # C11.5 changes the nightly-only IFMA backend: it is caught by C11's thorough tier (ifma configuration), not by the quick tier replayed here
}
BENIGN = {  # benign mutant -> checks that must stay silent
    "C13-benign-drop-redundant-len": ["C13"], "C01-benign-chain-refactor": ["C01"], "C02-benign-drop-redundant-highbit": ["C02", "C17"],
    "benign-naf-rename": ["C04", "C10"], "benign-u64-reduce-loops": ["C01", "C11"], "benign-strict-helper": ["C09"],
    "benign-C08-raw-sign-refactor": ["C08"], "benign-C06-step2-locals": ["C06", "C03"], "benign-C17-from-repr-vartime": ["C17"],
    "benign-C13-rename-reorder": ["C13"], "benign-C16-scalar-visitor": ["C16"], "benign-C03-step1": ["C03", "C06"],
    "C04-benign-mulbase-pow2": ["C04"], "benign-C07-ladder-while-let": ["C07"], "benign-C10-select-enumerate": ["C10", "C11"],
    "benign-C13-explicit-loops": ["C13"], "benign-C03-double-reassoc": ["C03"], "benign-C07-ladder-step-commute": ["C07"], "benign-C06-decode-reassoc": ["C06"], "benign-C09-recompute-operators": ["C09"], "benign-C02-mont-mul-as-montgomery": ["C02"], "benign-C04-pippenger-sum-explicit": ["C04"], "benign-C01-load8-reorder": ["C01"], "benign-C01-as-bytes-q-loop": ["C01", "C11"], "benign-C01-vkernel-mul-commute": ["C01"], "benign-C01-vkernel-reduce64-carry-order": ["C01", "C11"], "benign-C02-montred-u64-reorder": ["C02"], "benign-C03-sum-loop": ["C03"],
    # seed C08.2 (compute_challenge hashes min(len, 255) / ctx[..255]) was a violation on the pinned snapshot; the repair 01b199a rejects
    # contexts longer than 255 bytes before the challenge is computed, which makes the seed behaviour-preserving: it must now be silent
    "seed:C08.2": ["C09", "C08"],
}
WORKERS = 6


def sh(*a, **k):
    return subprocess.run(a, text=True, capture_output=True, **k)


def run_check(pid, wt=WT, cache=CACHE):
    env = dict(os.environ, VERIF_REPO=wt, VERIF_CACHE=cache, VERIF_EVIDENCE=cache + "-evidence")
    r = sh(V + "/check", pid, "--tier", "quick", env=env)
    viol = [l for l in r.stdout.splitlines() if " rule=" in l]
    return r.returncode, viol


def main():
    flt = re.compile(sys.argv[1]) if len(sys.argv) > 1 else None
    jobs = []
    for sid, chk in sorted(EXPECT.items()):
        jobs.append(("seed " + sid, "%s/seeded/%s/patch.diff" % (V, sid), [chk], True))
    for name, checks in BENIGN.items():
        if name.startswith("seed:"):
            jobs.append(("benign " + name, "%s/seeded/%s/patch.diff" % (V, name[5:]), checks, False))
    # behaviour-preserving maintenance commits written by independent agents (DESIGN 10.5): every listed check must stay silent
    b7 = json.load(open(V + "/selftest/benign7/index.json"))
    for name, checks in sorted(b7.items()):
        jobs.append(("benign7 " + name, "%s/selftest/benign7/%s.diff" % (V, name), checks, False))
    b8 = json.load(open(V + "/selftest/benign8/index.json"))
    for name, checks in sorted(b8.items()):
        jobs.append(("benign8 " + name, "%s/selftest/benign8/%s.diff" % (V, name), checks, False))
    for fn in sorted(os.listdir(V + "/selftest/mutants")):
        name = fn[:-5]
        if name in BENIGN:
            jobs.append(("benign " + name, "%s/selftest/mutants/%s" % (V, fn), BENIGN[name], False))
        else:
            m = re.match(r"(C\d\d)-", name)
            if m:
                jobs.append(("mutant " + name, "%s/selftest/mutants/%s" % (V, fn), [m.group(1)], True))
    import threading, queue
    jobs = [j for j in jobs if not (flt and not flt.search(j[0]))]
    # slow checks first so that the workers finish together
    slow = {"C11": 0, "C15": 1, "C04": 2, "C02": 3}
    jobs.sort(key=lambda j: min(slow.get(c, 9) for c in j[2]))
    q = queue.Queue()
    for j in jobs:
        q.put(j)
    rows, lock = [], threading.Lock()

    def worker(k):
        wt, cache = "%s-%d" % (WT, k), "%s-%d" % (CACHE, k)
        if not os.path.isdir(wt):
            subprocess.check_call(["git", "-C", "/repo", "worktree", "add", "-q", "--detach", wt, "HEAD"])
        while True:
            try:
                label, patch, checks, must_fire = q.get_nowait()
            except queue.Empty:
                break
            sh("git", "-C", wt, "checkout", "-q", "--", ".")
            a = sh("git", "-C", wt, "apply", patch)
            if a.returncode:
                with lock:
                    rows.append((label, ",".join(checks), "PATCH DOES NOT APPLY", ""))
                continue
            for c in checks:
                t0 = time.time()
                rc, viol = run_check(c, wt, cache)
                fired = rc == 1 and bool(viol)
                verdict = "ok" if fired == must_fire else "UNEXPECTED"
                first = re.sub(r"^\S+ ", "", viol[0])[:150] if viol else ""
                with lock:
                    rows.append((label, c, ("reported (%d)" % len(viol)) if fired else "silent", verdict + (" | " + first if first else "")))
                    print(label, c, rows[-1][2], verdict, "%.0fs" % (time.time() - t0), flush=True)
        sh("git", "-C", wt, "checkout", "-q", "--", ".")
        sh("git", "-C", "/repo", "worktree", "remove", "--force", wt)
        shutil.rmtree(cache, ignore_errors=True)
        shutil.rmtree(cache + "-evidence", ignore_errors=True)
    ths = [threading.Thread(target=worker, args=(k,)) for k in range(WORKERS)]
    for t in ths:
        t.start()
    for t in ths:
        t.join()
    rows.sort()
    with open(V + "/selftest/RESULTS.md", "w") as fh:
        fh.write("# Checks against the stored seeded changes and self-mutants\n\nGenerated by tools/run_seeds.py (scratch worktree, quick tier). "
                 "`reported` = the check exits 1 with VIOLATION lines; seeds / mutants must be reported, `benign` edits must be silent.\n\n| change | check | result | verdict / first report |\n|---|---|---|---|\n")
        for r in rows:
            fh.write("| %s | %s | %s | %s |\n" % r)
    bad = [r for r in rows if "UNEXPECTED" in r[3] or "APPLY" in r[2]]
    print("done: %d rows, %d unexpected" % (len(rows), len(bad)))
    return 1 if bad else 0


if __name__ == "__main__":
    sys.exit(main())
