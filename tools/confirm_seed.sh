#!/bin/bash
# confirm_seed.sh <id> <seed-dir> <dest test path rel to repo> <rustflags or -> -- <cargo test args...>
# Independent confirmation of a seeded change in a fresh scratch worktree:
#  baseline suite passes with the change; demo fails with it and passes without it.
set -u
id="$1"; seed="$2"; dest="$3"; rf="$4"; shift 5
wt=/tmp/cf-$id
out=/verif/seeded/$id
mkdir -p $out
log=$out/confirm.log
: > $log
git -C /repo worktree add -q --detach $wt HEAD || exit 2
cleanup() { git -C /repo worktree remove --force $wt; }
trap cleanup EXIT
cd $wt
git apply $seed/patch.diff || { echo "PATCH DOES NOT APPLY" | tee -a $log; exit 2; }
export CARGO_NET_OFFLINE=true CARGO_BUILD_JOBS=6
echo "## baseline suite with the change (cargo nextest run --workspace --offline)" >> $log
cargo nextest run --workspace --no-fail-fast --offline > $out/suite_with_change.txt 2>&1
grep -E "Summary|tests run" $out/suite_with_change.txt | tail -2 >> $log
suite_ok=$(grep -cE "138 tests run: 138 passed" $out/suite_with_change.txt)
if [ -n "${DEMO_INSTALL:-}" ]; then $DEMO_INSTALL $wt; else cp $seed/demo_test.rs $wt/$dest; fi
echo "## demo WITH the change: RUSTFLAGS='$rf' cargo test --offline $*" >> $log
if [ "$rf" = "-" ]; then cargo test --offline "$@" > $out/demo_with.txt 2>&1; else RUSTFLAGS="$rf" cargo test --offline "$@" > $out/demo_with.txt 2>&1; fi
with_rc=$?
grep -E "^test result|panicked" $out/demo_with.txt | head -5 >> $log
git apply -R $seed/patch.diff
echo "## demo WITHOUT the change" >> $log
if [ "$rf" = "-" ]; then cargo test --offline "$@" > $out/demo_without.txt 2>&1; else RUSTFLAGS="$rf" cargo test --offline "$@" > $out/demo_without.txt 2>&1; fi
without_rc=$?
grep -E "^test result" $out/demo_without.txt | head -5 >> $log
echo "RESULT id=$id suite_ok=$suite_ok demo_with_rc=$with_rc demo_without_rc=$without_rc" | tee -a $log
rm -f $out/suite_with_change.txt
