#!/bin/bash
# run every claimed quick (or $1) check on the current /repo tree; summary at the end
cd /verif
tier=${1:-quick}
ids=$(python3 -c "import json;print(' '.join(c['property_id'] for c in json.load(open('MANIFEST.json'))['checks']))")
rc=0
for id in $ids; do
  s=$(date +%s); ./check $id --tier $tier > /tmp/runall-$id.log 2>&1; r=$?; e=$(date +%s)
  echo "$id rc=$r $((e-s))s $(grep -c VIOLATION /tmp/runall-$id.log) viol"; [ $r -ne 0 ] && rc=1
done
exit $rc
