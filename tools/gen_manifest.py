#!/usr/bin/env python3
"""Regenerate /verif/MANIFEST.json from the table below (keeps it valid at all times)."""
import json, os

V = "/verif"
props = [json.loads(l) for l in open(V + "/properties.jsonl")]

CLAIMS = {
    "C10": dict(cat="other", tech="interprocedural forward taint analysis over resolved release-mode MIR with transfer summaries and a points-to relation (TAINT engine)",
                text="From a frozen table of constant-time API roots (>=100 functions incl. operator impls) with all parameters secret, no reached function (>=250 per backend) contains a SwitchInt/Assert on a secret value, secret-indexed memory, secret Div/Rem, "
                     "an un-vetted extern call or a value-dependent library routine (comparisons, predicate adapters such as skip_while) on secret data, or a call edge into the variable-time set; one reviewed exception (invariantly-true assert in FieldElement::batch_invert). "
                     "Decided on the MIR the compiler starts from, per backend; what LLVM does afterwards is trusted (subtle barriers, x86 timing)",
                note="source-level (MIR) claim; the vetted-extern table is part of the trusted base. Added sink secret-mask: a secret expanded to a selection mask by wrapping_sub(1) / wrapping_neg / 0 - x and and-ed in (the RUSTSEC-2024-0344 idiom that compilers turn into a branch) - selection must go through subtle", ref="3.4, 4 C10, 10.6"),
    "C14": dict(cat="other", tech="field-coverage of Drop/Zeroize bodies from ADT facts + heap-buffer typestate driven by TAINT from scalar parameters (ZEROIZE engine)",
                text="Each of the 6 secret-holding types has a Drop that zeroizes every non-public field on all normal paths; every hand-written Zeroize impl writes every field and points reset to identity constants; "
                     "every scalar-derived heap local found by taint in constant-time multiscalar multiplication and Scalar::batch_invert (3 today) is a single-allocation Vec, Zeroizing from construction or explicitly zeroized on every normal path before release, with no re-allocating operation; the single-allocation premise is itself checked: the constant-time entry point reaches Straus only after establishing that the scalar iterator's size hint is exact",
                note="source-level; zeroize's volatile semantics, exact-size collect not reallocating, and unwind paths (noted, not claimed) are outside", ref="3.7, 4 C14"),
    "C03": dict(cat="other", tech="abstract interpretation of the curve formulas' MIR in the FORMULA domain (rational functions over Z in symbolic coordinates, lib/eng_formula.py) + flag dominance, call-identity data flow, field-wise completeness (FIELDSET) over resolved MIR; visibility facts",
                text="Formulas (FORMULA domain, field kernels = ring operations, never entered): ProjectivePoint::double, EdwardsPoint +- ProjectiveNiels / AffineNiels, the completed / projective / extended conversions, as_projective_niels, as_affine_niels, negations, identity elements, "
                     "EdwardsPoint double / add / sub / neg, and the AVX2 ExtendedPoint double / +- CachedPoint, CachedPoint::from, -CachedPoint, conversions and identity constants (lane-wise; the AVX-512 IFMA counterparts in the thorough tier) all denote the point given by the twisted Edwards addition law as rational identities "
                     "(doubling modulo the curve equation) with X*Y = Z*T; compress encodes Y/Z with the sign of X/Z; decompress calls sqrt_ratio_i(y^2-1, d y^2+1) and returns (+-r, y, 1, xy) by bit 255. "
                     "Structural clauses: decoder = sqrt_ratio_i(y^2-1, d*y^2+1) with its flag deciding Some, sign from input bit 255, T=X*Y after negation; encoder = as_bytes(Y/Z) with is_negative(X/Z) in bit 255; "
                     "projective equality shape; every field-wise writer/selector of an EdwardsPoint touches all four coordinates consistently; identity/neg/cofactor/small-order/torsion-free wiring; coordinates and internal modules not public. "
                     "NOT decided: that the field kernels implement the ring operations (C01/C11), completeness of the addition law on this curve (cited theorem), equality semantics beyond its shape",
                note="formulas decided at the level of field elements; structural conditions in every backend", ref="10.6 FORMULA, 3.6, 4 C03"),
    "C07": dict(cat="other", tech="known-bits abstract interpretation of clamp_integer (complete) + polynomial-multiple abstract domain over the Montgomery ladder (LADDER) + PATH rules over resolved MIR",
                text="clamp_integer is bit-exactly RFC 7748 clamping (decided completely); all clamped entry points multiply by Scalar{clamp(input)}; x25519-dalek reaches multiplications only through mul_clamped/mul_base_clamped with the documented shapes; "
                     "ladder: in the LADDER abstract domain (points = multilinear-polynomial multiples of the base point over the symbolic scalar bits; conditional_swap and differential_add_and_double by their documented contracts, the latter's precondition Q-P = +-base checked at each of the 255 steps) mul_bits_be and &MontgomeryPoint * &Scalar evaluate to (sum_{j<255} 2^j b_j) * P, independently of the loop's syntax; to_edwards rejects decoded u=-1 before inverting and puts sign in bit 255; Montgomery eq/hash canonicalise; contributory = !identity; key conversions. Ladder-step and map arithmetic are not decided",
                note="partial/structural except clamp_integer (complete), the ladder (LADDER) and C07.formula: differential_add_and_double = (x(2P), x(P+Q)) by Montgomery's formulas, to_montgomery encodes (1+y)/(1-y), to_edwards decodes (u-1)/(u+1), as rational identities (FORMULA domain); C07.sem.clamped: the five clamped multiplications multiply by the unreduced integer clamp(bytes) (symbolic inputs, BATCHEQ models)", ref="3.2 known-bits, 3.6, 4 C07, 10.6"),
    "C08": dict(cat="other", tech="ORDER of digest updates per hash session on every CFG path + call-identity data flow + dominance (PATH engine)",
                text="raw_sign / raw_sign_prehashed: r = H([dom2(1,ctx)] prefix||M), R = compress(mul_base(r)), k = H([dom2] R||A||M), s = k*a + r, signature (R,s); context > 255 rejected before hashing (and in Context::new); "
                     "expansion = from_bytes(SHA-512(seed)) with scalar = reduce(clamp(bytes[0..32])), prefix = bytes[32..64]; SigningKey only assembled with the verifying key derived from the same seed; sign wiring uses the key's own seed and verifying key; "
                     "keypair / pkcs8 import reject a mismatching public half. Equality with RFC 8032 outputs on all inputs is not decided",
                note="partial/structural; SHA-512 and scalar/point arithmetic trusted (C02/C04). Added (C08.sem.sign, BATCHEQ models on symbolic seed / key / message): try_sign returns (compress(rB), ka + r) with a = clamp(H(seed)[0..32]) mod l, prefix = H(seed)[32..64], r = H(prefix||M), k = H(R||A||M)", ref="3.6, 4 C08, 10.6"),
    "C17": dict(cat="other", tech="exhaustive arithmetic on evaluated ff constants + PATH rules (dominance, flag implication, delegation identity)",
                text="ff constants satisfy their defining relations incl. generator of full order (factorisation of l-1 verified) and the Tonelli-Shanks exponent literal; from_repr = canonical decoder; from_repr_vartime: high-bit test and equality with reduce dominate Some; "
                     "Field::invert None only for zero; GroupEncoding for EdwardsPoint/SubgroupPoint = native decoder (+ into_subgroup); into_subgroup flag = torsion-free predicate; clear_cofactor = x8; SubgroupPoint constructors inventory. sqrt correctness on all residues is delegated to ff's helper (trusted)",
                note="partial for behaviour, complete for the constants. Added (C17.is_identity, FORMULA domain): every group::Group::is_identity impl (EdwardsPoint, SubgroupPoint, RistrettoPoint) makes exactly the field comparisons of ct_eq(self, identity), combined the same way", ref="3.1, 3.6, 4 C17, 10.6"),
    "C11": dict(cat="proof", tech="interval abstract interpretation of checked-mode MIR with inductive limb-bound type invariants (ABSINT engine)",
                text="Serial u64 and u32 backends and the AVX2 vector backend (simd build: lane-wise interval models of the 27 intrinsics; every packed add / sub / shift-left that could wrap its lane and every 64-bit lane product used as a 32-bit multiplicand is an obligation; ExtendedPoint b<0.007 and CachedPoint b<1.0 are checked as inductive invariants of the vector point operations): every Assert(overflow / bounds / division) terminator, debug assertion and panicking call reachable from every exported function of curve25519-dalek (roots discovered, >=250 per backend, parameters at their type's limb-bound invariant) "
                     "and from the field kernels under their documented precondition is shown unreachable by a sound interval analysis; every value of an invariant-carrying type produced by a root re-establishes the invariant (so chains of operations are covered inductively). "
                     "Generic entry points (Straus, Pippenger per window width, Sum/Product folds, batch_invert, double_and_compress_batch, the ladder) are analysed over abstract collections. "
                     "Residuals are reviewed obligations with reasons in props/C11.py (non-zero products in the two batch_invert routines; oddness of NAF digits; documented equal-length precondition of multiscalar_mul; the algebraic expect() in nonspec_map_to_curve) and assumptions A1-A4. IFMA and fiat kernels are not covered (see DESIGN.md)",
                note="sound-by-construction interval domain over the compiler's checked-mode MIR; trusted: exporter, interpreter + library models, assumptions A1-A4 listed in the evidence; thorough tier also the AVX-512 IFMA configuration under assumption A6 (two relational obligations of negate_lazy)", ref="3.2, 4 C11, 10.3"),
    "C15": dict(cat="other", tech="panic-edge inventory over the resolved call graph + interval abstract interpretation from every untrusted-input entry point (PANIC + ABSINT engines)",
                text="From every exported function that consumes bytes / encodings / signatures / Montgomery points (discovered by signature, 75 today), in the three crates: every Assert terminator and panic-capable call "
                     "on a live path of every reachable function (>=250 functions, >=600 edges per configuration) is discharged by constant/length reasoning, or shown to hold / be unreachable by the interval analysis run from the same entry points "
                     "with arbitrary byte contents and slice lengths, or matches one of three reviewed residuals (relational length equalities in verify_batch; the algebraic expect() in nonspec_map_to_curve, whose structural side condition - "
                     "to_edwards yields None only via the u == -1 test or decompress() - is checked on every run). Release-mode MIR; checked-build arithmetic panics are C11's",
                note="allocation failure, foreign crates' internals and user trait impls are outside; trusted: exporter, PANIC inventory, ABSINT interpreter + models. C15.debug_assert: panic edges that exist only in the checked build of ed25519-dalek / x25519-dalek and are reachable from the entry points must be discharged (found the repaired defect of DESIGN section 9)", ref="3.5, 4 C15, 9"),
    "C01": dict(cat="other", tech="monomial (exponent) abstract domain over the addition chains + literal limb-vector arithmetic against p + interval post-conditions of the byte codecs (EXPCHAIN, ABSINT)",
                text="Decides necessary conditions only, NOT exactness of the limb kernels (value-level; stated as not decided): invert = x^(p-2), pow_p58 = x^((p-5)/8), pow22501 = (x^(2^250-1), x^11), sqrt_ratio_i forms the candidate root "
                     "u^((p+3)/8) v^(3+7(p-5)/8) and the check value v r^2 (monomial domain over the MIR of the chains, kernels abstracted by their algebraic meaning); every literal limb vector added before a reduce (sub, sub_assign, negate; u64 and u32) is a multiple of p; "
                     "from_bytes yields limbs within nominal width (bit 255 dropped, value < 2^255) and as_bytes clears the top bit for every admissible representation (intervals); in the limb kernels and repacking code (serial u64/u32 and AVX2 field) every low-bit mask that can drop bits has its carry companion `>> k` of the same value (no silent truncation). Absence of wrap-around in every field kernel is C11's",
                note="partial; vector (AVX2/IFMA) field and fiat primitives not analysed; kernels' products are trusted here. Added: batch_invert decided in the FORMULA domain for every zero / non-zero pattern of 0..4 elements (non-zero inverted, zero kept, assertion unreachable); from_bytes of both serial backends decided bit by bit in the BITS domain (sum limb_i 2^(weight_i) = sum_{k<255} b_k 2^k); as_bytes of both serial backends: q = carry out of h + 19 through all limbs, h_0 += 19 q, every limb carried and masked, bytes = low 255 bits of h + 19 q (C01.encode_canonical)", ref="10.6"),
    "C02": dict(cat="other", tech="interval analysis with a magnitude contract at every montgomery_reduce call + monomial domain over the inversion chain + constructor / pack() inventory (ABSINT, EXPCHAIN, PATH)",
                text="Decides necessary conditions only, NOT exactness of mul_internal / montgomery_reduce / add / sub (value-level; stated as not decided): every montgomery_reduce call reachable from the public Scalar API receives a value < l*R "
                     "(so its single conditional subtraction is canonical), u64 and u32; the inversion chain raises to l-2; every raw construction Scalar{bytes} in the three crates is of a reviewed kind and every pack() receives the output of a reducing kernel; "
                     "from_canonical_bytes' flag depends on is_canonical = ct_eq(self, reduce(self)); integer conversions write the little-endian bytes at offset 0 of a zeroed array",
                note="partial; relies on A1/A2 and on the constants decided by C12. Added (C02.mont, MONT domain): every public scalar operation (mul, add, sub, neg, reduce, invert, UnpackedScalar mul / square / as_montgomery) returns the plain value with no stray factor of the Montgomery radix, batch_invert inverts every entry and returns the inverse of the product; (C02.canon.operand) a constant operand of the unpacked add / minuend of sub is below l; (C02.codec, BITS domain) from_bytes / as_bytes / from_bytes_wide place every input bit at its own weight, and from_bytes_wide = lo + hi R (C02.mont)", ref="10.6"),
    "C04": dict(cat="other", tech="formal-linear-combination abstract domain over the scalar-multiplication routines (LINCOMB) + may-write / may-read index analysis of the digit arrays (ABSINT)",
                text="Decides necessary conditions only, NOT that the result equals the sum of s_i*P_i (the group law and the numerical exactness of the recodings are stated as not decided): "
                     "in the linear-combination domain (group operations by their algebraic meaning, symbolic digits, lookup tables computed from their own constructors) variable-base, the five basepoint tables (create + mul_base), vartime double-base, "
                     "Straus (ct + vartime) and precomputed Straus - serial and AVX2 copies, 15 routines - each return exactly sum 2^(w i) d_i P; both Pippenger copies (bucket indices are symbolic digits: a bucket update is an indicator-weighted update of every bucket; "
                     "analysed with all digits positive and with all digits negative) contribute exactly v 2^(w j) P_i for every point i, position j and digit value v in +-[1, 2^(w-1)]; mul_by_pow_2(k) = 2^k P and mul_by_cofactor = 8 P; every digit position a recoding must be able to produce is written by some execution "
                     "(non_adjacent_form w=5..8: 256; as_radix_16: 64; as_radix_2w w=5..8: ceil(256/w)(+1 for 256)); in every scalar-multiplication routine - serial and AVX2 copies of variable-base, vartime double-base, Straus (both), Pippenger, "
                     "precomputed Straus, the five basepoint-table radices (>=10 routines per configuration) - every digit position the recoder may leave non-zero is read by some execution (index intervals over-approximate, so an uncovered position is "
                     "provably never accessed); every optional_* multiscalar routine, given a non-empty batch whose points are all None, can only return None. Digit ranges fitting the lookup tables are C11's select() obligations",
                note="partial: the Horner / window / table / bucket structure of every routine is decided for symbolic digits (LINCOMB); the group law is C03's formulas, the numerical exactness of the recodings is not decided", ref="10.6"),
    "C05": dict(cat="other", tech="dispatch-site rule (arm completeness, same-name sibling, argument order) + set comparison of the exported API across backend configurations",
                text="Decides necessary conditions only, NOT byte-equality of outputs across configurations (relational, value-level; stated as not decided): each of the 9 run-time dispatchers has one arm per compiled backend kind and every arm forwards the dispatcher's own parameters "
                     "in order to the same-named routine of that backend's module; the exported API (paths + signatures outside backend::) is identical across simd / serial64 / serial32 / fiat64 (thorough: + fiat32, ifma, no-tables pairs). "
                     "Per-configuration facts it rests on are decided elsewhere: constants (C12), limb invariants (C11), digit coverage and the linear combination computed by every copy of every algorithm (C04 LINCOMB: serial and AVX2 copies evaluate to the same sum 2^(wi) d_i P), "
                     "and the curve formulas of every backend (C03 formula: serial u64 / u32, AVX2, IFMA all denote the same addition law)",
                note="partial; the surface comparison is on resolved items of each configuration's own compilation", ref="10.6"),
    "C12": dict(cat="proof", tech="exhaustive comparison of compiler-evaluated constants with an independent big-integer oracle (static: no repository code run)",
                text="Every const/static of the three crates (field, scalar, point, table, vector-lane and ff constants), as evaluated by rustc and decoded by type layout, "
                     "equals its mathematical definition; exhaustive over all 2x(256+64) serial and 64(+64) vector table entries and every limb representation; quick = simd(u64+AVX2)+u32, thorough = all 8 configurations",
                note="trusts rustc const-eval/layout, the exporter's decoder and lib/oracle.py (self-checked against RFC relations)", ref="3.1, 4 C12"),
    "C09": dict(cat="other", tech="must-pass-through dominance + data-dependence over resolved MIR (PATH engine)",
                text="Every success exit of every verification entry point (discovered, 14) is dominated by: canonical-S conversion, byte comparison of recompute_R with the signature's R, and for strict the R-decoding and both small-order rejections; "
                     "recompute_R/compute_challenge wiring and hash order incl. dom2 prefix; legacy rule (mask 224 on the input byte 31) only under legacy_compatibility; VerifyingKey point/compressed invariant. Structural: the value-level correctness of the double-base multiplication is C04's",
                note="decides the acceptance structure on all 14 entry points and, for verify / verify_strict on a symbolic key, message and signature (C09.sem, BATCHEQ models): the single comparison is compress(sB - H(R||A||M)A) against the signature's R bytes with s the canonical scalar of bytes 32..64; a false comparison, a failing S decoding, (strict) an undecodable R or a small-order hit give Err only; small-order tests on the decoded R and on A; Ok reachable. Refactors that move a check into a new helper with argument predicates fail closed (documented)", ref="3.6, 4 C09, 10.6"),
    "C06": dict(cat="other", tech="abstract interpretation of the ristretto255 formulas in the FORMULA domain (rational functions over Z, one run per sign scenario, inverse square roots opaque) + flag-to-decision dominance over Choice implications + data-dependence (PATH engine)",
                text="Formulas (C06.formula, 22 scenarios per backend): decode computes x = |2 s Dx|, y = u1 Dy, (x, y, 1, xy) with I = invsqrt(v u2^2), v = -d u1^2 - u2^2, u1 = 1 - s^2, u2 = 1 + s^2; encode takes invsqrt(u1 u2^2), tests the signs of T z_inv, x z_inv and s and emits |den_inv (Z - y)| with the RFC 9496 rotation "
                     "(i X, i Y, i1 / sqrt(a - d)) in all eight sign scenarios; the element-derivation map calls sqrt_ratio_i((r+1)(1-d^2), (-1-dr)(r+d)) and returns (2sD/(N_t sqrt(ad-1)), (1-s^2)/(1+s^2)) with the RFC's choice of s and c in all three scenarios; equality compares X1Y2 with Y1X2 and X1X2 with Y1Y2; double_and_compress_batch (one symbolic point, 8 sign scenarios, inversion through batch_invert) encodes |(h - g) magic g Tinv| with e, f, g, h of the doubled point. "
                     "Structural clauses: all five rejection flags of the ristretto decoder test the value they must test and reach the None / CtOption decision (both decoders); encoders emit as_bytes of the sign-normalised value; "
                     "one-way map reads both halves; equality is the two-product coset test; RistrettoPoint constructors inventory (no unvalidated wrap); field not public. NOT decided: that the RFC's formulas realise a prime-order group (Decaf / RFC 9496 theorem), "
                     "sqrt_ratio_i's contract (C01 CHAIN decides its exponent), the field kernels (C01 / C11)",
                note="formula-level conformance with RFC 9496 decided per sign scenario; structural conditions in every backend configuration", ref="10.6 FORMULA, 3.6, 4 C06"),
    "C13": dict(cat="other", tech="abstract interpretation of verify_batch's MIR in the BATCHEQ domain (scalar polynomials / polynomial combinations of points over symbolic batches of 0..5 entries, lib/eng_batcheq.py) "
                                   "+ dominance, happens-before reachability and pipeline structure matching (PATH engine) as the fallback when a value leaves the domain",
                text="verify_batch on symbolic batches (n = 0, 1, 2, 3, 5; signature = 64 symbolic bytes, key = 32 symbolic bytes + point, opaque messages): the value tested against the identity is exactly "
                     "sum z_i R_i + sum z_i H(R_i||A_i||m_i) A_i - (sum z_i s_i) B with R_i = decompress(sig_i[0..32]), s_i = canonical scalar of sig_i[32..64], pairwise distinct z_i; every z_i is 16 bytes drawn from the RNG of a "
                     "transcript that has already absorbed every H(R_i||A_i||m_i) and every S half; mismatched lengths, a failing canonical-S decoding of any entry, an undecodable R of any entry and a non-identity result each yield Err only; "
                     "Ok is reachable. RNG = transcript + inert ZeroRng, no entropy call (PATH). Assumed, decided elsewhere: optional_multiscalar_mul = sum s_i P_i (C04), single verification (C09). "
                     "Not decided: the probabilistic soundness argument of random linear combination; batches of more than 5 entries are covered by the uniformity of the code in n, not enumerated",
                note="semantic for the batch equation / binding / rejection clauses (independent of iterator-vs-loop shape); the shape-dependent PATH rules remain as explanation and as fail-closed fallback", ref="10.6 C13, 3.6"),
    "C16": dict(cat="other", tech="dominance + data-dependence over every serde Visitor/Serialize/Deserialize impl discovered from the impl table (PATH engine)",
                text="Every hand-written visitor of a validated type returns Ok only through the native validating decoder applied to the 32 elements read (loop-completion dominance, missing element => error, ed25519 trailing elements rejected); "
                     "no reducing/clamping constructor or raw aggregate; Serialize emits the canonical encoder's bytes with matching tuple length 32; StaticSecret path never clamps. Format-level round trips are not decided",
                note="partial/structural; serde derive output and format crates trusted", ref="3.6, 4 C16"),
}

NA_REASON = {
}

m = {
    "version": 1,
    "setup_cmd": "cd /verif/mirfacts && CARGO_NET_OFFLINE=true cargo +nightly build --release --offline",
    "hooks": {
        "guard": "curve25519_dalek_verif",
        "enable": "none needed: the rustc_private driver sees private items and every cfg; there are no hook commits in /repo",
        "baseline_off_cmd": "cd /repo && cargo nextest run --workspace --no-fail-fast --offline || cargo test --workspace --no-fail-fast --offline",
        "source_commits": [],
        "add_only": True,
    },
    "engines": [
        {"name": "mirfacts", "path": "mirfacts/", "serves_properties": sorted(CLAIMS), "kind_free_text": "rustc_private driver: exports resolved MIR, ADTs, impls and const-evaluated constants per crate and configuration"},
        {"name": "CONSTS", "path": "lib/eng_consts.py", "serves_properties": ["C12", "C17"], "kind_free_text": "constants vs big-integer oracle"},
        {"name": "TAINT/ZEROIZE", "path": "lib/eng_taint.py props/C14.py", "serves_properties": ["C10", "C14"], "kind_free_text": "interprocedural taint with transfer summaries and points-to; drop/zeroize field coverage; heap typestate"},
        {"name": "ABSINT", "path": "lib/absint.py lib/absint_models.py lib/eng_absint.py", "serves_properties": ["C01", "C02", "C04", "C11", "C15"], "kind_free_text": "interval abstract interpreter over checked-mode MIR with inductive type invariants"},
        {"name": "EXPCHAIN", "path": "lib/eng_expchain.py", "serves_properties": ["C01", "C02"], "kind_free_text": "monomial abstract domain (exponent vectors) over the addition chains, on the generic MIR interpreter"},
        {"name": "LINCOMB", "path": "lib/eng_lincomb.py", "serves_properties": ["C04"], "kind_free_text": "formal linear combinations (coefficient x symbolic digit x symbolic point) on the generic MIR interpreter"},
        {"name": "LADDER", "path": "lib/eng_ladder.py", "serves_properties": ["C07"], "kind_free_text": "multilinear-polynomial multiples of the base point over symbolic scalar bits, on the generic MIR interpreter"},
        {"name": "FORMULA", "path": "lib/eng_formula.py lib/formula_rules.py", "serves_properties": ["C03", "C06", "C07", "C01", "C17"], "kind_free_text": "rational functions over Z in symbolic coordinates with ring transfer functions for the field kernels, lane-wise for AVX2; identities by polynomial normalisation (modulo the curve equation for doubling)"},
        {"name": "BITS", "path": "lib/eng_bits.py lib/codec_rules.py", "serves_properties": ["C01", "C02"], "kind_free_text": "bit-provenance domain (per-bit sources under shifts, masks, ors, casts) on the generic MIR interpreter: byte <-> limb codecs"},
        {"name": "MONT", "path": "lib/eng_mont.py", "serves_properties": ["C02"], "kind_free_text": "FORMULA fractions with the Montgomery radix as a symbol; transfer functions for mul_internal / montgomery_reduce / from_montgomery / montgomery_invert"},
        {"name": "BATCHEQ", "path": "lib/eng_batcheq.py lib/sig_rules.py", "serves_properties": ["C13", "C08", "C09", "C07"], "kind_free_text": "scalar polynomials and polynomial combinations of points over symbolic batches, on the generic MIR interpreter"},
        {"name": "PATH", "path": "lib/mirlib.py lib/pathlib2.py lib/ex.py", "serves_properties": [p for p in ["C03", "C06", "C07", "C08", "C09", "C13", "C16", "C17"] if p in CLAIMS],
         "kind_free_text": "dominance (edge-removal reachability), value-flow slices, expression trees, ORDER, guard implication"},
    ],
    "checks": [],
    "notes": "repair commit in /repo: 01b199a 'fix: return PrehashedContextLength instead of a debug assertion for over-long contexts in prehashed verification' (C15, found by C15.debug_assert; recorded in known_findings.json as fixed, demonstration in selftest/findings/). static analysis only; every check extracts facts from /repo's current working tree (scratch copy, removed afterwards) through `cargo +nightly check` with the mirfacts wrapper. See DESIGN.md.",
    "not_applicable": [],
}
for p in props:
    pid = p["id"]
    if pid in CLAIMS:
        c = CLAIMS[pid]
        m["checks"].append({
            "property_id": pid,
            "quick_cmd": "./check %s --tier quick" % pid,
            "thorough_cmd": "./check %s --tier thorough" % pid,
            "evidence_file": "/verif/evidence/%s.json" % pid,
            "replay_cmd_template": "./check %s --replay {path}" % pid,
            "engine": "check",
            "level_claimed": {"category": c["cat"], "text": c["text"], "design_ref": c["ref"]},
            "level_note": c["note"],
            "technique": c["tech"],
        })
    else:
        m["not_applicable"].append({"property_id": pid, "reason": NA_REASON[pid]})
json.dump(m, open(V + "/MANIFEST.json", "w"), indent=1)
print("claimed:", sorted(CLAIMS), "n/a:", [x["property_id"] for x in m["not_applicable"]])
