#!/usr/bin/env python3
"""Print the prompt given to a mutation sub-agent for one property (property text + worktree only)."""
import json, sys
pid = sys.argv[1]
wt = sys.argv[2] if len(sys.argv) > 2 else "/tmp/wt-" + pid
out = sys.argv[3] if len(sys.argv) > 3 else "/tmp/seed-" + pid
extra = sys.argv[4] if len(sys.argv) > 4 else ""
p = [json.loads(l) for l in open('/verif/properties.jsonl') if json.loads(l)['id'] == pid][0]
print(f"""You are helping evaluate a verification framework for the Rust workspace dalek-cryptography/curve25519-dalek
(crates: curve25519-dalek, ed25519-dalek, x25519-dalek, curve25519-dalek-derive). You have your own scratch git
worktree of the repository at {wt} (a detached checkout of the pinned commit). Work ONLY inside {wt} and inside the
output directory {out}/ (create it). Do NOT read or touch /verif, /repo, or any other /tmp/wt-* directory.
The sandbox has no network: always pass --offline to cargo (CARGO_NET_OFFLINE=true) and use only crates already
present; please limit build parallelism with CARGO_BUILD_JOBS=4.

PROPERTY {pid}: {p['title']}
Statement: {p['statement']}
Quantified over: {p['quantifier']['text']}
Why the existing tests cannot settle it: {p['why_tests_cant']}
Files where the mechanisms live: {', '.join(p['anchors']['files'])}

TASK: produce ONE realistic source change (a bug a developer could plausibly introduce: a refactor gone wrong, an
"optimisation", a dropped check, an off-by-one, a wrong constant, two sites that each look fine alone ...) to the
library code in {wt} such that
  (1) the workspace still compiles and the existing test suite still passes completely:
      cd {wt} && CARGO_BUILD_JOBS=4 cargo test --workspace --no-fail-fast --offline
      (this is the default configuration; run it before and after your change and compare), and
  (2) the property above is violated -- but only under something specific: an unusual or adversarial input, a
      particular non-default build configuration (e.g. RUSTFLAGS='--cfg curve25519_dalek_backend="serial"' with or
      without '--cfg curve25519_dalek_bits="32"', backend "fiat", a cargo feature such as serde / legacy_compatibility /
      group / batch / hazmat, precomputed-tables off), a multi-step sequence of operations, a rare carry/corner case,
      or two cooperating edits. NOT something ordinary use or the existing tests would expose at once.
Do not edit or delete existing tests, and do not change test-only code. Keep the change small (a few lines to a few
dozen lines). Prefer subtlety over size.

DELIVERABLES in {out}/ :
  - patch.diff : `git -C {wt} diff` of your change (library sources only; it must apply with `git apply` to a clean
    checkout).
  - a demonstration that FAILS with the change and PASSES without it: either a new integration test file
    (say which crate's tests/ directory it goes in and the exact cargo command incl. RUSTFLAGS/features) or a small
    standalone program. Save it as demo_test.rs (or demo/ for a small crate) and write the exact commands in
    notes.md. Actually run it both ways and record the observed results in notes.md.
  - notes.md : what the change is, which clause of the property it breaks, what it needs in order to manifest
    (configuration, input, sequence), the commands you ran and their outcomes (suite before/after, demo before/after).
When done, leave the worktree with your change applied but remove its build output (rm -rf {wt}/target) to save disk.
{extra}
Your final message should summarise the change in 5-10 lines.""")
