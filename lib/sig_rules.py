"""Single-signature equations decided in the BATCHEQ domain (lib/eng_batcheq.py): Ed25519 signing (C08) and verification (C09).
Keys, messages and signatures are symbolic (seed = 32 symbolic bytes, signature = 64 symbolic bytes, key = 32 symbolic bytes + point A);
SHA-512 builds digest tokens, scalars are polynomials, points are combinations; comparisons of compressed points are logged and their
outcome is forced per scenario."""
import re
import eng_batcheq as BQ
from eng_batcheq import bytes_of, psym, ssym, sconst, sadd, smul, padd, pscale, PL, variants

VK = "ed25519_dalek::verifying::VerifyingKey"
SK = "ed25519_dalek::signing::SigningKey"


def fields(F, adt):
    a = F.adts.get(adt)
    return [x["name"] for x in a["variants"][0]["fields"]] if a else None


def key_values(F):
    fk, fs = fields(F, VK), fields(F, SK)
    if not fk or not fs:
        return None, None
    vk = ("st", tuple(("st", (bytes_of(("vk", 0), 0, 32),)) if n == "compressed" else (psym(("A", 0)) if n == "point" else BQ.TOP) for n in fk))
    sk = ("st", tuple(bytes_of(("seed",), 0, 32) if n == "secret_key" else (vk if n == "verifying_key" else BQ.TOP) for n in fs))
    return vk, sk


def has_unknown(x):
    """does the '?' marker (an input outside the domain) occur anywhere in a logged value"""
    if x == ("?",):
        return True
    if isinstance(x, (tuple, list)):
        return any(has_unknown(y) for y in x)
    return False


def one_fn(F, rx):
    fs = [f for f in F.fns.values() if "mir" in f and f["kind"] != "Closure" and re.search(rx, f["path"])]
    return fs[0] if len(fs) == 1 else None


def run(F, f, args, **scenario):
    ip = BQ.BqInterp(F, BQ.BqModels(), step_budget=3_000_000)
    ip.exact_small_vecs = True
    for k, v in scenario.items():
        setattr(ip.models, k, set(v) if isinstance(v, (list, tuple)) else v)
    ret, root = ip.run_root(f, args)
    return ret, ip


A_BYTES = ("bytes", ("vk", 0), 0, 32)
MSG = ("msg", 0)


def sign_rule(F):
    """yield (clause, fn, status, msg) for <SigningKey as Signer>::try_sign"""
    vk, sk = key_values(F)
    f = one_fn(F, r"SigningKey as [\w:]*Signer<[\w:]*Signature>>::try_sign$")
    if f is None or sk is None:
        yield "sign", f, "missing", "try_sign / SigningKey not found"
        return
    try:
        ret, ip = run(F, f, [sk, ("cref", MSG)])
    except Exception as e:
        yield "sign", f, "unknown", "analysis failed: %r" % (e,)
        return
    oks = [fs[0] for v, fs in ret[1] if v == 0 and fs] if ret is not None and ret[0] == "en" else []
    if len(oks) != 1 or oks[0][0] != "sigv" or has_unknown(oks[0]):
        yield "sign", f, "unknown", "the returned signature is outside the domain"
        return
    hd0 = ("hd", (("bytes", ("seed",), 0, 32),))
    a = ssym(("sc", ("clamp", hd0, 0), 0))
    r = ssym(("h", (("bytes", hd0, 32, 32), MSG)))
    Rtok = ("cbytes", pscale(psym(("B",)), r))
    k = ssym(("h", (Rtok, A_BYTES, MSG)))
    s = sadd(smul(k, a), r)
    gotR, gots = oks[0][1], oks[0][2]
    bad = []
    if gotR != Rtok:
        bad.append("R is not compress(r B) with r = H(prefix || M), prefix = H(seed)[32..64] (R = %s)" % BQ.show_in(gotR) if gotR[0] != "cbytes" else
                   "R = compress(%s), expected compress(H(H(seed)[32..64] || M) B)" % show_pl(gotR[1]))
    if gots != ("sbytes", s):
        bad.append("s = %s, expected H(R || A || M) * a + r with a = clamp(H(seed)[0..32]) mod l" % (BQ.show_sp(gots[1]) if gots[0] == "sbytes" else "?"))
    if bad:
        yield "sign", f, "viol", "; ".join(bad)
    else:
        yield "sign", f, "ok", "signature = (compress(r B), k a + r) with a = clamp(H(seed)[0..32]) mod l, prefix = H(seed)[32..64], r = H(prefix || M), k = H(R || A || M); A = the key's own public bytes"


def show_pl(p):
    return " + ".join("(%s) %s" % (BQ.show_sp(c), BQ.show_point(pt)) for pt, c in p[1]) or "0"


VERIFY_ENTRIES = [
    ("verify", r"VerifyingKey as [\w:]*Verifier<[\w:]*Signature>>::verify$", False),
    ("verify_strict", r"verifying::VerifyingKey::verify_strict$", True),
]


def verify_rules(F):
    """yield (entry, clause, fn, status, msg)"""
    vk, sk = key_values(F)
    for name, rx, strict in VERIFY_ENTRIES:
        f = one_fn(F, rx)
        if f is None or vk is None:
            yield name, "anchor", f, "missing", "entry point not found"
            continue
        args = [vk, ("cref", MSG), ("sig", 0)]

        def go(**sc):
            try:
                return run(F, f, args, **sc)
            except Exception as e:
                return None, e
        ret, ip = go()
        if ret is None:
            yield name, "equation", f, "unknown", "analysis failed: %r" % (ip,)
            continue
        Rb = ("bytes", ("sig", 0), 0, 32)
        k = ssym(("h", (Rb, A_BYTES, MSG)))
        s = ssym(("sc", ("sig", 0), 32))
        want = ("cbytes", padd(pscale(psym(("A", 0)), smul(k, sconst(-1))), pscale(psym(("B",)), s)))
        eqs = ip.models.eq_tests
        if ip.models.inconclusive or len(eqs) == 0 or has_unknown(eqs):
            yield name, "equation", f, "unknown", "the compared values left the domain"
        elif len(eqs) == 1 and set(eqs[0]) == {want, Rb}:
            yield name, "equation", f, "ok", "the only comparison is compress(s B - k A) with the signature's R bytes; k = H(R || A || M), s = canonical scalar of bytes 32..64"
        else:
            e = eqs[0]
            got = [x for x in e if x != Rb]
            yield name, "equation", f, "viol", "the comparison is not compress(s B - H(R||A||M) A) == R bytes: compares %s with %s" % (
                ("compress(%s)" % show_pl(e[0][1])) if e[0][0] == "cbytes" else BQ.show_in(e[0]), ("compress(%s)" % show_pl(e[1][1])) if e[1][0] == "cbytes" else BQ.show_in(e[1]))

        def only_err(clause, okmsg, applicable, **sc):
            r2, ip2 = go(**sc)
            v = variants(r2) if r2 is not None else None
            if v is None or not applicable(ip2):
                return clause, f, "unknown", "scenario %s could not be exercised" % (sc,)
            if v == {1}:
                return clause, f, "ok", okmsg
            return clause, f, "viol", "with %s the verification can return Ok" % ", ".join("%s=%s" % kv for kv in sc.items())
        yield (name,) + only_err("reject_mismatch", "when the recomputed R differs from the signature's R the result is Err only", lambda i: len(i.models.eq_tests) > 0, force_eq=0)
        yield (name,) + only_err("reject_S", "when the canonical decoding of S fails the result is Err only",
                                 lambda i: any("from_canonical_bytes" in x for x in i.models.notes), force_eq=1, fail_sc=[0])
        r3, ip3 = go(force_eq=1, force_small=0)
        v3 = variants(r3) if r3 is not None else None
        yield name, "accepts", f, ("unknown" if v3 is None else ("ok" if 0 in v3 else "viol")), ("Ok is reachable" if v3 and 0 in v3 else "Ok is not reachable")
        if strict:
            yield (name,) + only_err("reject_R", "when the signature's R does not decompress the result is Err only", lambda i: i.models.r_decodes > 0, force_eq=1, fail_dec=[0])
            yield (name,) + only_err("reject_small_order", "when a small-order test fires the result is Err only", lambda i: len(i.models.small_order_tests) > 0, force_eq=1, force_small=1)
            so = ip.models.small_order_tests
            wantso = {psym(("dec", ("sig", 0), 0)), psym(("A", 0))}
            if so and all(x is not None and x[0] == "pl" for x in so):
                okso = wantso <= set(so)
                yield name, "small_order_args", f, ("ok" if okso else "viol"), ("is_small_order is applied to the decoded R and to A" if okso else "is_small_order is not applied to both the decoded R and A")
            else:
                yield name, "small_order_args", f, "unknown", "small-order test arguments outside the domain"



def clamp_rules(F):
    """yield (instance, fn, status, msg): the clamped multiplications multiply by the *integer* clamp(bytes) - not by a reduced scalar"""
    kb = bytes_of(("k",), 0, 32)
    want = ssym(("int", ("clamp", ("k",), 0), 0))
    P = psym(("P",))
    cases = [("EdwardsPoint::mul_clamped", r"edwards::EdwardsPoint::mul_clamped$", [P, kb], "edw", P),
             ("EdwardsPoint::mul_base_clamped", r"edwards::EdwardsPoint::mul_base_clamped$", [kb], "edw", psym(("B",))),
             ("MontgomeryPoint::mul_clamped", r"montgomery::MontgomeryPoint::mul_clamped$", [("mp", "self"), kb], "mont", ("mp", "self")),
             ("MontgomeryPoint::mul_base_clamped", r"montgomery::MontgomeryPoint::mul_base_clamped$", [kb], "mont", ("basepoint",)),
             ("BasepointTable::mul_base_clamped", r"traits::BasepointTable::mul_base_clamped$", [("tbl",), kb], "edw", psym(("B",)))]
    for name, rx, args, kind, base in cases:
        f = one_fn(F, rx)
        if f is None:
            yield name, None, "missing", "function not found"
            continue
        try:
            ip = BQ.BqInterp(F, BQ.BqModels(), step_budget=2_000_000)
            ip.exact_small_vecs = True
            tyenv = {"Self": "curve25519_dalek::edwards::EdwardsBasepointTable"} if name.startswith("BasepointTable") else None
            ret, root = ip.run_root(f, args, tyenv=tyenv)
        except Exception as e:
            yield name, f, "unknown", "analysis failed: %r" % (e,)
            continue
        if kind == "edw":
            if ret is None or ret[0] != "pl":
                yield name, f, "unknown", "the result left the domain"
                continue
            exp = pscale(base, want)
            if ret == exp:
                yield name, f, "ok", "= clamp(bytes) * %s with clamp(bytes) the unreduced integer" % ("P" if base == P else "B")
            else:
                yield name, f, "viol", "returns %s, expected the point multiplied by the unreduced integer clamp(bytes)" % show_pl(ret)
        else:
            mm = ip.models.mont_muls
            if ret is None or ret[0] != "mpt" and not mm:
                yield name, f, "unknown", "the result left the domain"
                continue
            got = ret if ret[0] == "mpt" else None
            if got is None:
                yield name, f, "unknown", "the result is not a Montgomery multiplication in the domain"
            elif got[0] == "mpt" and got[1] == base and got[2] == want:
                yield name, f, "ok", "= clamp(bytes) * %s (ladder) with clamp(bytes) the unreduced integer" % ("self" if base != ("basepoint",) else "the basepoint")
            elif got[1] and got[1][0] == "to_montgomery" and got[1][1] == pscale(psym(("B",)), want):
                yield name, f, "ok", "= to_montgomery(clamp(bytes) * B) with clamp(bytes) the unreduced integer"
            else:
                yield name, f, "viol", "multiplies by %s, expected the unreduced integer clamp(bytes)" % (BQ.show_sp(got[2]) if got[2] is not None else "a value outside the domain")


# ------------------------------------------------------------------------------------------------ Ed25519ph (prehashed, with context)
DOM2 = ("lit", b"SigEd25519 no Ed25519 collisions")
PH = ("bytes", ("hd", (MSG,)), 0, 64)


def ctx_value(n):
    if n is None:
        return ("en", ((0, ()),))
    return ("en", ((1, (("cref", ("arr", tuple(("byte", ("ctx",), j) for j in range(n)))),)),))


def dom2(n):
    k = 0 if n is None else n
    return (DOM2, ("lit", b"\x01"), ("lit", bytes([k])), ("lit", b"") if k == 0 else ("bytes", ("ctx",), 0, k))


def prehashed_sign_rule(F):
    """yield (clause, fn, status, msg) for SigningKey::sign_prehashed with no context, a 3-byte, a 255-byte and a 256-byte context"""
    vk, sk = key_values(F)
    f = one_fn(F, r"signing::SigningKey::sign_prehashed$")
    if f is None or sk is None:
        yield "sign_prehashed", f, "missing", "sign_prehashed not found"
        return
    hd0 = ("hd", (("bytes", ("seed",), 0, 32),))
    a = ssym(("sc", ("clamp", hd0, 0), 0))
    for n in (None, 3, 255, 256):
        clause = "sign_prehashed[context %s]" % ("none" if n is None else "%d bytes" % n)
        try:
            ret, ip = run(F, f, [sk, ("hs", (MSG,)), ctx_value(n)], tyenv={"MsgDigest": "sha2::Sha512"})
        except Exception as e:
            yield clause, f, "unknown", "analysis failed: %r" % (e,)
            continue
        v = variants(ret)
        if n == 256:
            yield clause, f, ("unknown" if v is None else ("ok" if v == {1} else "viol")), ("a 256-byte context is rejected with Err" if v == {1} else "a 256-byte context can be signed")
            continue
        oks = [fs[0] for vv, fs in ret[1] if vv == 0 and fs] if ret is not None and ret[0] == "en" else []
        if len(oks) == 1 and has_unknown(oks[0]):
            yield clause, f, "unknown", "a hashed input is outside the domain"
            continue
        if v != {0} or len(oks) != 1 or oks[0][0] != "sigv":
            yield clause, f, "unknown" if v is None or not oks else "viol", "the result is not definitely Ok(signature) in the domain (variants %s)" % (v,)
            continue
        r = ssym(("h", dom2(n) + (("bytes", hd0, 32, 32), PH)))
        Rtok = ("cbytes", pscale(psym(("B",)), r))
        k = ssym(("h", dom2(n) + (Rtok, A_BYTES, PH)))
        s = sadd(smul(k, a), r)
        if oks[0][1] == Rtok and oks[0][2] == ("sbytes", s):
            yield clause, f, "ok", "(compress(r B), k a + r) with r = H(dom2(1, ctx) || prefix || PH(M)), k = H(dom2(1, ctx) || R || A || PH(M)), dom2 = 'SigEd25519 no Ed25519 collisions' || 1 || len(ctx) || ctx"
        else:
            yield clause, f, "viol", "the signature is not (compress(r B), k a + r) over the dom2-prefixed hashes (length byte, context bytes, prefix, prehash in that order)"


def run(F, f, args, tyenv=None, **scenario):      # (re-defined with tyenv support)
    ip = BQ.BqInterp(F, BQ.BqModels(), step_budget=3_000_000)
    ip.exact_small_vecs = True
    for k, v in scenario.items():
        setattr(ip.models, k, set(v) if isinstance(v, (list, tuple)) else v)
    ret, root = ip.run_root(f, args, tyenv=tyenv)
    return ret, ip


def prehashed_verify_rules(F):
    """yield (entry, clause, fn, status, msg) for verify_prehashed / verify_prehashed_strict"""
    vk, sk = key_values(F)
    for name, rx in (("verify_prehashed", r"verifying::VerifyingKey::verify_prehashed$"), ("verify_prehashed_strict", r"verifying::VerifyingKey::verify_prehashed_strict$")):
        f = one_fn(F, rx)
        if f is None or vk is None:
            yield name, "anchor", f, "missing", "entry point not found"
            continue
        for n in (None, 3, 255):
            clause = "equation[context %s]" % ("none" if n is None else "%d bytes" % n)
            try:
                ret, ip = run(F, f, [vk, ("hs", (MSG,)), ctx_value(n), ("sig", 0)], tyenv={"MsgDigest": "sha2::Sha512"})
            except Exception as e:
                yield name, clause, f, "unknown", "analysis failed: %r" % (e,)
                continue
            Rb = ("bytes", ("sig", 0), 0, 32)
            k = ssym(("h", dom2(n) + (Rb, A_BYTES, PH)))
            s = ssym(("sc", ("sig", 0), 32))
            want = ("cbytes", padd(pscale(psym(("A", 0)), smul(k, sconst(-1))), pscale(psym(("B",)), s)))
            eqs = ip.models.eq_tests
            if ip.models.inconclusive or not eqs or has_unknown(eqs):
                yield name, clause, f, "unknown", "the compared values left the domain"
            elif len(eqs) == 1 and set(eqs[0]) == {want, Rb}:
                yield name, clause, f, "ok", "the only comparison is compress(s B - k A) with the signature's R bytes, k = H(dom2(1, ctx) || R || A || PH(M))"
            else:
                yield name, clause, f, "viol", "the comparison is not compress(s B - H(dom2(1, ctx) || R || A || PH(M)) A) == R bytes"
        try:
            ret, ip = run(F, f, [vk, ("hs", (MSG,)), ctx_value(256), ("sig", 0)], tyenv={"MsgDigest": "sha2::Sha512"}, force_eq=1, force_small=0)
            v = variants(ret)
            yield name, "reject_long_context", f, ("unknown" if v is None else ("ok" if v == {1} else "viol")), \
                ("a 256-byte context gives Err only" if v == {1} else "a 256-byte context can verify")
        except Exception as e:
            yield name, "reject_long_context", f, "unknown", "analysis failed: %r" % (e,)
        try:
            ret, ip = run(F, f, [vk, ("hs", (MSG,)), ctx_value(3), ("sig", 0)], tyenv={"MsgDigest": "sha2::Sha512"}, force_eq=0)
            v = variants(ret)
            yield name, "reject_mismatch", f, ("unknown" if v is None else ("ok" if v == {1} else "viol")), ("a failed comparison gives Err only" if v == {1} else "a failed comparison can return Ok")
        except Exception as e:
            yield name, "reject_mismatch", f, "unknown", "analysis failed: %r" % (e,)
        if name.endswith("_strict"):
            a3 = [vk, ("hs", (MSG,)), ctx_value(3), ("sig", 0)]
            te = {"MsgDigest": "sha2::Sha512"}
            for clause, okmsg, appl, sc in (
                    ("reject_R", "when the signature's R does not decompress the result is Err only", lambda i: i.models.r_decodes > 0, dict(force_eq=1, fail_dec=[0])),
                    ("reject_small_order", "when a small-order test fires the result is Err only", lambda i: len(i.models.small_order_tests) > 0, dict(force_eq=1, force_small=1))):
                try:
                    r2, ip2 = run(F, f, a3, tyenv=te, **sc)
                    v = variants(r2) if r2 is not None else None
                    if v is None or not appl(ip2):
                        yield name, clause, f, "unknown", "scenario %s could not be exercised" % (sc,)
                    elif v == {1}:
                        yield name, clause, f, "ok", okmsg
                    else:
                        yield name, clause, f, "viol", "with %s the verification can return Ok" % ", ".join("%s=%s" % kv for kv in sc.items())
                except Exception as e:
                    yield name, clause, f, "unknown", "analysis failed: %r" % (e,)
            try:
                r2, ip2 = run(F, f, a3, tyenv=te)
                so = ip2.models.small_order_tests
                wantso = {psym(("dec", ("sig", 0), 0)), psym(("A", 0))}
                if so and all(x is not None and x[0] == "pl" for x in so):
                    okso = wantso <= set(so)
                    yield name, "small_order_args", f, ("ok" if okso else "viol"), ("is_small_order is applied to the decoded R and to A" if okso else "is_small_order is not applied to both the decoded R and A")
                else:
                    yield name, "small_order_args", f, "unknown", "small-order test arguments outside the domain"
            except Exception as e:
                yield name, "small_order_args", f, "unknown", "analysis failed: %r" % (e,)


def key_decode_rules(F):
    """yield (instance, fn, status, msg): every byte decoder of VerifyingKey stores the *input* bytes next to the point decoded from them
    (Eq / Hash / the challenge hash use the stored bytes, so a decoder that re-encodes the point changes the key for non-canonical encodings)"""
    fk = fields(F, VK)
    inb = bytes_of(("in",), 0, 32)
    want_c = ("st", (inb,))
    want_p = psym(("dec", ("in",), 0))
    for name, rx in (("VerifyingKey::from_bytes", r"verifying::VerifyingKey::from_bytes$"),
                     ("VerifyingKey::try_from(&[u8])", r"VerifyingKey as core::convert::TryFrom<&\[u8\]>>::try_from$")):
        f = one_fn(F, rx)
        if f is None or not fk:
            yield name, f, "missing", "decoder not found"
            continue
        try:
            ret, ip = run(F, f, [inb])
        except Exception as e:
            yield name, f, "unknown", "analysis failed: %r" % (e,)
            continue
        oks = [fs[0] for v, fs in ret[1] if v == 0 and fs] if ret is not None and ret[0] == "en" else []
        if len(oks) != 1 or oks[0][0] != "st" or len(oks[0][1]) != len(fk):
            yield name, f, "unknown", "the decoded key is outside the domain"
            continue
        got = dict(zip(fk, oks[0][1]))
        c, p = ip.deconst(got.get("compressed")), ip.deconst(got.get("point"))
        if c == want_c and p == want_p:
            yield name, f, "ok", "Ok(VerifyingKey { compressed: the 32 input bytes, point: decompress(input) }); Err when decompression fails"
        elif c != want_c and c[0] == "st" and c[1] and c[1][0][0] in ("cbytes",):
            yield name, f, "viol", "the stored encoding is compress(decoded point), not the input bytes: a non-canonical but accepted encoding is silently re-encoded"
        elif has_unknown(describe_val(c)) or p[0] != "pl":
            yield name, f, "unknown", "the decoded key is outside the domain"
        else:
            yield name, f, "viol", "the decoded key is not { compressed: input bytes, point: decompress(input) }"


def describe_val(v):
    try:
        return BQ.describe(v[1][0]) if v[0] == "st" and v[1] else BQ.describe(v)
    except Exception:
        return ("?",)



def x25519_rules(F):
    """yield (instance, fn, status, msg): the X25519 API multiplies by the unreduced integer clamp(secret bytes)"""
    kb = bytes_of(("k",), 0, 32)
    ub = bytes_of(("u",), 0, 32)
    kint = ssym(("int", ("clamp", ("k",), 0), 0))
    their = ("st", (("st", (ub,)),))                 # PublicKey(MontgomeryPoint(u))
    f = one_fn(F, r"^x25519_dalek::x25519::x25519$")
    if f is not None:
        try:
            ret, ip = run(F, f, [kb, ub])
            ok = ret is not None and ret[0] == "mbytes" and ret[1][0] == "mpt" and ret[1][1] == ("st", (ub,)) and ret[1][2] == kint
            yield "x25519(k, u)", f, "ok" if ok else ("unknown" if ret is None or ret[0] != "mbytes" else "viol"), \
                ("= bytes of clamp(k) * MontgomeryPoint(u), clamp(k) the unreduced integer" if ok else "the result is not bytes(clamp(k) * MontgomeryPoint(u))")
        except Exception as e:
            yield "x25519(k, u)", f, "unknown", "analysis failed: %r" % (e,)
    for sec in ("EphemeralSecret", "ReusableSecret", "StaticSecret"):
        secv = ("st", (kb,))
        f = one_fn(F, r"x25519::%s::diffie_hellman$" % sec)
        if f is not None:
            try:
                ret, ip = run(F, f, [secv, their])
                inner = ret[1][0] if ret is not None and ret[0] == "st" and len(ret[1]) == 1 else None
                ok = inner is not None and inner[0] == "mpt" and inner[1] == ("st", (ub,)) and inner[2] == kint
                yield "%s::diffie_hellman" % sec, f, "ok" if ok else ("unknown" if inner is None or inner[0] != "mpt" else "viol"), \
                    ("= SharedSecret(clamp(secret) * their_public), clamp(secret) the unreduced integer" if ok else
                     "the shared secret is %s * their_public, expected the unreduced integer clamp(secret)" % (BQ.show_sp(inner[2]) if inner is not None and inner[0] == "mpt" and inner[2] is not None else "?"))
            except Exception as e:
                yield "%s::diffie_hellman" % sec, f, "unknown", "analysis failed: %r" % (e,)
        f = one_fn(F, r"PublicKey as core::convert::From<&'?\w* ?[\w:]*%s>>::from$|impl .*From<&'?\w* ?[\w:]*%s> for [\w:]*PublicKey>::from$" % (sec, sec))
        if f is not None:
            try:
                ret, ip = run(F, f, [secv])
                inner = ret[1][0] if ret is not None and ret[0] == "st" and len(ret[1]) == 1 else None
                want = ("mpt", ("to_montgomery", pscale(psym(("B",)), kint)), sconst(1))
                ok = inner == want
                yield "PublicKey::from(&%s)" % sec, f, "ok" if ok else ("unknown" if inner is None or inner[0] != "mpt" else "viol"), \
                    ("= to_montgomery(clamp(secret) * B), clamp(secret) the unreduced integer" if ok else "the public key is not to_montgomery(clamp(secret) * B) with the unreduced integer")
            except Exception as e:
                yield "PublicKey::from(&%s)" % sec, f, "unknown", "analysis failed: %r" % (e,)


def expanded_from_bytes_rule(F):
    """(status, msg) for hazmat::ExpandedSecretKey::from_bytes on 64 symbolic bytes: scalar = clamp(bytes[0..32]) mod l, hash_prefix = bytes[32..64]
    (hazmat users construct expanded keys through it directly, so the clamp must live here and not only on the SigningKey path)"""
    f = one_fn(F, r"hazmat::ExpandedSecretKey::from_bytes$")
    a_ = F.adts.get("ed25519_dalek::hazmat::ExpandedSecretKey")
    if f is None or not a_:
        return "missing", "ExpandedSecretKey::from_bytes not found"
    names = [x["name"] for x in a_["variants"][0]["fields"]]
    src = ("e",)
    try:
        ret, ip = run(F, f, [bytes_of(src, 0, 64)])
    except Exception as e:
        return "unknown", "analysis failed: %r" % (e,)
    v = ip.deconst(ret) if ret is not None else None
    if v is None or v[0] != "st" or len(v[1]) != len(names):
        return "unknown", "the expanded key is outside the domain"
    got = dict(zip(names, (ip.deconst(x) for x in v[1])))
    want_a = ssym(("sc", ("clamp", src, 0), 0))
    sc_, pre = got.get("scalar"), got.get("hash_prefix")
    if sc_ is None or pre is None or has_unknown(describe_val(pre)) or sc_[0] != "sp":
        return "unknown", "a field of the expanded key is outside the domain"
    bad = []
    if sc_ != want_a:
        bad.append("scalar = %s, expected clamp(bytes[0..32]) mod l" % BQ.show_sp(sc_))
    if pre != bytes_of(src, 32, 32):
        bad.append("hash_prefix is not bytes[32..64]")
    if bad:
        return "viol", "; ".join(bad)
    return "ok", "scalar = clamp(bytes[0..32]) mod l, hash_prefix = bytes[32..64]"
