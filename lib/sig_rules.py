"""Single-signature equations decided in the BATCHEQ domain (lib/eng_batcheq.py): Ed25519 signing (C08) and verification (C09).
Keys, messages and signatures are symbolic (seed = 32 symbolic bytes, signature = 64 symbolic bytes, key = 32 symbolic bytes + point A);
SHA-512 builds digest tokens, scalars are polynomials, points are combinations; comparisons of compressed points are logged and their
outcome is forced per scenario."""
import re
import eng_batcheq as BQ
from eng_batcheq import bytes_of, psym, ssym, sconst, sadd, smul, padd, pscale, PL, variants

VK = "ed25519_dalek::verifying::VerifyingKey"
SK = "ed25519_dalek::signing::SigningKey"


def fields(F, adt):
    a = F.adts.get(adt)
    return [x["name"] for x in a["variants"][0]["fields"]] if a else None


def key_values(F):
    fk, fs = fields(F, VK), fields(F, SK)
    if not fk or not fs:
        return None, None
    vk = ("st", tuple(("st", (bytes_of(("vk", 0), 0, 32),)) if n == "compressed" else (psym(("A", 0)) if n == "point" else BQ.TOP) for n in fk))
    sk = ("st", tuple(bytes_of(("seed",), 0, 32) if n == "secret_key" else (vk if n == "verifying_key" else BQ.TOP) for n in fs))
    return vk, sk


def one_fn(F, rx):
    fs = [f for f in F.fns.values() if "mir" in f and f["kind"] != "Closure" and re.search(rx, f["path"])]
    return fs[0] if len(fs) == 1 else None


def run(F, f, args, **scenario):
    ip = BQ.BqInterp(F, BQ.BqModels(), step_budget=3_000_000)
    ip.exact_small_vecs = True
    for k, v in scenario.items():
        setattr(ip.models, k, set(v) if isinstance(v, (list, tuple)) else v)
    ret, root = ip.run_root(f, args)
    return ret, ip


A_BYTES = ("bytes", ("vk", 0), 0, 32)
MSG = ("msg", 0)


def sign_rule(F):
    """yield (clause, fn, status, msg) for <SigningKey as Signer>::try_sign"""
    vk, sk = key_values(F)
    f = one_fn(F, r"SigningKey as [\w:]*Signer<[\w:]*Signature>>::try_sign$")
    if f is None or sk is None:
        yield "sign", f, "missing", "try_sign / SigningKey not found"
        return
    try:
        ret, ip = run(F, f, [sk, ("cref", MSG)])
    except Exception as e:
        yield "sign", f, "unknown", "analysis failed: %r" % (e,)
        return
    oks = [fs[0] for v, fs in ret[1] if v == 0 and fs] if ret is not None and ret[0] == "en" else []
    if len(oks) != 1 or oks[0][0] != "sigv":
        yield "sign", f, "unknown", "the returned signature is outside the domain"
        return
    hd0 = ("hd", (("bytes", ("seed",), 0, 32),))
    a = ssym(("sc", ("clamp", hd0, 0), 0))
    r = ssym(("h", (("bytes", hd0, 32, 32), MSG)))
    Rtok = ("cbytes", pscale(psym(("B",)), r))
    k = ssym(("h", (Rtok, A_BYTES, MSG)))
    s = sadd(smul(k, a), r)
    gotR, gots = oks[0][1], oks[0][2]
    bad = []
    if gotR != Rtok:
        bad.append("R is not compress(r B) with r = H(prefix || M), prefix = H(seed)[32..64] (R = %s)" % BQ.show_in(gotR) if gotR[0] != "cbytes" else
                   "R = compress(%s), expected compress(H(H(seed)[32..64] || M) B)" % show_pl(gotR[1]))
    if gots != ("sbytes", s):
        bad.append("s = %s, expected H(R || A || M) * a + r with a = clamp(H(seed)[0..32]) mod l" % (BQ.show_sp(gots[1]) if gots[0] == "sbytes" else "?"))
    if bad:
        yield "sign", f, "viol", "; ".join(bad)
    else:
        yield "sign", f, "ok", "signature = (compress(r B), k a + r) with a = clamp(H(seed)[0..32]) mod l, prefix = H(seed)[32..64], r = H(prefix || M), k = H(R || A || M); A = the key's own public bytes"


def show_pl(p):
    return " + ".join("(%s) %s" % (BQ.show_sp(c), BQ.show_point(pt)) for pt, c in p[1]) or "0"


VERIFY_ENTRIES = [
    ("verify", r"VerifyingKey as [\w:]*Verifier<[\w:]*Signature>>::verify$", False),
    ("verify_strict", r"verifying::VerifyingKey::verify_strict$", True),
]


def verify_rules(F):
    """yield (entry, clause, fn, status, msg)"""
    vk, sk = key_values(F)
    for name, rx, strict in VERIFY_ENTRIES:
        f = one_fn(F, rx)
        if f is None or vk is None:
            yield name, "anchor", f, "missing", "entry point not found"
            continue
        args = [vk, ("cref", MSG), ("sig", 0)]

        def go(**sc):
            try:
                return run(F, f, args, **sc)
            except Exception as e:
                return None, e
        ret, ip = go()
        if ret is None:
            yield name, "equation", f, "unknown", "analysis failed: %r" % (ip,)
            continue
        Rb = ("bytes", ("sig", 0), 0, 32)
        k = ssym(("h", (Rb, A_BYTES, MSG)))
        s = ssym(("sc", ("sig", 0), 32))
        want = ("cbytes", padd(pscale(psym(("A", 0)), smul(k, sconst(-1))), pscale(psym(("B",)), s)))
        eqs = ip.models.eq_tests
        if ip.models.inconclusive or len(eqs) == 0 or any(("?",) in e for e in eqs):
            yield name, "equation", f, "unknown", "the compared values left the domain"
        elif len(eqs) == 1 and set(eqs[0]) == {want, Rb}:
            yield name, "equation", f, "ok", "the only comparison is compress(s B - k A) with the signature's R bytes; k = H(R || A || M), s = canonical scalar of bytes 32..64"
        else:
            e = eqs[0]
            got = [x for x in e if x != Rb]
            yield name, "equation", f, "viol", "the comparison is not compress(s B - H(R||A||M) A) == R bytes: compares %s with %s" % (
                ("compress(%s)" % show_pl(e[0][1])) if e[0][0] == "cbytes" else BQ.show_in(e[0]), ("compress(%s)" % show_pl(e[1][1])) if e[1][0] == "cbytes" else BQ.show_in(e[1]))

        def only_err(clause, okmsg, applicable, **sc):
            r2, ip2 = go(**sc)
            v = variants(r2) if r2 is not None else None
            if v is None or not applicable(ip2):
                return clause, f, "unknown", "scenario %s could not be exercised" % (sc,)
            if v == {1}:
                return clause, f, "ok", okmsg
            return clause, f, "viol", "with %s the verification can return Ok" % ", ".join("%s=%s" % kv for kv in sc.items())
        yield (name,) + only_err("reject_mismatch", "when the recomputed R differs from the signature's R the result is Err only", lambda i: len(i.models.eq_tests) > 0, force_eq=0)
        yield (name,) + only_err("reject_S", "when the canonical decoding of S fails the result is Err only",
                                 lambda i: any("from_canonical_bytes" in x for x in i.models.notes), force_eq=1, fail_sc=[0])
        r3, ip3 = go(force_eq=1, force_small=0)
        v3 = variants(r3) if r3 is not None else None
        yield name, "accepts", f, ("unknown" if v3 is None else ("ok" if 0 in v3 else "viol")), ("Ok is reachable" if v3 and 0 in v3 else "Ok is not reachable")
        if strict:
            yield (name,) + only_err("reject_R", "when the signature's R does not decompress the result is Err only", lambda i: i.models.r_decodes > 0, force_eq=1, fail_dec=[0])
            yield (name,) + only_err("reject_small_order", "when a small-order test fires the result is Err only", lambda i: len(i.models.small_order_tests) > 0, force_eq=1, force_small=1)
            so = ip.models.small_order_tests
            wantso = {psym(("dec", ("sig", 0), 0)), psym(("A", 0))}
            if so and all(x is not None and x[0] == "pl" for x in so):
                okso = wantso <= set(so)
                yield name, "small_order_args", f, ("ok" if okso else "viol"), ("is_small_order is applied to the decoded R and to A" if okso else "is_small_order is not applied to both the decoded R and A")
            else:
                yield name, "small_order_args", f, "unknown", "small-order test arguments outside the domain"



def clamp_rules(F):
    """yield (instance, fn, status, msg): the clamped multiplications multiply by the *integer* clamp(bytes) - not by a reduced scalar"""
    kb = bytes_of(("k",), 0, 32)
    want = ssym(("int", ("clamp", ("k",), 0), 0))
    P = psym(("P",))
    cases = [("EdwardsPoint::mul_clamped", r"edwards::EdwardsPoint::mul_clamped$", [P, kb], "edw", P),
             ("EdwardsPoint::mul_base_clamped", r"edwards::EdwardsPoint::mul_base_clamped$", [kb], "edw", psym(("B",))),
             ("MontgomeryPoint::mul_clamped", r"montgomery::MontgomeryPoint::mul_clamped$", [("mp", "self"), kb], "mont", ("mp", "self")),
             ("MontgomeryPoint::mul_base_clamped", r"montgomery::MontgomeryPoint::mul_base_clamped$", [kb], "mont", ("basepoint",)),
             ("BasepointTable::mul_base_clamped", r"traits::BasepointTable::mul_base_clamped$", [("tbl",), kb], "edw", psym(("B",)))]
    for name, rx, args, kind, base in cases:
        f = one_fn(F, rx)
        if f is None:
            yield name, None, "missing", "function not found"
            continue
        try:
            ip = BQ.BqInterp(F, BQ.BqModels(), step_budget=2_000_000)
            ip.exact_small_vecs = True
            tyenv = {"Self": "curve25519_dalek::edwards::EdwardsBasepointTable"} if name.startswith("BasepointTable") else None
            ret, root = ip.run_root(f, args, tyenv=tyenv)
        except Exception as e:
            yield name, f, "unknown", "analysis failed: %r" % (e,)
            continue
        if kind == "edw":
            if ret is None or ret[0] != "pl":
                yield name, f, "unknown", "the result left the domain"
                continue
            exp = pscale(base, want)
            if ret == exp:
                yield name, f, "ok", "= clamp(bytes) * %s with clamp(bytes) the unreduced integer" % ("P" if base == P else "B")
            else:
                yield name, f, "viol", "returns %s, expected the point multiplied by the unreduced integer clamp(bytes)" % show_pl(ret)
        else:
            mm = ip.models.mont_muls
            if ret is None or ret[0] != "mpt" and not mm:
                yield name, f, "unknown", "the result left the domain"
                continue
            got = ret if ret[0] == "mpt" else None
            if got is None:
                yield name, f, "unknown", "the result is not a Montgomery multiplication in the domain"
            elif got[0] == "mpt" and got[1] == base and got[2] == want:
                yield name, f, "ok", "= clamp(bytes) * %s (ladder) with clamp(bytes) the unreduced integer" % ("self" if base != ("basepoint",) else "the basepoint")
            elif got[1] and got[1][0] == "to_montgomery" and got[1][1] == pscale(psym(("B",)), want):
                yield name, f, "ok", "= to_montgomery(clamp(bytes) * B) with clamp(bytes) the unreduced integer"
            else:
                yield name, f, "viol", "multiplies by %s, expected the unreduced integer clamp(bytes)" % (BQ.show_sp(got[2]) if got[2] is not None else "a value outside the domain")
