"""Decision tables: a function whose outcome depends on a few boolean flags returned by helper calls is interpreted once per combination of the flags
(the helpers replaced by stubs that return constant Choices / bools at the flag positions and unknown values elsewhere); the set of variants of the
Option / Result it returns is compared with the expected one.  Used as a fallback when a dominance rule does not recognise the shape of the test."""
import itertools
import re
from absint import Interp, I, TOP
from absint_models import Models


def decision_table(F, f, stubs, names, good, args=None, choice=True, budget=200_000):
    """stubs: [(callee regex, result tuple length, {flag name: tuple index})]; good: {flag name: value} - the only combination that may return
    Some / Ok ... precisely: the returned enum must be variant `1` (Some) for `good` and variant `0` (None) otherwise.
    Returns (exact: bool, message)."""
    class TT(Models):
        flags = None

        def call(self, ip, fv, st, depth, t, n, a, dty):
            for rx, cnt, roles in stubs:
                if re.search(rx, n):
                    out = [TOP] * max(cnt, max(roles.values()) + 1)
                    for k, i in roles.items():
                        out[i] = ("st", (I(self.flags[k]),)) if choice else I(self.flags[k])
                    return ("st", tuple(out))
            return super().call(ip, fv, st, depth, t, n, a, dty)
    rows = 0
    for bits in itertools.product((0, 1), repeat=len(names)):
        fl = dict(zip(names, bits))
        mdl = TT()
        mdl.flags = fl
        ip = Interp(F, mdl, step_budget=budget)
        try:
            ret, root_ = ip.run_root(f, args if args is not None else [TOP] * f["mir"]["arg_count"])
        except Exception as e:
            return False, "decision table could not be evaluated: %r" % (e,)
        vs = {v for v, _ in ret[1]} if ret is not None and ret[0] == "en" else None
        want = {1} if fl == good else {0}
        if vs != want:
            return False, "with flags %s the function returns %s" % (fl, "an unknown value" if vs is None else ("Some" if vs == {1} else ("None" if vs == {0} else "Some or None")))
        rows += 1
    return True, "the decision table was evaluated: of the %d combinations of (%s) only (%s) returns Some" % (rows, ", ".join(names), ", ".join(str(good[k]) for k in names))


def ctoption_flag_table(F, f, stub_rx, cnt=2, flag_index=0, args=None, budget=200_000):
    """a function returning subtle::CtOption whose is_some flag must be exactly the Choice at `flag_index` of the tuple returned by the stubbed helper
    (e.g. the was-square flag of sqrt_ratio_i): evaluated for flag = 0 and 1.  Returns (exact, message)."""
    class TT(Models):
        flag = 0

        def call(self, ip, fv, st, depth, t, n, a, dty):
            if re.search(stub_rx, n):
                out = [TOP] * cnt
                out[flag_index] = ("st", (I(self.flag),))
                return ("st", tuple(out))
            return super().call(ip, fv, st, depth, t, n, a, dty)
    for fl in (0, 1):
        mdl = TT()
        mdl.flag = fl
        ip = Interp(F, mdl, step_budget=budget)
        try:
            ret, root_ = ip.run_root(f, args if args is not None else [TOP] * f["mir"]["arg_count"])
        except Exception as e:
            return False, "flag table could not be evaluated: %r" % (e,)
        v = ip.deconst(ret) if ret is not None else None
        c = ip.deconst(v[1][1]) if v is not None and v[0] == "st" and len(v[1]) == 2 else None
        while c is not None and c[0] == "st" and len(c[1]) == 1:
            c = c[1][0]
        if c is None or c[0] != "i" or not (c[1] == c[2] == fl):
            return False, "with the helper's flag = %d the CtOption's is_some is %s" % (fl, "unknown" if c is None or c[0] != "i" else "[%d, %d]" % (c[1], c[2]))
    return True, "is_some is exactly the helper's validity flag (evaluated for 0 and 1)"
