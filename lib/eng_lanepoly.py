"""LANEPOLY: the AVX2 vector field kernels in the LIMBPOLY domain (integer polynomials over limb symbols with opaque quotients), lane-wise.

A __m256i is 8 u32 lanes or 4 u64 lanes of polynomials; the two views are converted on demand.  Joining two u32 lanes into a u64 lane is
lo + 2^32 hi.  Splitting a u64 lane x is exact (x, 0) when the *bound* of x is below 2^32, and (x - 2^32 q, q) with an opaque quotient
otherwise - so a kernel that feeds a 64-bit quantity that need not fit 32 bits to a 32-bit multiplier, shuffle or repack does not come out
congruent to its specification and is reported.  Bounds are upper bounds of non-negative quantities, computed structurally: symbols carry
the kernel's documented precondition (even limb < 2^(26+b), odd limb < 2^(25+b)), a mask result is below the mask, a quotient q(x, k)
is below bound(x) >> k, sums and products add and multiply; a subtraction keeps the bound of its left operand (that lanes do not wrap
below zero, or above their width, is C11's lane obligation and is not repeated here).  Nothing is executed."""
import re
from absint import I, TOP
from absint_simd import raw, mk
from eng_formula import pnorm, pconst, pvar, padd, pmul
import eng_limbpoly as LP


class LaneInterp(LP.LpInterp):
    def __init__(self, *a, **k):
        super().__init__(*a, **k)
        self.symbound = {}
        self.bound = {}
        self.splits = 0
        self.inexact_splits = 0

    def q(self, x, k):
        fresh = (x, k) not in self.quot
        r = super().q(x, k)
        if fresh:
            b = self.bnd(x)
            if b is not None:
                self.symbound[r[0][0][0][0]] = b >> k
        return r

    def bnd(self, p):
        """upper bound of the non-negative quantity p, or None"""
        if p in self.bound:
            return self.bound[p]
        tot = 0
        for m, c in p:
            if c <= 0:
                continue
            t = c
            for v, e in m:
                b = self.symbound.get(v)
                if b is None:
                    return None
                t *= b ** e
            tot += t
        return tot

    def note(self, p, b):
        if b is None:
            return p
        s = self.bnd(p)
        if s is None or b < s:
            self.bound[p] = b
        return p

    # the structural bounds of scalar operations (new() / split() / Mul<(u32,..)> work on scalars)
    def binop(self, op, a, b, ty, fv=None, line=0):
        base = op.replace("Unchecked", "").replace("WithOverflow", "")
        if (a[0] == "lp" or b[0] == "lp") and "WithOverflow" not in op:
            x, y = LP.as_poly(a), LP.as_poly(b)
            if base == "Shr" and x is not None and b[0] == "i" and b[1] == b[2]:
                return L(self.shr(x, b[1]))
            if base == "BitAnd":
                for u, c in ((x, b), (y, a)):
                    if u is not None and c[0] == "i" and c[1] == c[2] and c[1] > 0 and (c[1] & (c[1] + 1)) == 0:
                        return L(self.mask(u, c[1]))
        r = super().binop(op, a, b, ty, fv, line)
        if r is not None and r[0] == "lp":
            x, y = LP.as_poly(a), LP.as_poly(b)
            if x is not None and y is not None:
                self.arith_bound(base, r[1], x, y, b)
        return r

    def arith_bound(self, base, r, x, y, b=None):
        bx, by = self.bnd(x), self.bnd(y)
        if base == "Add" and bx is not None and by is not None:
            self.note(r, bx + by)
        elif base == "Mul" and bx is not None and by is not None:
            self.note(r, bx * by)
        elif base == "Sub":
            self.note(r, bx)
        elif base == "Shl" and bx is not None and b is not None and b[0] == "i" and b[1] == b[2]:
            self.note(r, bx << b[1])

    def shr(self, x, k):
        """x >> k: 0 when x is below 2^k, an exact division when every coefficient is a multiple of 2^k, else the opaque quotient q(x, k)"""
        if k == 0:
            return x
        bx = self.bnd(x)
        if bx is not None and bx < (1 << k):
            return pconst(0)
        if all(c % (1 << k) == 0 for _, c in x):
            r = pnorm({m: c >> k for m, c in x})
        else:
            r = self.q(x, k)
        if bx is not None:
            self.note(r, bx >> k)
        return r

    def mask(self, x, m):
        """x & m for m = 2^k - 1: x itself when x is at most m, else x - 2^k q(x, k)"""
        bx = self.bnd(x)
        if bx is not None and bx <= m:
            return x
        k = m.bit_length()
        r = padd(x, pmul(self.q(x, k), pconst(1 << k)), -1)
        self.note(r, m)
        return r


def P(v):
    return LP.as_poly(v) if v is not None and v[0] in ("lp", "i") else None


def L(p):
    if p is None:
        return TOP
    if len(p) == 0:
        return I(0)
    if len(p) == 1 and p[0][0] == ():
        return I(p[0][1])
    return LP.lp(p)


class LaneModels(LP.LpModels):
    def __init__(self):
        super().__init__()
        n0 = len(self.table)
        R = self.reg
        X = r"core::arch::x86_64::_mm256_"
        R(X + r"(add|sub)_epi(32|64)$", self.v_addsub)
        R(X + r"mul_epu32$", self.v_mul)
        R(X + r"s(l|r)li_epi(32|64)(::<.*>)?$", self.v_shift)
        R(X + r"srlv_epi32$", self.v_srlv)
        R(X + r"and_si256$", self.v_and)
        R(X + r"(or|xor)_si256$", lambda ip, fv, st, d, t, n, a, dty: mk([TOP] * 8))
        R(X + r"blend_epi32(::<.*>)?$", self.v_blend)
        R(X + r"shuffle_epi32(::<.*>)?$", self.v_shuffle)
        R(X + r"permutevar8x32_epi32$", self.v_permutevar)
        R(X + r"unpack(lo|hi)_epi32$", self.v_unpack)
        R(X + r"set_epi32$", lambda ip, fv, st, d, t, n, a, dty: mk([self.lane(ip, x) for x in reversed(a)]))
        R(X + r"set1_epi32$", lambda ip, fv, st, d, t, n, a, dty: mk([self.lane(ip, a[0])] * 8))
        R(X + r"set_epi64x?$", lambda ip, fv, st, d, t, n, a, dty: mk([self.lane(ip, x) for x in reversed(a)]))
        R(X + r"set1_epi64x$", lambda ip, fv, st, d, t, n, a, dty: mk([self.lane(ip, a[0])] * 4))
        R(X + r"extract_epi(32|64)(::<.*>)?$", self.v_extract)
        R(X + r"setzero_si256$", lambda ip, fv, st, d, t, n, a, dty: mk([I(0)] * 8))
        self.table = self.table[n0:] + self.table[:n0]      # the polynomial lane models take precedence over the interval ones

    def lane(self, ip, x):
        x = ip.deconst(x)
        return x if x is not None and x[0] in ("lp", "i") else TOP

    def imm(self, ip, t):
        for g in getattr(ip, "cur_gargs", ()) or ():
            if isinstance(g, str) and g.startswith("#") and g[1:].lstrip("-").isdigit():
                return int(g[1:])
        m = re.search(r"::<(-?\d+)>$", t.get("callee_full") or "")
        return int(m.group(1)) if m else None

    def const_arg(self, ip, t, a, i):
        k = self.imm(ip, t)
        if k is None and len(a) > i:
            kv = ip.deconst(a[i])
            k = kv[1] if kv is not None and kv[0] == "i" and kv[1] == kv[2] else None
        return k

    # ---- views
    def polys(self, v):
        a = raw(v)
        if a is None:
            return None
        return [P(x) for x in a]

    def l32(self, ip, v):
        a = self.polys(v)
        if a is None:
            return [None] * 8
        if len(a) == 8:
            return a
        out = []
        for x in a:
            if x is None:
                out += [None, None]
                continue
            if len(x) <= 1 and (not x or x[0][0] == ()):
                c = x[0][1] if x else 0
                out += [pconst(c & 0xffffffff), pconst((c >> 32) & 0xffffffff)]
                continue
            ip.splits += 1
            b = ip.bnd(x)
            if b is not None and b < (1 << 32):
                out += [x, pconst(0)]
            else:
                ip.inexact_splits += 1
                q = ip.q(x, 32)
                out += [padd(x, pmul(q, pconst(1 << 32)), -1), q]
        return out

    def l64(self, ip, v):
        a = self.polys(v)
        if a is None:
            return [None] * 4
        if len(a) == 4:
            return a
        out = []
        for k in range(4):
            lo, hi = a[2 * k], a[2 * k + 1]
            if lo is None or hi is None:
                out.append(None)
                continue
            r = padd(lo, pmul(hi, pconst(1 << 32)))
            bl, bh = ip.bnd(lo), ip.bnd(hi)
            if bl is not None and bh is not None:
                ip.note(r, bl + (bh << 32))
            out.append(r)
        return out

    def is64(self, v):
        a = raw(v)
        return a is not None and len(a) == 4

    # ---- operations
    def v_addsub(self, ip, fv, st, depth, t, n, a, dty):
        m = re.search(r"(add|sub)_epi(32|64)$", n)
        add, w = m.group(1) == "add", int(m.group(2))
        V = self.l32 if w == 32 else self.l64
        out = []
        for x, y in zip(V(ip, a[0]), V(ip, a[1])):
            if x is None or y is None:
                out.append(TOP)
                continue
            r = padd(x, y, 1 if add else -1)
            ip.arith_bound("Add" if add else "Sub", r, x, y)
            out.append(L(r))
        return mk(out)

    def v_mul(self, ip, fv, st, depth, t, n, a, dty):
        x, y = self.l32(ip, a[0]), self.l32(ip, a[1])
        out = []
        for k in range(4):
            p, q = x[2 * k], y[2 * k]
            if p is None or q is None:
                out.append(TOP)
                continue
            r = pmul(p, q)
            ip.arith_bound("Mul", r, p, q)
            out.append(L(r))
        return mk(out)

    def shr(self, ip, x, k):
        return TOP if x is None else L(ip.shr(x, k))

    def v_shift(self, ip, fv, st, depth, t, n, a, dty):
        m = re.search(r"s(l|r)li_epi(32|64)", n)
        left, w = m.group(1) == "l", int(m.group(2))
        k = self.const_arg(ip, t, a, 1)
        x = (self.l32 if w == 32 else self.l64)(ip, a[0])
        if k is None:
            return mk([TOP] * len(x))
        if left:
            out = []
            for p in x:
                if p is None:
                    out.append(TOP)
                    continue
                r = pmul(p, pconst(1 << k))
                b = ip.bnd(p)
                ip.note(r, None if b is None else b << k)
                out.append(L(r))
            return mk(out)
        return mk([self.shr(ip, p, k) for p in x])

    def consts(self, lanes):
        out = []
        for p in lanes:
            if p is None or len(p) > 1 or (p and p[0][0] != ()):
                return None
            out.append(p[0][1] if p else 0)
        return out

    def v_srlv(self, ip, fv, st, depth, t, n, a, dty):
        x = self.l32(ip, a[0])
        c = self.consts(self.l32(ip, a[1]))
        if c is None:
            return mk([TOP] * 8)
        return mk([self.shr(ip, p, k) if k < 32 else I(0) for p, k in zip(x, c)])

    def v_and(self, ip, fv, st, depth, t, n, a, dty):
        for V, cnt in ((self.l64, 4), (self.l32, 8)):
            if cnt == 4 and not (self.is64(a[0]) or self.is64(a[1])):
                continue
            x, y = V(ip, a[0]), V(ip, a[1])
            cx, cy = self.consts(x), self.consts(y)
            if cx is not None and cy is not None:
                return mk([I(p & q) for p, q in zip(cx, cy)])
            val, msk = (x, cy) if cy is not None else (y, cx)
            if msk is None:
                continue
            if not all(m_ >= 0 and (m_ & (m_ + 1)) == 0 for m_ in msk):
                continue
            out = []
            for p, m_ in zip(val, msk):
                if p is None:
                    out.append(TOP)
                elif m_ == 0:
                    out.append(I(0))
                else:
                    out.append(L(ip.mask(p, m_)))
            return mk(out)
        return mk([TOP] * 8)

    def v_blend(self, ip, fv, st, depth, t, n, a, dty):
        imm = self.const_arg(ip, t, a, 2)
        if imm is None:
            return mk([TOP] * 8)
        imm &= 0xff
        if self.is64(a[0]) and self.is64(a[1]) and all(((imm >> (2 * k)) & 1) == ((imm >> (2 * k + 1)) & 1) for k in range(4)):
            x, y = self.l64(ip, a[0]), self.l64(ip, a[1])
            return mk([L(y[k] if (imm >> (2 * k)) & 1 else x[k]) for k in range(4)])
        x, y = self.l32(ip, a[0]), self.l32(ip, a[1])
        return mk([L(y[i] if (imm >> i) & 1 else x[i]) for i in range(8)])

    def v_shuffle(self, ip, fv, st, depth, t, n, a, dty):
        imm = self.const_arg(ip, t, a, 1)
        if imm is None:
            return mk([TOP] * 8)
        x = self.l32(ip, a[0])
        return mk([L(x[half + ((imm >> (2 * j)) & 3)]) for half in (0, 4) for j in range(4)])

    def v_permutevar(self, ip, fv, st, depth, t, n, a, dty):
        x = self.l32(ip, a[0])
        idx = self.consts(self.l32(ip, a[1]))
        if idx is None:
            return mk([TOP] * 8)
        return mk([L(x[i & 7]) for i in idx])

    def v_unpack(self, ip, fv, st, depth, t, n, a, dty):
        o = 2 if "unpackhi" in n else 0
        x, y = self.l32(ip, a[0]), self.l32(ip, a[1])
        out = []
        for half in (0, 4):
            out += [L(x[half + o]), L(y[half + o]), L(x[half + o + 1]), L(y[half + o + 1])]
        return mk(out)

    def v_extract(self, ip, fv, st, depth, t, n, a, dty):
        w = 32 if "epi32" in n else 64
        i = self.const_arg(ip, t, a, 1)
        V = (self.l32 if w == 32 else self.l64)(ip, a[0])
        if i is None or not (0 <= i < len(V)):
            return TOP
        return L(V[i])


LANE_OF = {"A": (0, 2), "B": (1, 3), "C": (4, 6), "D": (5, 7)}


def fe4(ip, sym, b):
    """a FieldElement2625x4 of fresh limb symbols <sym><A..D><0..9> with the bound parameter b (even limb < 2^(26+b), odd < 2^(25+b))"""
    vecs = []
    for i in range(5):
        lanes = [None] * 8
        for e, (l0, l1) in LANE_OF.items():
            for j, l in ((2 * i, l0), (2 * i + 1, l1)):
                name = "%s%s%d" % (sym, e, j)
                ip.symbound[name] = int(2 ** ((26 if j % 2 == 0 else 25) + b))
                lanes[l] = LP.lp(pvar(name))
        vecs.append(("st", (mk(lanes),)))
    return ("st", (("arr", tuple(vecs)),))


def elem_sym(sym, e):
    """the value of element e of fe4(sym): sum limb_j 2^off(j)"""
    tot = pconst(0)
    for j, off in enumerate(LP.offsets(10)):
        tot = padd(tot, pmul(pvar("%s%s%d" % (sym, e, j)), pconst(1 << off)))
    return tot


def elem_value(v, e):
    """polynomial value of element e (A..D) of a FieldElement2625x4 value, or None"""
    while v is not None and v[0] == "st" and len(v[1]) == 1 and v[1][0][0] != "arr":
        v = v[1][0]
    if v is None or v[0] != "st" or v[1][0][0] != "arr" or len(v[1][0][1]) != 5:
        return None
    offs = LP.offsets(10)
    tot = pconst(0)
    for i, vec in enumerate(v[1][0][1]):
        a = raw(vec)
        if a is None or len(a) != 8:
            return None
        for j, l in ((2 * i, LANE_OF[e][0]), (2 * i + 1, LANE_OF[e][1])):
            p = P(a[l])
            if p is None:
                return None
            tot = padd(tot, pmul(p, pconst(1 << offs[j])))
    return tot


def lanes_of(v):
    """the 40 lane polynomials of a FieldElement2625x4 value, by (element, limb), or None"""
    while v is not None and v[0] == "st" and len(v[1]) == 1 and v[1][0][0] != "arr":
        v = v[1][0]
    if v is None or v[0] != "st" or v[1][0][0] != "arr" or len(v[1][0][1]) != 5:
        return None
    out = {}
    for i, vec in enumerate(v[1][0][1]):
        a = raw(vec)
        if a is None or len(a) != 8:
            return None
        for e in "ABCD":
            for j, l in ((2 * i, LANE_OF[e][0]), (2 * i + 1, LANE_OF[e][1])):
                out[(e, j)] = P(a[l])
    return out


def new_interp(F):
    ip = LaneInterp(F, LaneModels(), step_budget=8_000_000)
    return ip
