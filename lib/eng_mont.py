"""MONT: the scalar field's Montgomery plumbing in the FORMULA fraction domain with one extra symbol R (the Montgomery radix).
Transfer functions (the documented contracts; the limb code is never entered - its exactness is C02 MAGNITUDE / C11's business):
    mul_internal(a, b) = a b      square_internal(a) = a^2      montgomery_reduce(x) = x / R      add / sub = a +- b
    from_montgomery(x) = x / R    montgomery_invert(x) = R^2 / x   (the chain itself is C02 CHAIN: exponent l - 2)
    pack / unpack / from_bytes / as_bytes = identity;  the constants R and RR are recognised by value (2^260 or 2^261 mod l and its square)
Decided: every public scalar operation built from these returns the plain (non-Montgomery) result: no stray factor of R."""
import re
from absint import Interp, I, TOP
from absint_models import Models
from eng_formula import frac, fvar, fconst, fadd, fmul, finv, fneg, is_zero, show

L = 2 ** 252 + 27742317777372353535851937790883648493
S5 = r"scalar::Scalar(52|29)"


class MontModels(Models):
    def __init__(self, limb_bits, nlimbs):
        super().__init__()
        self.limb_bits, self.nlimbs = limb_bits, nlimbs
        self.Rv = pow(2, limb_bits * nlimbs, L)
        self.ops = 0
        self.fresh = []             # names for operands that are raw limb vectors (see val)

    def const(self, v):
        """a concrete Scalar52 / Scalar29 / Scalar constant -> fraction"""
        try:
            if v[0] == "st" and len(v[1]) == 1 and v[1][0][0] == "arr":
                xs = v[1][0][1]
                if not all(x[0] == "i" and x[1] == x[2] for x in xs):
                    return None
                if len(xs) == self.nlimbs:
                    n = sum(x[1] << (self.limb_bits * i) for i, x in enumerate(xs))
                elif len(xs) == 32:
                    n = sum((x[1] & 255) << (8 * i) for i, x in enumerate(xs))
                else:
                    return None
                n %= L
                if n == self.Rv:
                    return fvar("R")
                if n == self.Rv * self.Rv % L:
                    return fmul(fvar("R"), fvar("R"))
                if n < 2 ** 64:
                    return fconst(n)
                if L - n < 2 ** 64:
                    return fconst(-(L - n))
        except (IndexError, TypeError):
            pass
        return None

    def val(self, ip, st, a):
        v = ip.deconst(ip.deref_val(st, a))
        if v[0] == "fe":
            return v
        c = self.const(v)
        if c is None and self.fresh and a[0] == "ref":
            # a value assembled from raw limbs (from_bytes_wide's lo / hi halves): name it, in order of first use, and remember it in place
            c = fvar(self.fresh.pop(0))
            cur = st.frames[a[1]].get(a[2], TOP)
            st.frames[a[1]][a[2]] = ip.write_path(cur, a[3], c)
        return c

    def call(self, ip, fv, st, depth, t, n, args, dty):
        names = [x for x in (n, t.get("callee_full") or "", (t.get("resolved") or {}).get("path") or "") if x]
        S = lambda rx: any(re.search(rx, nm) for nm in names)
        A = lambda i: self.val(ip, st, args[i]) if i < len(args) else None
        R_ = fvar("R")
        if S(S5 + r"::mul_internal$") and len(args) == 2:
            self.ops += 1
            return fmul(A(0), A(1)) if A(0) is not None and A(1) is not None else TOP
        if S(S5 + r"::square_internal$") and args:
            self.ops += 1
            return fmul(A(0), A(0)) if A(0) is not None else TOP
        if S(S5 + r"::montgomery_reduce$") and args:
            self.ops += 1
            return fmul(A(0), finv(R_)) if A(0) is not None else TOP
        if S(S5 + r"::from_montgomery$") and args:
            self.ops += 1
            return fmul(A(0), finv(R_)) if A(0) is not None else TOP
        if S(r"scalar::<impl [\w:]*Scalar(52|29)>::montgomery_invert$|" + S5 + r"::montgomery_invert$") and args:
            self.ops += 1
            return fmul(fmul(R_, R_), finv(A(0))) if A(0) is not None and A(0)[1] else TOP
        m = None
        for nm in names:
            m = m or re.search(S5 + r"::(add|sub)$", nm)
        if m and len(args) == 2:
            self.ops += 1
            return fadd(A(0), A(1), -1 if m.group(2) == "sub" else 1) if A(0) is not None and A(1) is not None else TOP
        if S(S5 + r"::(from_bytes|as_bytes|to_bytes)$|(^|::)Scalar::unpack$|scalar::<impl [\w:]*Scalar(52|29)>::pack$|::clone$") and args and A(0) is not None:
            return A(0)
        if S(r"zeroize::Zeroize>::zeroize$"):
            return ("st", ())
        return super().call(ip, fv, st, depth, t, n, args, dty)


def backend(F):
    for p, a in F.adts.items():
        m = re.search(r"scalar::Scalar(52|29)$", p)
        if m:
            return (52, 5) if m.group(1) == "52" else (29, 9)
    return None


def run(F, f, values, fresh=None):
    lb, nl = backend(F)
    ip = Interp(F, MontModels(lb, nl), step_budget=4_000_000)
    ip.models.fresh = list(fresh or [])
    ip.exact_small_vecs = True
    ret, root = ip.run_root(f, values)
    return ret, ip, root
