"""CONSTS engine: every evaluated constant / static of the three crates against its definition.

Input: the values the compiler's const evaluator produced (decoded by type layout in the driver).
No repository code is executed; the oracle is lib/oracle.py."""
import math
import oracle as O

P, L = O.P, O.L

# RFC 9496 section 4.1 constants as recalled; each is *verified* against its defining relation in
# selfcheck() before use, so a mis-remembered digit cannot go unnoticed.
RFC9496 = {
    "D": 37095705934669439343138083508754565189542113879843219016388785533085940283555,
    "SQRT_M1": 19681161376707505956807079304988542015446066515923890162744021073123829784752,
    "SQRT_AD_MINUS_ONE": 25063068953384623474111414158702152701244531502492656460079210482610430750235,
    "INVSQRT_A_MINUS_D": 54469307008909316920995813868745141605393597292927456921205312896311721017578,
    "ONE_MINUS_D_SQ": 1159843021668779879193775521855586647937357759715417654439879720876111806838,
    "D_MINUS_ONE_SQ": 40440834346308536858101042469323190826248399146238708352240133220865137265952,
}


def selfcheck():
    D = O.D
    assert RFC9496["D"] == D
    assert RFC9496["SQRT_M1"] ** 2 % P == P - 1 and RFC9496["SQRT_M1"] % 2 == 0
    assert RFC9496["SQRT_AD_MINUS_ONE"] ** 2 % P == (-D - 1) % P
    assert RFC9496["INVSQRT_A_MINUS_D"] ** 2 * (-1 - D) % P == 1
    assert RFC9496["INVSQRT_A_MINUS_D"] == O.INVSQRT_A_MINUS_D
    assert RFC9496["ONE_MINUS_D_SQ"] == (1 - D * D) % P
    assert RFC9496["D_MINUS_ONE_SQ"] == (D - 1) ** 2 % P
    assert O.on_curve(*O.B) and O.ed_mul(L, O.B) == O.IDENT and O.ed_mul(8, O.B) != O.IDENT
    # l is prime (Miller-Rabin with fixed bases is deterministic enough here; Pocklington not needed)
    assert pow(2, L - 1, L) == 1 and pow(3, L - 1, L) == 1


FIELD_EXPECT = {
    "MINUS_ONE": P - 1,
    "EDWARDS_D": O.D,
    "EDWARDS_D2": 2 * O.D % P,
    "ONE_MINUS_EDWARDS_D_SQUARED": RFC9496["ONE_MINUS_D_SQ"],
    "EDWARDS_D_MINUS_ONE_SQUARED": RFC9496["D_MINUS_ONE_SQ"],
    "SQRT_AD_MINUS_ONE": RFC9496["SQRT_AD_MINUS_ONE"],
    "INVSQRT_A_MINUS_D": RFC9496["INVSQRT_A_MINUS_D"],
    "SQRT_M1": RFC9496["SQRT_M1"],
    "APLUS2_OVER_FOUR": 121666,
    "MONTGOMERY_A": 486662,
    "MONTGOMERY_A_NEG": P - 486662,
}
FIELD_DEF = {
    "MINUS_ONE": "-1 mod p", "EDWARDS_D": "-121665/121666", "EDWARDS_D2": "2d",
    "ONE_MINUS_EDWARDS_D_SQUARED": "1-d^2", "EDWARDS_D_MINUS_ONE_SQUARED": "(d-1)^2",
    "SQRT_AD_MINUS_ONE": "x^2 = a*d-1 = -d-1, RFC 9496 sign", "INVSQRT_A_MINUS_D": "x^2*(a-d)=1, non-negative root",
    "SQRT_M1": "x^2=-1, non-negative root 2^((p-1)/4)", "APLUS2_OVER_FOUR": "(486662+2)/4", "MONTGOMERY_A": "486662",
    "MONTGOMERY_A_NEG": "-486662",
}


# ---------------------------------------------------------------------- decoding

def drill(v):
    """Strip single-field wrapper structs down to the first list / int."""
    while isinstance(v, dict) and "f" in v and len(v["f"]) == 1:
        v = next(iter(v["f"].values()))
    return v


def adt_name(v):
    return v.get("adt", "") if isinstance(v, dict) else ""


def w25(i):
    return (51 * i + 1) // 2   # ceil(25.5 i)


def fe_decode(v):
    """-> (value as integer (unreduced), limbs, radix name)"""
    name = adt_name(v)
    limbs = drill(v)
    if not isinstance(limbs, list) or not all(isinstance(x, int) for x in limbs):
        raise ValueError("not a limb list: %s" % name)
    if name.endswith("FieldElement51") and len(limbs) == 5:
        return sum(l << (51 * i) for i, l in enumerate(limbs)), limbs, "51"
    if name.endswith("FieldElement2625") and len(limbs) == 10:
        return sum(l << w25(i) for i, l in enumerate(limbs)), limbs, "25.5"
    raise ValueError("unknown field element type %s (%d limbs)" % (name, len(limbs)))


def fe_limb_ok(limbs, radix, extra=0.0):
    """limbs within nominal width (+ `extra` bits of headroom for lazily-added table entries)"""
    if radix == "51":
        return all(0 <= l < 2 ** (51 + extra) for l in limbs)
    return all(0 <= l < 2 ** ((26 if i % 2 == 0 else 25) + extra) for i, l in enumerate(limbs))


def fe_excess(limbs, radix):
    b = -1e9
    for i, l in enumerate(limbs):
        nominal = 51 if radix == "51" else (26 if i % 2 == 0 else 25)
        if l > 0:
            b = max(b, math.log2(l) - nominal)
    return b


def scalar_unpacked_decode(v):
    name = adt_name(v)
    limbs = drill(v)
    if name.endswith("Scalar52") and len(limbs) == 5:
        return sum(l << (52 * i) for i, l in enumerate(limbs)), limbs, 52
    if name.endswith("Scalar29") and len(limbs) == 9:
        return sum(l << (29 * i) for i, l in enumerate(limbs)), limbs, 29
    raise ValueError("unknown unpacked scalar %s" % name)


def bytes_le(v):
    b = drill(v)
    if not isinstance(b, list) or len(b) != 32:
        raise ValueError("expected 32 bytes")
    return int.from_bytes(bytes(b), "little"), bytes(b)


def edwards_decode(v):
    f = v["f"]
    X, Y, Z, T = (fe_decode(f[k]) for k in ("X", "Y", "Z", "T"))
    return X, Y, Z, T


def edwards_affine(v):
    (X, lx, r), (Y, ly, _), (Z, lz, _), (T, lt, _) = edwards_decode(v)
    if Z % P == 0:
        raise ValueError("Z = 0")
    zi = O.inv(Z)
    ok_t = (X * Y - Z * T) % P == 0
    limbs_ok = all(fe_limb_ok(l, r) for l in (lx, ly, lz, lt))
    return (X * zi % P, Y * zi % P), ok_t, limbs_ok


def m256_lanes32(v):
    """u32x8 / __m256i -> 8 u32 lanes"""
    q = drill(v)
    if not (isinstance(q, list) and len(q) == 4):
        raise ValueError("not a __m256i")
    out = []
    for x in q:
        x &= (1 << 64) - 1
        out += [x & 0xffffffff, x >> 32]
    return out


def m256_lanes64(v):
    q = drill(v)
    if not (isinstance(q, list) and len(q) == 4):
        raise ValueError("not a __m256i")
    return [x & ((1 << 64) - 1) for x in q]


def fe2625x4_decode(v):
    """FieldElement2625x4([u32x8;5]) -> 4 field values (A,B,C,D) and their 10 limbs each.
    vector i = (a_2i, b_2i, a_2i+1, b_2i+1, c_2i, d_2i, c_2i+1, d_2i+1)"""
    vecs = drill(v)
    if not (isinstance(vecs, list) and len(vecs) == 5):
        raise ValueError("FieldElement2625x4: expected 5 vectors")
    limbs = [[0] * 10 for _ in range(4)]
    for i, vec in enumerate(vecs):
        l = m256_lanes32(vec)
        limbs[0][2 * i], limbs[1][2 * i], limbs[0][2 * i + 1], limbs[1][2 * i + 1] = l[0], l[1], l[2], l[3]
        limbs[2][2 * i], limbs[3][2 * i], limbs[2][2 * i + 1], limbs[3][2 * i + 1] = l[4], l[5], l[6], l[7]
    vals = [sum(x << w25(j) for j, x in enumerate(ls)) for ls in limbs]
    return vals, limbs


def f51x4_decode(v):
    vecs = drill(v)
    if not (isinstance(vecs, list) and len(vecs) == 5):
        raise ValueError("F51x4: expected 5 vectors")
    limbs = [[0] * 5 for _ in range(4)]
    for i, vec in enumerate(vecs):
        l = m256_lanes64(vec)
        for k in range(4):
            limbs[k][i] = l[k]
    vals = [sum(x << (51 * j) for j, x in enumerate(ls)) for ls in limbs]
    return vals, limbs


def excess_bits_2625(limbs):
    """max over limbs of log2(limb / 2^nominal) ('b' of the AVX2 documentation)"""
    b = -1e9
    for i, l in enumerate(limbs):
        nominal = 26 if i % 2 == 0 else 25
        if l > 0:
            b = max(b, math.log2(l) - nominal)
    return b


def cached_to_point(vals):
    """(121666(Y-X), 121666(Y+X), 2*121666 Z, -2*121665 T) -> projective X,Y,Z,T"""
    a, b, c, d = (x % P for x in vals)
    i1 = O.inv(121666)
    ymx, ypx = a * i1 % P, b * i1 % P
    Z = c * O.inv(2 * 121666) % P
    T = d * O.inv((-2 * 121665) % P) % P
    i2 = O.inv(2)
    Y = (ypx + ymx) * i2 % P
    X = (ypx - ymx) * i2 % P
    return X, Y, Z, T


# ---------------------------------------------------------------------- the checks

class Consts:
    def __init__(self, F, R, cfg):
        self.F, self.R, self.cfg = F, R, cfg
        self.found = 0

    def _serial_mod(self):
        mods = set()
        for c in self.F.consts.values():
            p = c["path"]
            if p.startswith("curve25519_dalek::backend::serial::") and "::constants::" in p:
                mods.add(p.split("::constants::")[0] + "::constants")
        return sorted(mods)

    def inst(self, name):
        return "%s:%s" % (self.cfg, name)

    def get(self, path, rule):
        c = self.F.const_by_path.get(path)
        if not c or "value" not in c[0]:
            self.R.anchor_missing(rule, self.inst(path), "constant not found or not evaluated")
            return None
        self.found += 1
        return c[0]

    def loc(self, c):
        return "%s:%s" % (c["span"][0], c["span"][1])

    def check(self, rule, name, cond, c, msg, detail=""):
        if cond:
            self.R.ok(rule, self.inst(name), detail)
        else:
            self.R.viol(rule, self.inst(name), msg, self.loc(c) if c else "")

    # ---- field constants
    def field_constants(self):
        mods = self._serial_mod()
        if not mods:
            self.R.anchor_missing("C12.field", self.inst("backend::serial::*::constants"), "no serial constants module")
        for mod in mods:
            short = mod.split("::")[-2]
            for name, want in FIELD_EXPECT.items():
                c = self.get(mod + "::" + name, "C12.field")
                if not c:
                    continue
                try:
                    val, limbs, radix = fe_decode(c["value"])
                except (ValueError, KeyError, TypeError) as e:
                    self.R.viol("C12.field", self.inst(short + "::" + name), "cannot decode: %s" % e, self.loc(c))
                    continue
                self.check("C12.field", short + "::" + name, val % P == want, c,
                           "%s does not equal its definition (%s): got %d, want %d" % (name, FIELD_DEF[name], val % P, want),
                           "%s = %s (radix 2^%s)" % (name, FIELD_DEF[name], radix))
                self.check("C12.field.limbs", short + "::" + name, fe_limb_ok(limbs, radix) and val < 2**255, c,
                           "%s: limb outside nominal width or value >= 2^255 (limbs %s)" % (name, limbs))
        # associated constants ZERO / ONE / MINUS_ONE of the field element type(s)
        n = 0
        for c in self.F.consts.values():
            if c["kind"].startswith("AssocConst") and c.get("self_ty", "").startswith("curve25519_dalek::backend::serial::") \
                    and "field::FieldElement" in c.get("self_ty", "") and "value" in c:
                nm = c["path"].split("::")[-1]
                want = {"ZERO": 0, "ONE": 1, "MINUS_ONE": P - 1}.get(nm)
                if want is None:
                    continue
                n += 1
                short = c["self_ty"].split("::")[-3]
                val, limbs, radix = fe_decode(c["value"])
                self.check("C12.field", "%s::FieldElement::%s" % (short, nm), val % P == want and fe_limb_ok(limbs, radix), c,
                           "FieldElement::%s = %d, want %d" % (nm, val % P, want))
        self.R.floor("C12.field", self.inst("FieldElement assoc consts"), n, 3)

    # ---- scalar constants
    def scalar_constants(self):
        for mod in self._serial_mod():
            short = mod.split("::")[-2]
            cl = self.get(mod + "::L", "C12.scalar")
            cf = self.get(mod + "::LFACTOR", "C12.scalar")
            cr = self.get(mod + "::R", "C12.scalar")
            crr = self.get(mod + "::RR", "C12.scalar")
            if not (cl and cf and cr and crr):
                continue
            lv, ll, w = scalar_unpacked_decode(cl["value"])
            nl = len(ll)
            self.check("C12.scalar", short + "::L", lv == L and all(0 <= x < 2**w for x in ll), cl,
                       "L is not the group order l (got %d)" % lv, "L = 2^252+27742317777372353535851937790883648493 in %d-bit limbs" % w)
            lf = cf["value"]
            self.check("C12.scalar", short + "::LFACTOR", isinstance(lf, int) and 0 <= lf < 2**w and (L * lf + 1) % 2**w == 0, cf,
                       "L*LFACTOR != -1 mod 2^%d" % w, "l*LFACTOR = -1 mod 2^%d" % w)
            rv, rl, _ = scalar_unpacked_decode(cr["value"])
            mont = pow(2, w * nl, L)
            self.check("C12.scalar", short + "::R", rv == mont and all(0 <= x < 2**w for x in rl), cr,
                       "R != 2^%d mod l" % (w * nl), "R = 2^%d mod l" % (w * nl))
            rrv, rrl, _ = scalar_unpacked_decode(crr["value"])
            self.check("C12.scalar", short + "::RR", rrv == mont * mont % L and all(0 <= x < 2**w for x in rrl), crr,
                       "RR != R^2 mod l", "RR = 2^%d mod l" % (2 * w * nl))
        for nm in ("BASEPOINT_ORDER", "BASEPOINT_ORDER_PRIVATE"):
            p = "curve25519_dalek::constants::" + nm
            if p in self.F.const_by_path:
                c = self.get(p, "C12.scalar")
                v, _ = bytes_le(c["value"])
                self.check("C12.scalar", nm, v == L, c, "%s != l" % nm, "%s = l (little-endian bytes)" % nm)
        if "curve25519_dalek::constants::BASEPOINT_ORDER_PRIVATE" not in self.F.const_by_path:
            self.R.anchor_missing("C12.scalar", self.inst("BASEPOINT_ORDER_PRIVATE"))
        n = 0
        for c in self.F.consts.values():
            st = c.get("self_ty", "")
            if not c["kind"].startswith("AssocConst") or "value" not in c:
                continue
            nm = c["path"].split("::")[-1]
            if st == "curve25519_dalek::scalar::Scalar" and nm in ("ZERO", "ONE"):
                v, _ = bytes_le(c["value"])
                n += 1
                self.check("C12.scalar", "Scalar::%s%s" % (nm, "(ff)" if c.get("trait") else ""), v == (1 if nm == "ONE" else 0), c,
                           "Scalar::%s has value %d" % (nm, v))
            if st.startswith("curve25519_dalek::backend::serial::") and "::scalar::Scalar" in st and nm == "ZERO":
                v, _, _ = scalar_unpacked_decode(c["value"])
                n += 1
                self.check("C12.scalar", "%s::UnpackedScalar::ZERO" % st.split("::")[-3], v == 0, c, "UnpackedScalar::ZERO != 0")
        self.R.floor("C12.scalar", self.inst("Scalar ZERO/ONE"), n, 3)

    # ---- points
    def point_constants(self):
        Bx, By = O.B
        for mod in self._serial_mod():
            short = mod.split("::")[-2]
            c = self.get(mod + "::ED25519_BASEPOINT_POINT", "C12.point")
            if c:
                try:
                    aff, ok_t, lim = edwards_affine(c["value"])
                    self.check("C12.point", short + "::ED25519_BASEPOINT_POINT", aff == O.B and ok_t and lim, c,
                               "basepoint is not (x, 4/5) with x even, or XY != ZT, or limbs unreduced",
                               "B = (x,4/5), x non-negative; XY=ZT; on curve; order l (oracle)")
                except (ValueError, KeyError) as e:
                    self.R.viol("C12.point", self.inst(short + "::ED25519_BASEPOINT_POINT"), "cannot decode: %s" % e, self.loc(c))
            for tn in ("EIGHT_TORSION", "EIGHT_TORSION_INNER_DOC_HIDDEN"):
                c = self.get(mod + "::" + tn, "C12.point")
                if not c:
                    continue
                try:
                    pts = [edwards_affine(e) for e in c["value"]]
                except (ValueError, KeyError) as e:
                    self.R.viol("C12.point", self.inst(short + "::" + tn), "cannot decode: %s" % e, self.loc(c))
                    continue
                affs = [p[0] for p in pts]
                good = len(affs) == 8 and all(O.on_curve(*a) for a in affs) and all(p[1] and p[2] for p in pts)
                good = good and len(set(affs)) == 8 and all(O.ed_mul(8, a) == O.IDENT for a in affs)
                self.check("C12.point", "%s::%s:set" % (short, tn), good, c,
                           "EIGHT_TORSION is not exactly E[8] (8 distinct curve points of order dividing 8, XY=ZT)",
                           "8 distinct points, each on curve, 8*P = identity")
                if good:
                    g = affs[1]
                    seq = all(affs[i] == O.ed_mul(i, g) for i in range(8)) and O.ed_mul(4, g) != O.IDENT
                    self.check("C12.point", "%s::%s:order" % (short, tn), seq, c,
                               "EIGHT_TORSION[i] != i*EIGHT_TORSION[1] or generator has order < 8",
                               "EIGHT_TORSION[i] = [i]T8, T8 of exact order 8")
        c = self.get("curve25519_dalek::constants::ED25519_BASEPOINT_COMPRESSED", "C12.point")
        if c:
            _, b = bytes_le(c["value"])
            self.check("C12.point", "ED25519_BASEPOINT_COMPRESSED", b == O.ed_compress(O.B), c,
                       "compressed basepoint != encoding of B", "= compress(B) = 5866..66")
        c = self.get("curve25519_dalek::constants::X25519_BASEPOINT", "C12.point")
        if c:
            v, _ = bytes_le(c["value"])
            self.check("C12.point", "X25519_BASEPOINT", v == 9 == O.to_montgomery_u(O.B), c, "X25519 basepoint != 9 = u(B)",
                       "u = (1+y)/(1-y) of B = 9")
        c = self.get("curve25519_dalek::constants::RISTRETTO_BASEPOINT_COMPRESSED", "C12.point")
        if c:
            _, b = bytes_le(c["value"])
            self.check("C12.point", "RISTRETTO_BASEPOINT_COMPRESSED", b == O.ristretto_encode(O.B), c,
                       "RISTRETTO_BASEPOINT_COMPRESSED != ristretto255 encoding of B", "= RFC 9496 encode(B) = e2f2ae0a..")
        c = self.get("curve25519_dalek::constants::RISTRETTO_BASEPOINT_POINT", "C12.point")
        if c:
            try:
                aff, ok_t, lim = edwards_affine(drill(c["value"]) if "X" not in c["value"].get("f", {}) else c["value"])
                self.check("C12.point", "RISTRETTO_BASEPOINT_POINT", aff == O.B and ok_t, c, "Ristretto basepoint representative != B")
            except (ValueError, KeyError, AttributeError) as e:
                self.R.viol("C12.point", self.inst("RISTRETTO_BASEPOINT_POINT"), "cannot decode: %s" % e, self.loc(c))
        if self.F.crates.get("x25519_dalek"):
            c = self.get("x25519_dalek::x25519::X25519_BASEPOINT_BYTES", "C12.point")
            if c:
                self.check("C12.point", "x25519::X25519_BASEPOINT_BYTES", c["value"] == [9] + [0] * 31, c, "X25519_BASEPOINT_BYTES != 9")
        if self.F.crates.get("ed25519_dalek"):
            want = {"SECRET_KEY_LENGTH": 32, "PUBLIC_KEY_LENGTH": 32, "KEYPAIR_LENGTH": 64, "SIGNATURE_LENGTH": 64,
                    "EXPANDED_SECRET_KEY_KEY_LENGTH": 32, "EXPANDED_SECRET_KEY_NONCE_LENGTH": 32, "EXPANDED_SECRET_KEY_LENGTH": 64}
            for nm, w in want.items():
                p = "ed25519_dalek::constants::" + nm
                if p in self.F.const_by_path:
                    c = self.get(p, "C12.len")
                    self.check("C12.len", "ed25519::" + nm, c["value"] == w, c, "%s = %s, want %d" % (nm, c["value"], w))

    # ---- serial tables
    def _niels_ok(self, e, pt):
        f = e["f"]
        ypx, l1, r = fe_decode(f["y_plus_x"])
        ymx, l2, _ = fe_decode(f["y_minus_x"])
        xy2d, l3, _ = fe_decode(f["xy2d"])
        x, y = pt
        ok = ypx % P == (y + x) % P and ymx % P == (y - x) % P and xy2d % P == 2 * O.D * x * y % P
        # Niels table entries store y+x as a lazy (unreduced) sum: one extra bit is the documented
        # headroom of AffineNielsPoint operands (inputs of a field multiplication need < 2^54 / b < 1.75)
        lim = all(fe_limb_ok(l, r, 1.0) for l in (l1, l2, l3))
        self.maxb = max(getattr(self, "maxb", -1e9), max(fe_excess(l, r) for l in (l1, l2, l3)))
        return ok, lim

    def serial_tables(self, required):
        for mod in self._serial_mod():
            short = mod.split("::")[-2]
            p = mod + "::ED25519_BASEPOINT_TABLE_INNER_DOC_HIDDEN"
            if p not in self.F.const_by_path:
                if required:
                    self.R.anchor_missing("C12.table", self.inst(p))
                continue
            c = self.get(p, "C12.table")
            outer = drill(c["value"])
            n_ok = 0
            bad = []
            if not (isinstance(outer, list) and len(outer) == 32):
                self.R.viol("C12.table", self.inst(short + "::ED25519_BASEPOINT_TABLE"), "expected 32 sub-tables", self.loc(c))
                continue
            base = (O.B[0], O.B[1], 1)
            for i in range(32):
                inner = drill(outer[i])
                if not (isinstance(inner, list) and len(inner) == 8):
                    bad.append((i, "len"))
                    continue
                acc = base
                for j in range(8):
                    zi = O.inv(acc[2])
                    aff = (acc[0] * zi % P, acc[1] * zi % P)
                    try:
                        ok, lim = self._niels_ok(inner[j], aff)
                    except (ValueError, KeyError) as e:
                        ok, lim = False, False
                    if ok and lim:
                        n_ok += 1
                        self.R.ok("C12.table", self.inst("%s::ED25519_BASEPOINT_TABLE[%d][%d]" % (short, i, j)),
                                  "= (%d)*256^%d*B in affine Niels form" % (j + 1, i))
                    else:
                        self.R.viol("C12.table", self.inst("%s::ED25519_BASEPOINT_TABLE[%d][%d]" % (short, i, j)),
                                    "table entry is not (%d)*256^%d*B in affine Niels form (y+x, y-x, 2dxy)%s" % (
                                        j + 1, i, "" if lim else " or has unreduced limbs"), self.loc(c))
                    acc = O._padd(acc, base)
                for _ in range(8):
                    base = O._padd(base, base)
            self.R.floor("C12.table", self.inst(short + "::ED25519_BASEPOINT_TABLE entries evaluated"), 256 - 8 * len(bad), 256)
            self.R.extra.setdefault("max_lane_excess", {})[self.inst(short + " niels tables")] = round(getattr(self, "maxb", 0), 6)
            # aliases
            for alias in (mod + "::ED25519_BASEPOINT_TABLE", "curve25519_dalek::constants::RISTRETTO_BASEPOINT_TABLE"):
                a = self.get(alias, "C12.table")
                if a:
                    v = a["value"]
                    self.check("C12.table", short + "::alias:" + alias.split("::")[-1],
                               isinstance(v, dict) and v.get("static") == p and v.get("offset") == 0, a,
                               "%s does not point at offset 0 of the verified table static" % alias,
                               "pointer to %s+0" % p.split("::")[-1])
            # odd multiples
            p2 = mod + "::AFFINE_ODD_MULTIPLES_OF_BASEPOINT"
            c2 = self.get(p2, "C12.table")
            if c2:
                arr = drill(c2["value"])
                if not (isinstance(arr, list) and len(arr) == 64):
                    self.R.viol("C12.table", self.inst(short + "::AFFINE_ODD_MULTIPLES_OF_BASEPOINT"), "expected 64 entries", self.loc(c2))
                else:
                    two_b = O._padd((O.B[0], O.B[1], 1), (O.B[0], O.B[1], 1))
                    acc = (O.B[0], O.B[1], 1)
                    for k in range(64):
                        zi = O.inv(acc[2])
                        aff = (acc[0] * zi % P, acc[1] * zi % P)
                        try:
                            ok, lim = self._niels_ok(arr[k], aff)
                        except (ValueError, KeyError):
                            ok, lim = False, False
                        self.check("C12.table", "%s::AFFINE_ODD_MULTIPLES_OF_BASEPOINT[%d]" % (short, k), ok and lim, c2,
                                   "entry is not %d*B in affine Niels form" % (2 * k + 1), "= %d*B" % (2 * k + 1))
                        acc = O._padd(acc, two_b)

    # ---- vector constants
    def vector_constants(self, required_tables):
        F = self.F
        for flavor in ("avx2", "ifma"):
            mod = "curve25519_dalek::backend::vector::%s::constants" % flavor
            if not any(p.startswith(mod + "::") for p in F.const_by_path):
                continue
            dec = fe2625x4_decode if flavor == "avx2" else f51x4_decode

            def excess(limbs):
                if flavor == "avx2":
                    return max(excess_bits_2625(l) for l in limbs)
                return max((math.log2(x) - 51) if x > 0 else -1e9 for l in limbs for x in l)

            c = self.get(mod + "::EXTENDEDPOINT_IDENTITY", "C12.vector")
            if c:
                vals, limbs = dec(c["value"])
                X, Y, Z, T = (v % P for v in vals)
                self.check("C12.vector", flavor + "::EXTENDEDPOINT_IDENTITY", (X, Y, Z, T) == (0, 1, 1, 0), c,
                           "vector ExtendedPoint identity != (0,1,1,0): %s" % ((X, Y, Z, T),), "(X,Y,Z,T) = (0,1,1,0)")
            c = self.get(mod + "::CACHEDPOINT_IDENTITY", "C12.vector")
            if c:
                vals, limbs = dec(c["value"])
                X, Y, Z, T = cached_to_point(vals)
                self.check("C12.vector", flavor + "::CACHEDPOINT_IDENTITY", Z != 0 and (X, Y * O.inv(Z) % P, T) == (0, 1, 0) and excess(limbs) < 1.0, c,
                           "CachedPoint identity does not decode to the identity", "(121666(Y-X),121666(Y+X),2*121666Z,-2*121665T) of identity; excess b=%.4f" % excess(limbs))
            if flavor == "avx2":
                for nm, k in (("P_TIMES_2", 2), ("P_TIMES_16", 16)):
                    lo = self.get(mod + "::" + nm + "_LO", "C12.vector")
                    hi = self.get(mod + "::" + nm + "_HI", "C12.vector")
                    if not (lo and hi):
                        continue
                    # (kp,kp,kp,kp) = [LO, HI, HI, HI, HI] in FieldElement2625x4 layout
                    fake = {"adt": "x", "f": {"0": [lo["value"], hi["value"], hi["value"], hi["value"], hi["value"]]}}
                    vals, limbs = fe2625x4_decode(fake)
                    pl = [(2**26 - 19) if i == 0 else (2**26 - 1 if i % 2 == 0 else 2**25 - 1) for i in range(10)]
                    good = all(v == k * P for v in vals) and all(l == [k * x for x in pl] for l in limbs)
                    self.check("C12.vector", "avx2::%s_{LO,HI}" % nm, good, lo,
                               "%s lanes are not %d*p limb-wise in all four lanes" % (nm, k), "[LO,HI,HI,HI,HI] = (%dp)x4, limb-wise %d*p_i" % (k, k))
            c = F.const_by_path.get(mod + "::ZERO")
            tp = mod + "::BASEPOINT_ODD_LOOKUP_TABLE"
            if tp not in F.const_by_path:
                if required_tables:
                    self.R.anchor_missing("C12.vtable", self.inst(tp))
                continue
            c = self.get(tp, "C12.vtable")
            arr = drill(c["value"])
            if not (isinstance(arr, list) and len(arr) == 64):
                self.R.viol("C12.vtable", self.inst(flavor + "::BASEPOINT_ODD_LOOKUP_TABLE"), "expected 64 entries", self.loc(c))
                continue
            two_b = O._padd((O.B[0], O.B[1], 1), (O.B[0], O.B[1], 1))
            acc = (O.B[0], O.B[1], 1)
            maxb = -1e9
            for k in range(64):
                zi = O.inv(acc[2])
                aff = (acc[0] * zi % P, acc[1] * zi % P)
                try:
                    vals, limbs = dec(arr[k])
                    X, Y, Z, T = cached_to_point(vals)
                    b = excess(limbs)
                    maxb = max(maxb, b)
                    ok = Z != 0 and (X * O.inv(Z) % P, Y * O.inv(Z) % P) == aff and (X * Y - Z * T) % P == 0
                    fresh = b < 0.007 if flavor == "avx2" else b < 0.0
                except (ValueError, KeyError):
                    ok, fresh, b = False, False, 0
                self.check("C12.vtable", "%s::BASEPOINT_ODD_LOOKUP_TABLE[%d]" % (flavor, k), ok, c,
                           "cached table entry is not projectively %d*B with XY=ZT after undoing the (121666,121666,2*121666,-2*121665) scaling" % (2 * k + 1),
                           "= %d*B as CachedPoint" % (2 * k + 1))
                self.check("C12.vtable.bound", "%s::BASEPOINT_ODD_LOOKUP_TABLE[%d]" % (flavor, k), fresh, c,
                           "cached table entry exceeds the fresh-CachedPoint lane bound (b=%.4f)" % b, "lane excess b=%.5f within fresh bound" % b)
                acc = O._padd(acc, two_b)
            self.R.extra.setdefault("max_lane_excess", {})[self.inst(flavor + " table")] = round(maxb, 6)

    # ---- ff constants (C17)
    def ff_constants(self, rule="C17.ff"):
        F = self.F
        vals = {}
        recs = {}
        for c in F.consts.values():
            if c["kind"].startswith("AssocConst") and c.get("self_ty") == "curve25519_dalek::scalar::Scalar" and "ff::PrimeField" in c.get("trait", ""):
                nm = c["path"].split("::")[-1]
                recs[nm] = c
                v = c.get("value")
                if isinstance(v, dict):
                    vals[nm] = bytes_le(v)[0]
                else:
                    vals[nm] = v
        need = ["MODULUS", "NUM_BITS", "CAPACITY", "TWO_INV", "MULTIPLICATIVE_GENERATOR", "S", "ROOT_OF_UNITY", "ROOT_OF_UNITY_INV", "DELTA"]
        for n in need:
            if n not in vals:
                self.R.anchor_missing(rule, self.inst("PrimeField::" + n))
        if any(n not in vals for n in need):
            return
        g, S, rou = vals["MULTIPLICATIVE_GENERATOR"], vals["S"], vals["ROOT_OF_UNITY"]
        t = (L - 1) >> S if isinstance(S, int) and 0 <= S < 64 else 0

        def chk(n, cond, what):
            self.check(rule, "PrimeField::" + n, bool(cond), recs[n], "ff constant %s violates: %s" % (n, what), what)
        ms = vals["MODULUS"]
        chk("MODULUS", isinstance(ms, str) and ms.startswith("0x") and int(ms, 16) == L and ms == ms.lower(), "MODULUS is the big-endian hex of l")
        chk("NUM_BITS", vals["NUM_BITS"] == L.bit_length() == 253, "NUM_BITS = bitlen(l) = 253")
        chk("CAPACITY", vals["CAPACITY"] == vals["NUM_BITS"] - 1, "CAPACITY = NUM_BITS-1")
        chk("TWO_INV", 0 <= vals["TWO_INV"] < L and vals["TWO_INV"] * 2 % L == 1, "2*TWO_INV = 1 mod l")
        chk("S", (L - 1) % (1 << S) == 0 and ((L - 1) >> S) % 2 == 1, "l-1 = 2^S * t with t odd")
        # generator: g is a non-residue whose order is l-1; (l-1) = 2^2 * 3 * ... full factorisation not needed for
        # the relations the ff documentation states: g^((l-1)/2) = -1 (non-residue) and ROOT_OF_UNITY = g^t
        chk("MULTIPLICATIVE_GENERATOR", 0 < g < L and pow(g, (L - 1) // 2, L) == L - 1, "g^((l-1)/2) = -1 (quadratic non-residue)")
        chk("ROOT_OF_UNITY", 0 < rou < L and rou == pow(g, t, L) and pow(rou, 1 << S, L) == 1 and pow(rou, 1 << (S - 1), L) != 1,
            "ROOT_OF_UNITY = g^t is a primitive 2^S-th root of unity")
        chk("ROOT_OF_UNITY_INV", 0 < vals["ROOT_OF_UNITY_INV"] < L and vals["ROOT_OF_UNITY_INV"] * rou % L == 1, "ROOT_OF_UNITY_INV * ROOT_OF_UNITY = 1")
        chk("DELTA", 0 < vals["DELTA"] < L and vals["DELTA"] == pow(g, 1 << S, L), "DELTA = g^(2^S)")
        # Field::ZERO / ONE
        for c in F.consts.values():
            if c["kind"].startswith("AssocConst") and c.get("self_ty") == "curve25519_dalek::scalar::Scalar" and c.get("trait", "").endswith("ff::Field") and "value" in c:
                nm = c["path"].split("::")[-1]
                v = bytes_le(c["value"])[0]
                self.check(rule, "Field::" + nm, v == {"ZERO": 0, "ONE": 1}.get(nm, -1), c, "ff::Field::%s = %d" % (nm, v), "Field::%s" % nm)
