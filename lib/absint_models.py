"""Library models for the abstract interpreter: the finite set of core / subtle / zeroize / alloc / core::arch functions
the analysed code calls.  Each model returns the abstract result (and performs writes through &mut arguments);
NotImplemented means 'no model' (the interpreter then executes the local body or yields TOP and counts it)."""
import re
from absint import I, TOP, join, top_of, INT_TYPES, BITS, show_val, widen
from absint_simd import Simd


class Models(Simd):
    def __init__(self):
        self.table = []
        self.simd_obl = True
        R = self.reg
        self.register_simd()
        R(r"^core::num::<impl (u|i)(8|16|32|64|128|size)>::wrapping_(add|sub|mul|neg|shl|shr)$", self.m_wrapping)
        R(r"^core::num::<impl (u|i)(8|16|32|64|128|size)>::(to_le_bytes|to_be_bytes|to_ne_bytes)$", self.m_to_bytes)
        R(r"^<&'?\w* ?(u|i)(8|16|32|64|128|size) as core::ops::(Add|Sub|Mul|Div|Rem|BitAnd|BitOr|BitXor|Shl|Shr)<&?'?\w* ?(u|i)(8|16|32|64|128|size)>>::\w+$", self.m_ref_binop)
        R(r"^core::num::<impl (u|i)(8|16|32|64|128|size)>::(from_le_bytes|from_be_bytes)$", self.m_from_bytes)
        R(r"^core::num::<impl (u|i)(8|16|32|64|128|size)>::(leading_zeros|trailing_zeros|count_ones)$", lambda *a: I(0, 128))
        R(r"IntoIterator.*>::into_iter$|core::iter::Iterator>::by_ref$", self.m_into_iter)
        R(r"^core::ops::RangeInclusive::<.*>::new$", self.m_range_inclusive_new)
        R(r"Iterator for core::ops::Range<\w+>>::next$|core::ops::Range<\w+> as core::iter::Iterator>::next$", self.m_range_next)
        R(r"core::iter::Rev<.*> as core::iter::Iterator>::next$|DoubleEndedIterator.*>::next_back$", self.m_iter_next)
        R(r"as core::iter::Iterator>::next$|impl core::iter::Iterator for .*>::next$", self.m_iter_next)
        R(r"as core::iter::Iterator>::rev$|Iterator>::rev::<", self.m_rev)
        R(r"as core::iter::Iterator>::zip::<", self.m_zip)
        R(r"as core::iter::Iterator>::enumerate$", self.m_enumerate)
        R(r"as core::iter::Iterator>::skip$", self.m_skip)
        R(r"as core::iter::Iterator>::take$", self.m_take)
        R(r"as core::iter::Iterator>::step_by$", self.m_step_by)
        R(r"as core::iter::Iterator>::filter::<", self.m_filter)
        R(r"as core::iter::Iterator>::map::<", self.m_map)
        R(r"as core::iter::Iterator>::flat_map::<", self.m_flat_map)
        R(r"as core::iter::Iterator>::filter_map::<", lambda ip, fv, st, d, t, n, a, dty: ("it", "filtermap", self.as_it(ip, st, a[0]), a[1]) if self.as_it(ip, st, a[0])[0] == "it" else TOP)
        R(r"core::iter::once::<", lambda ip, fv, st, d, t, n, a, dty: ("it", "once", a[0], 0))
        R(r"as core::iter::Iterator>::chain::<", self.m_chain)
        R(r"as core::iter::Iterator>::cloned::<|as core::iter::Iterator>::copied::<", self.m_cloned)
        R(r"core::slice::<impl \[.*\]>::(iter|iter_mut)$", self.m_slice_iter)
        R(r"core::slice::<impl \[.*\]>::chunks(_exact)?(_mut)?$", self.m_chunks)
        R(r"core::slice::<impl \[.*\]>::len$", self.m_len)
        R(r"core::slice::<impl \[.*\]>::(first|first_mut|last|last_mut)$", self.m_first_last)
        R(r"core::slice::<impl \[.*\]>::is_empty$", lambda ip, fv, st, d, t, n, a, dty: I(0, 1))
        R(r"core::slice::<impl \[.*\]>::copy_from_slice$|clone_from_slice$", self.m_copy_from_slice)
        R(r"^core::slice::<impl \[.*\]>::fill$", self.m_slice_fill)
        R(r"ops::Index(Mut)?<core::ops::Range(Full|To<usize>|From<usize>|Inclusive<usize>|ToInclusive<usize>|<usize>)>.*::index(_mut)?$", self.m_index_range)
        R(r"core::array::<impl core::ops::Index(Mut)?<.*> for \[.*\]>::index(_mut)?$|core::slice::index::<impl core::ops::Index(Mut)?<.*> for \[.*\]>::index(_mut)?$", self.m_index_range)
        R(r"generic_array::GenericArray(::)?<.*>::as_(mut_)?slice$|generic_array::GenericArray<.*> as core::ops::Deref(Mut)?>::deref(_mut)?$", self.m_unsize_ref)
        R(r"core::ops::Deref(Mut)?>::deref(_mut)?$|core::convert::AsRef<.*>>::as_ref$|core::convert::AsMut<.*>>::as_mut$|core::borrow::Borrow(Mut)?<.*>>::borrow(_mut)?$", self.m_identity_ref)
        R(r"core::clone::Clone>::clone$", self.m_clone)
        R(r"core::convert::(Into|From)<.*>>::(into|from)$|impl core::convert::From<.*> for .*>::from$", self.m_convert)
        R(r"core::convert::(TryInto|TryFrom)<.*>>::(try_into|try_from)$|core::array::<impl core::convert::TryFrom<.*>::try_from$|"
          r"<impl core::convert::TryFrom<\w+> for (u|i)\w+>::try_from$", self.m_try_into)
        R(r"core::result::Result(::)?<.*>::(unwrap|expect)$|core::option::Option(::)?<.*>::(unwrap|expect)$", self.m_unwrap)
        R(r"core::ops::Try>::branch$", self.m_try_branch)
        R(r"core::option::Option(::)?<.*>::(map|ok_or|ok_or_else|and_then|is_some|is_none|unwrap_or|unwrap_or_default|copied|cloned|as_ref)(::<.*>)?$|"
          r"core::result::Result(::)?<.*>::(map|map_err|ok|is_ok|is_err|and_then|unwrap_or|unwrap_or_default)(::<.*>)?$", self.m_enum_comb)
        R(r"^core::bool::<impl bool>::(then|then_some)(::<.*>)?$", self.m_bool_then)
        R(r"core::ops::FromResidual<.*>>::from_residual$", self.m_from_residual)
        R(r"core::hint::black_box", lambda ip, fv, st, d, t, n, a, dty: a[0])
        R(r"core::mem::swap", self.m_swap)
        R(r"core::mem::replace", self.m_replace)
        R(r"core::cmp::(min|max)::<|core::cmp::Ord>::(min|max)$", self.m_minmax)
        R(r"core::cmp::impls::<impl core::cmp::Ord for (u|i)\w+>::cmp$", self.m_cmp)
        # subtle
        R(r"<subtle::Choice as core::convert::From<u8>>::from$", self.m_choice_from)
        R(r"subtle::Choice::unwrap_u8$", self.m_choice_unwrap)
        R(r"<bool as core::convert::From<subtle::Choice>>::from$|<subtle::Choice as core::convert::Into<bool>>::into$|impl core::convert::From<subtle::Choice> for bool>::from$", self.m_choice_unwrap)
        R(r"subtle::ConditionallyNegatable>::conditional_negate$", self.m_cond_negate)
        R(r"<subtle::Choice as core::ops::Not>::not$", self.m_choice_not)
        R(r"<subtle::Choice as core::ops::(BitAnd|BitOr|BitXor)>::(bitand|bitor|bitxor)$", self.m_choice_bitop)
        R(r"<(u|i)\d+ as subtle::ConstantTimeEq>::ct_eq$|<\[.*\] as subtle::ConstantTimeEq>::ct_eq$|subtle::ConstantTimeEq>::ct_(eq|ne)$|subtle::ConstantTime(Greater|Less)>::ct_(gt|lt)$", lambda ip, fv, st, d, t, n, a, dty: ("st", (I(0, 1),)))
        R(r"<(u|i)\d+ as subtle::ConditionallySelectable>::conditional_select$", self.m_int_select)
        R(r"<(u|i)\d+ as subtle::ConditionallySelectable>::conditional_assign$", self.m_int_cassign)
        R(r"<(u|i)\d+ as subtle::ConditionallySelectable>::conditional_swap$", self.m_int_cswap)
        R(r"<\[.*\] as subtle::ConditionallySelectable>::conditional_select$", self.m_arr_select)
        R(r"subtle::ConditionallySelectable>::conditional_swap$", self.m_generic_cswap)
        R(r"subtle::CtOption(::)?<.*>::new$", lambda ip, fv, st, d, t, n, a, dty: ("st", (a[0], a[1])))
        R(r"subtle::CtOption", lambda ip, fv, st, d, t, n, a, dty: ip.default_value(dty))
        # zeroize
        R(r"zeroize::Zeroize>::zeroize$|zeroize::__internal::AssertZeroize>::zeroize_or_on_drop$", self.m_zeroize)
        R(r"zeroize::Zeroizing(::)?<.*>::new$", lambda ip, fv, st, d, t, n, a, dty: a[0])
        # alloc
        R(r"alloc::vec::from_elem", self.m_from_elem)
        R(r"alloc::vec::Vec(::)?<.*>::(new|with_capacity)$", lambda ip, fv, st, d, t, n, a, dty: ("vec", None, 0, 0))
        R(r"alloc::vec::Vec(::)?<.*>::push$", self.m_vec_push)
        R(r"alloc::vec::Vec(::)?<.*>::len$", self.m_len)
        R(r"as core::iter::Iterator>::collect::<.*Vec<", self.m_collect_vec)
        R(r"as core::iter::Iterator>::unzip::<.*Vec<.*Vec<", self.m_unzip_vecs)
        R(r"alloc::vec::Vec<.*> as core::ops::Index(Mut)?<usize>>::index(_mut)?$", self.m_index_range)
        R(r"^core::slice::<impl \[.*\]>::split_at(_mut)?$", self.m_split_at)
        R(r"as core::iter::Iterator>::fold::<", self.m_fold)
        R(r"as core::iter::Iterator>::(find|position|rposition|find_map|last|max|min|nth)(::<.*>)?$", self.m_find)
        R(r"as core::iter::Iterator>::size_hint$|as core::iter::ExactSizeIterator>::len$", self.m_size_hint)
        R(r"as core::iter::Iterator>::by_ref$", lambda ip, fv, st, d, t, n, a, dty: a[0] if a and a[0][0] == "ref" else NotImplemented)
        # panics
        R(r"core::panicking::", self.m_panic)
        # misc no-ops
        R(r"core::fmt::|core::sync::atomic::|cpufeatures::", lambda ip, fv, st, d, t, n, a, dty: ip.default_value(dty))

    def reg(self, pat, fn):
        self.table.append((re.compile(pat), fn))

    def call(self, ip, fv, st, depth, t, n, args, dty):
        for rx, fn in self.table:
            if rx.search(n):
                r = fn(ip, fv, st, depth, t, n, args, dty)
                if r is not NotImplemented:
                    return r
        return NotImplemented

    # ------------------------------------------------------------------ integers
    def m_ref_binop(self, ip, fv, st, depth, t, n, a, dty):
        """arithmetic operators on references to integers (`&x % 2`): the operator on the pointees"""
        op = re.search(r"core::ops::(\w+)<", n).group(1)
        x, y = ip.deconst(ip.deref_val(st, a[0])), ip.deconst(ip.deref_val(st, a[1]))
        return ip.binop(op, x, y, dty)

    def m_wrapping(self, ip, fv, st, depth, t, n, a, dty):
        m = re.search(r"<impl ((u|i)(8|16|32|64|128|size))>::wrapping_(\w+)$", n)
        ty, op = m.group(1), m.group(4)
        x = ip.deconst(a[0])
        if op == "neg":
            if x[0] == "i" and x[1] == x[2] == 0:
                return I(0)
            return top_of(ty)
        y = ip.deconst(a[1])
        opn = {"add": "Add", "sub": "Sub", "mul": "Mul", "shl": "Shl", "shr": "Shr"}[op]
        return ip.binop(opn, x, y, ty)

    def m_to_bytes(self, ip, fv, st, depth, t, n, a, dty):
        m = re.search(r"<impl ((u|i)(8|16|32|64|128|size))>::to_(le|be|ne)_bytes$", n)
        nb = BITS[m.group(1)] // 8
        x = ip.deconst(a[0])
        if x[0] == "i" and x[1] >= 0:
            out = []
            for i in range(nb):
                k = i if m.group(4) != "be" else nb - 1 - i
                hi = x[2] >> (8 * k)
                lo = x[1] >> (8 * k)
                if hi < 256 and lo == hi:
                    out.append(I(lo & 0xff))
                elif hi < 256:
                    out.append(I(lo, hi))
                else:
                    out.append(I(0, 255))
            return ("arr", tuple(out))
        return ("arr", (I(0, 255),) * nb)

    def m_from_bytes(self, ip, fv, st, depth, t, n, a, dty):
        m = re.search(r"<impl ((u|i)(8|16|32|64|128|size))>::from_(le|be)_bytes$", n)
        ty = m.group(1)
        x = ip.deconst(a[0])
        if x[0] == "arr" and all(e[0] == "i" for e in x[1]) and ty.startswith("u"):
            es = x[1] if m.group(4) == "le" else tuple(reversed(x[1]))
            lo = sum(e[1] << (8 * i) for i, e in enumerate(es))
            hi = sum(e[2] << (8 * i) for i, e in enumerate(es))
            return I(lo, hi)
        return top_of(ty)

    def m_cmp(self, ip, fv, st, depth, t, n, a, dty):
        x, y = ip.deconst(ip.deref_val(st, a[0])), ip.deconst(ip.deref_val(st, a[1]))
        outs = set()
        if x[0] == "i" and y[0] == "i":
            if x[1] < y[2]:
                outs.add(-1)
            if x[2] > y[1]:
                outs.add(1)
            if not (x[2] < y[1] or y[2] < x[1]):
                outs.add(0)
        else:
            outs = {-1, 0, 1}
        return ("ord", tuple(sorted(outs)))

    def m_minmax(self, ip, fv, st, depth, t, n, a, dty):
        x, y = ip.deconst(a[0]), ip.deconst(a[1])
        if x[0] == "i" and y[0] == "i":
            if re.search(r"min", n):
                return I(min(x[1], y[1]), min(x[2], y[2]))
            return I(max(x[1], y[1]), max(x[2], y[2]))
        return top_of(dty)

    # ------------------------------------------------------------------ iterators
    # ('it','range', cur(lo,hi) , end(lo,hi), rev)    ('it','slice', ref, idx_lo, idx_hi, len_lo, len_hi, rev, mutable)
    # ('it','zip', a, b) ('it','enum', inner, count) ('it','rev', inner) ('it','skip', inner, n) ('it','map', inner, closure) ('it','filter', inner)
    def m_into_iter(self, ip, fv, st, depth, t, n, a, dty):
        v = a[0]
        if v[0] == "st" and len(v[1]) == 2 and "Range" in (t.get("arg_tys") or [""])[0]:
            s, e = v[1]
            if s[0] == "i" and e[0] == "i":
                return ("it", "range", s, e, 0)
            return TOP
        if v[0] == "it":
            return v
        if v[0] in ("ref", "sl", "cref"):
            return self.slice_iter_of(ip, st, v)
        if v[0] == "arr":
            return ("it", "vals", v, I(0), I(len(v[1])))
        if v[0] == "vec":
            return ("it", "vecvals", v)
        return TOP

    def m_range_inclusive_new(self, ip, fv, st, depth, t, n, a, dty):
        # a..=b iterates exactly like a..b+1 (abstract integers are unbounded, so b+1 never wraps here)
        s, e = ip.deconst(a[0]), ip.deconst(a[1])
        if s is not None and e is not None and s[0] == "i" and e[0] == "i":
            return ("it", "range", s, I(e[1] + 1, e[2] + 1), 0)
        return TOP

    def slice_iter_of(self, ip, st, v):
        if v[0] == "sl":
            return ("it", "slice", ("ref", v[1], v[2], v[3]), I(v[4], v[5]), I(v[4] + v[6], v[5] + v[7]), 0)
        if v[0] == "ref":
            tgt = ip.read_path(st.frames[v[1]].get(v[2], TOP), v[3])
            if tgt[0] == "it":
                return v            # `by_ref()` / `(&mut iter).into_iter()`: the reference itself is the iterator
            if tgt[0] == "arr":
                return ("it", "slice", v, I(0), I(len(tgt[1])), 0)
            if tgt[0] == "vec":
                return ("it", "slice", v, I(0), I(tgt[2], tgt[3]), 0)
            if tgt[0] in ("sl", "ref"):
                return self.slice_iter_of(ip, st, tgt)
        if v[0] == "cref":
            if v[1][0] == "arr":
                return ("it", "cvals", v[1], I(0), I(len(v[1][1])), 0)
        return TOP

    def m_slice_iter(self, ip, fv, st, depth, t, n, a, dty):
        return self.slice_iter_of(ip, st, a[0])

    def m_chunks(self, ip, fv, st, depth, t, n, a, dty):
        k = ip.deconst(a[1])
        base = a[0]
        if k[0] == "i" and k[1] == k[2] and k[1] > 0:
            ln = ip.length_of(st, base)
            return ("it", "chunks", base, I(0), ln, k[1])
        return TOP

    def m_range_next(self, ip, fv, st, depth, t, n, a, dty):
        return self.next_of(ip, st, a[0])

    def m_iter_next(self, ip, fv, st, depth, t, n, a, dty):
        r = self.next_of(ip, st, a[0])
        return r

    def next_of(self, ip, st, ref):
        """advance the iterator stored behind `ref`; returns Option enum value"""
        if ref[0] != "ref":
            return TOP
        it = ip.read_path(st.frames[ref[1]].get(ref[2], TOP), ref[3])
        for _ in range(3):
            if it[0] == "ref":          # a `&mut I` used as an iterator: advance the iterator it points to
                ref = it
                it = ip.read_path(st.frames[ref[1]].get(ref[2], TOP), ref[3])
        item, new = self.step(ip, st, it)
        if new is not None:
            cur = st.frames[ref[1]].get(ref[2], TOP)
            st.frames[ref[1]][ref[2]] = ip.write_path(cur, ref[3], new)
        return item

    def step(self, ip, st, it, back=False):
        """(Option value, new iterator value); back=True is next_back() (DoubleEndedIterator)"""
        NONE = ("en", ((0, ()),))
        if it[0] == "st" and len(it[1]) == 2 and it[1][0][0] == "i" and it[1][1][0] == "i":
            it = ("it", "range", it[1][0], it[1][1], 0)
            as_struct = True
        else:
            as_struct = False
        if it[0] != "it":
            return TOP, None
        k = it[1]
        if back and k in ("filter", "filtermap", "stepby", "chunks", "take"):
            return TOP, None            # next_back of these adapters is not modelled
        if k == "range":
            cur, end, rev = it[2], it[3], it[4] ^ (1 if back else 0)
            def pack(c, e):
                return ("st", (c, e)) if as_struct else ("it", "range", c, e, it[4])
            if cur[2] >= end[2] and cur[1] >= end[1] and cur[1] >= end[2]:
                return NONE, pack(cur, end)
            if cur[2] < end[1]:
                # definitely non-empty
                if not rev:
                    item = cur
                    return ("en", ((1, (item,)),)), pack(I(cur[1] + 1, cur[2] + 1), end)
                item = I(end[1] - 1, end[2] - 1)
                return ("en", ((1, (item,)),)), pack(cur, item)
            # maybe empty
            if not rev:
                item = I(cur[1], min(cur[2], end[2] - 1))
                return ("en", ((0, ()), (1, (item,)))), pack(I(cur[1], min(cur[2] + 1, end[2])), end)
            item = I(max(cur[1], end[1] - 1), end[2] - 1)
            return ("en", ((0, ()), (1, (item,)))), pack(cur, I(max(cur[1], end[1] - 1), end[2]))
        if k == "rev":
            inner = it[2]
            if inner[0] == "st":
                inner = self.as_it(ip, st, inner)
            item, new = self.step(ip, st, inner, not back)
            return item, (("it", "rev", new) if new is not None else None)
        if k in ("slice", "cvals", "vals"):
            src, cur, end = it[2], it[3], it[4]
            rev0 = it[5] if len(it) > 5 else 0
            rev = rev0 ^ (1 if back else 0)
            def elem(idx):
                if k == "slice":
                    return ("ref", src[1], src[2], src[3] + (("i", idx[1] if idx[1] == idx[2] else (idx[1], idx[2])),))
                arr = src
                if idx[1] == idx[2] and 0 <= idx[1] < len(arr[1]):
                    v = arr[1][idx[1]]
                else:
                    v = None
                    for j in range(max(idx[1], 0), min(idx[2], len(arr[1]) - 1) + 1):
                        v = join(v, arr[1][j])
                    v = v if v is not None else TOP
                return ("cref", v) if k == "cvals" else v
            def pack(c, e):
                return ("it", k, src, c, e, rev0)
            if cur[1] >= end[2]:
                return NONE, pack(cur, end)
            if cur[2] < end[1]:
                if not rev:
                    return ("en", ((1, (elem(cur),)),)), pack(I(cur[1] + 1, cur[2] + 1), end)
                idx = I(end[1] - 1, end[2] - 1)
                return ("en", ((1, (elem(idx),)),)), pack(cur, idx)
            if not rev:
                idx = I(cur[1], min(cur[2], end[2] - 1))
                return ("en", ((0, ()), (1, (elem(idx),)))), pack(I(cur[1], min(cur[2] + 1, end[2])), end)
            idx = I(max(cur[1], end[1] - 1), end[2] - 1)
            return ("en", ((0, ()), (1, (elem(idx),)))), pack(cur, I(max(cur[1], end[1] - 1), end[2]))
        if k == "once":
            if it[3]:
                return ("en", ((0, ()),)), it
            return ("en", ((1, (it[2],)),)), ("it", "once", it[2], 1)
        if k == "chain" and back:
            # next_back: the second half first, then the first half
            ib, nb = self.step(ip, st, it[3], True)
            nb = nb if nb is not None else it[3]
            if ib[0] == "en" and all(v == 1 for v, _ in ib[1]):
                return ib, ("it", "chain", it[2], nb)
            if ib[0] == "en" and all(v == 0 for v, _ in ib[1]):
                ia, na = self.step(ip, st, it[2], True)
                return ia, ("it", "chain", na if na is not None else it[2], nb)
            return TOP, None
        if k == "chain":
            ia, na = self.step(ip, st, it[2])
            na = na if na is not None else it[2]
            if ia[0] == "en" and all(v == 1 for v, _ in ia[1]):
                return ia, ("it", "chain", na, it[3])
            ib, nb = self.step(ip, st, it[3])
            nb = nb if nb is not None else it[3]
            if ia[0] != "en" or ib[0] != "en":
                return TOP, ("it", "chain", na, nb)
            somes = [fs[0] for v, fs in ia[1] if v == 1] + [fs[0] for v, fs in ib[1] if v == 1]
            outs = []
            if any(v == 0 for v, _ in ib[1]):
                outs.append((0, ()))
            if somes:
                e = somes[0]
                for x in somes[1:]:
                    e = join(e, x)
                outs.append((1, (e,)))
            a_only_none = all(v == 0 for v, _ in ia[1])
            return ("en", tuple(outs)), ("it", "chain", na, nb if a_only_none else join(it[3], nb))
        if k == "vecvals":
            v = it[2]
            elem = v[1] if v[1] is not None else TOP
            if v[3] == 0:
                return ("en", ((0, ()),)), it
            if v[2] >= 1:
                # at least one element left: definitely Some
                return ("en", ((1, (elem,)),)), ("it", "vecvals", ("vec", v[1], v[2] - 1, max(v[3] - 1, 0)))
            # owning iterator over a vector summary: any number of remaining elements
            return ("en", ((0, ()), (1, (elem,)))), ("it", "vecvals", ("vec", v[1], 0, v[3]))
        if k == "zip" and back:
            # next_back of Zip first trims the longer side to the length of the shorter one
            la, lb = self.iter_len(ip, st, it[2]), self.iter_len(ip, st, it[3])
            if la[0] != la[1] or lb[0] != lb[1]:
                return TOP, None
            xa, xb = it[2], it[3]
            for _ in range(max(la[0] - lb[0], 0)):
                _, xa2 = self.step(ip, st, xa, True)
                xa = xa2 if xa2 is not None else xa
            for _ in range(max(lb[0] - la[0], 0)):
                _, xb2 = self.step(ip, st, xb, True)
                xb = xb2 if xb2 is not None else xb
            it = ("it", "zip", xa, xb)
        if k == "zip":
            ia, na = self.step(ip, st, it[2], back)
            ib, nb = self.step(ip, st, it[3], back)
            new = ("it", "zip", na if na is not None else it[2], nb if nb is not None else it[3])
            va = {v for v, _ in ia[1]} if ia[0] == "en" else {0, 1}
            vb = {v for v, _ in ib[1]} if ib[0] == "en" else {0, 1}
            pa = [fs for v, fs in ia[1] if v == 1] if ia[0] == "en" else [(TOP,)]
            pb = [fs for v, fs in ib[1] if v == 1] if ib[0] == "en" else [(TOP,)]
            outs = []
            if 0 in va or 0 in vb:
                outs.append((0, ()))
            if 1 in va and 1 in vb:
                outs.append((1, (("st", (pa[0][0], pb[0][0])),)))
            return ("en", tuple(outs)), new
        if k == "enum" and back:
            ln = self.iter_len(ip, st, it[2])
            if ln[0] != ln[1]:
                return TOP, None
            item, new = self.step(ip, st, it[2], True)
            newit = ("it", "enum", new if new is not None else it[2], it[3])
            if item[0] != "en":
                return TOP, newit
            idx = I(it[3][1] + ln[0] - 1, it[3][2] + ln[0] - 1)
            return ("en", tuple((v, (("st", (idx, fs[0])),)) if v == 1 else (0, ()) for v, fs in item[1])), newit
        if k == "enum":
            item, new = self.step(ip, st, it[2])
            cnt = it[3]
            newit = ("it", "enum", new if new is not None else it[2], I(cnt[1] + 1, cnt[2] + 1))
            if item[0] != "en":
                return TOP, newit
            outs = []
            for v, fs in item[1]:
                outs.append((v, (("st", (cnt, fs[0])),)) if v == 1 else (0, ()))
            return ("en", tuple(outs)), newit
        if k == "skip" and back:
            inner, nsk = it[2], it[3]
            ln = self.iter_len(ip, st, inner)
            if nsk[1] != nsk[2]:
                return TOP, None
            if ln[1] <= nsk[1]:
                return NONE, it
            if ln[0] > nsk[1]:
                item, new = self.step(ip, st, inner, True)
                return item, ("it", "skip", new if new is not None else inner, nsk)
            return TOP, None
        if k == "skip":
            inner, nsk = it[2], it[3]
            if nsk[1] == nsk[2]:
                for _ in range(nsk[1]):
                    _, inner2 = self.step(ip, st, inner)
                    inner = inner2 if inner2 is not None else inner
                item, new = self.step(ip, st, inner)
                return item, ("it", "skip", new if new is not None else inner, I(0))
            return TOP, None
        if k == "stepby":
            inner, stp, first = it[2], it[3], it[4]
            if inner[0] == "it" and inner[1] == "range" and stp[1] == stp[2]:
                item, new = self.step(ip, st, inner)
                # advance step-1 more
                cur, end = new[2], new[3]
                cur = I(cur[1] + stp[1] - 1, cur[2] + stp[1] - 1)
                return item, ("it", "stepby", ("it", "range", cur, end, inner[4]), stp, 0)
            return TOP, None
        if k == "filter" and len(it) > 3 and it[3] is not None:
            # evaluate the predicate on concrete items: a definite answer keeps / skips the item exactly
            inner, clo = it[2], it[3]
            cur = inner
            for _ in range(64):
                item, new = self.step(ip, st, cur)
                nxt = new if new is not None else cur
                if item[0] != "en" or len(item[1]) != 1:
                    break                      # unknown / maybe-end: fall back to the summary below
                if item[1][0][0] == 0:
                    return item, ("it", "filter", nxt, clo)
                x = item[1][0][1][0]
                if not (x[0] == "i" and x[1] == x[2]):
                    break
                slot = ("f", id(clo) & 0xFFFF)
                st.frames[0][slot] = x
                r = ip.deconst(self.apply_closure(ip, st, clo, [("ref", 0, slot, ())]))
                if r[0] == "i" and r[1] == r[2]:
                    if r[1]:
                        return item, ("it", "filter", nxt, clo)
                    cur = nxt
                    continue
                break
        if k == "filter":
            inner = it[2]
            # a filtered iterator yields a subset: any remaining element, or None
            item, new = self.step(ip, st, inner)
            if item[0] == "en":
                somes = [fs for v, fs in item[1] if v == 1]
                if inner[0] == "it" and inner[1] == "range":
                    cur, end = inner[2], inner[3]
                    if cur[1] >= end[2]:
                        return ("en", ((0, ()),)), it
                    anyitem = I(cur[1], end[2] - 1)
                    newinner = ("it", "range", I(cur[1] + 1, end[2]), end, inner[4])
                    return ("en", ((0, ()), (1, (anyitem,)))), ("it", "filter", newinner) + tuple(it[3:])
            return TOP, None
        if k == "filtermap":
            inner, clo = it[2], it[3]
            cur = inner
            for _ in range(4):
                item, new = self.step(ip, st, cur)
                nxt = new if new is not None else cur
                if item[0] != "en":
                    return TOP, ("it", "filtermap", nxt, clo)
                somes = [fs for v, fs in item[1] if v == 1]
                may_end = any(v == 0 for v, _ in item[1])
                if not somes:
                    return ("en", ((0, ()),)), ("it", "filtermap", nxt, clo)
                r = self.apply_closure(ip, st, clo, [somes[0][0]])
                if r[0] != "en":
                    return TOP, ("it", "filtermap", nxt, clo)
                kept = [fs for v, fs in r[1] if v == 1]
                dropped = any(v == 0 for v, _ in r[1])
                if kept:
                    outs = [(1, kept[0])]
                    if may_end or dropped:
                        outs.insert(0, (0, ()))
                    return ("en", tuple(outs)), ("it", "filtermap", nxt, clo)
                # every element is dropped by the closure: keep looking (or the end is reached)
                if nxt == cur:
                    return ("en", ((0, ()),)), ("it", "filtermap", nxt, clo)
                cur = nxt
            return ("en", ((0, ()),)), ("it", "filtermap", cur, clo)
        if k == "map":
            inner, clo = it[2], it[3]
            item, new = self.step(ip, st, inner, back)
            newit = ("it", "map", new if new is not None else inner, clo)
            if item[0] != "en":
                return TOP, newit
            outs = []
            for v, fs in item[1]:
                if v == 0:
                    outs.append((0, ()))
                else:
                    r = self.apply_closure(ip, st, clo, [fs[0]])
                    outs.append((1, (r,)))
            return ("en", tuple(outs)), newit
        if k == "cloned":
            item, new = self.step(ip, st, it[2], back)
            newit = ("it", "cloned", new if new is not None else it[2])
            if item[0] != "en":
                return TOP, newit
            outs = []
            for v, fs in item[1]:
                outs.append((1, (ip.deref_val(st, fs[0]),)) if v == 1 else (0, ()))
            return ("en", tuple(outs)), newit
        if k == "chunks":
            base, cur, ln, sz = it[2], it[3], it[4], it[5]
            if cur[1] >= ln[2]:
                return ("en", ((0, ()),)), it
            if base[0] in ("ref", "sl"):
                b = base if base[0] == "ref" else ("ref", base[1], base[2], base[3])
                off0 = base[4] if base[0] == "sl" else 0
                chunk = ("sl", b[1], b[2], b[3], off0 + cur[1], off0 + cur[2], min(sz, max(ln[1] - cur[2], 0)) if ln[1] - cur[2] < sz else sz, sz)
                newit = ("it", "chunks", base, I(cur[1] + sz, cur[2] + sz), ln, sz)
                if cur[2] < ln[1]:
                    return ("en", ((1, (chunk,)),)), newit
                return ("en", ((0, ()), (1, (chunk,)))), newit
            return TOP, None
        return TOP, None

    def apply_closure(self, ip, st, clo, args):
        c = ip.deref_val(st, clo)
        if c[0] == "clo":
            cf = ip.F.fns.get(c[1])
            if cf and "mir" in cf:
                # closure body: param 1 = env (by ref or value), then args
                byref = cf["mir"]["locals"][1]["ty"].startswith("&")
                env = (clo if clo[0] in ("ref",) else ip.intern_const(st, c)) if byref else c
                return ip.call_local(cf, [env] + list(args), st, len(st.frames) - 1)
        if c[0] == "fnp":
            f = ip.F.fns.get(c[2]) if len(c) > 2 else None
            if f and "mir" in f:
                r = self.fnp_model(ip, st, c, f, list(args))
                if r is not NotImplemented:
                    return r
                return ip.call_local(f, list(args), st, len(st.frames) - 1)
            # a tuple-struct constructor used as a function (`.map(CompressedEdwardsY)`): build the struct
            a = ip.F.adts.get(c[1]) or (ip.F.adt_of(c[1]) if hasattr(ip.F, "adt_of") else None)
            if a and a.get("kind") == "Struct" and len(a["variants"][0]["fields"]) == len(args):
                return ("st", tuple(ip.deconst(x) for x in args))
        return TOP

    def fnp_model(self, ip, st, c, f, args):
        """hook for domain engines: a function item used as a closure (`.map(Scalar::from_bytes_mod_order_wide)`) is entered directly,
        so an engine that gives that function a transfer function intercepts it here"""
        return NotImplemented

    def as_it(self, ip, st, v):
        """normalise iterator-like values: Range structs, references to iterators"""
        if v[0] == "st" and len(v[1]) == 2 and v[1][0][0] == "i" and v[1][1][0] == "i":
            return ("it", "range", v[1][0], v[1][1], 0)
        return v

    def m_rev(self, ip, fv, st, depth, t, n, a, dty):
        a = [self.as_it(ip, st, a[0])] + list(a[1:])
        return ("it", "rev", a[0]) if a[0][0] == "it" else TOP

    def m_zip(self, ip, fv, st, depth, t, n, a, dty):
        a = [self.as_it(ip, st, a[0])] + list(a[1:])
        b = a[1]
        if b[0] != "it":
            b = self.m_into_iter(ip, fv, st, depth, t, n, [b], dty)
        if a[0][0] == "it" and b[0] == "it":
            return ("it", "zip", a[0], b)
        return TOP

    def m_enumerate(self, ip, fv, st, depth, t, n, a, dty):
        a = [self.as_it(ip, st, a[0])] + list(a[1:])
        return ("it", "enum", a[0], I(0)) if a[0][0] == "it" else TOP

    def m_skip(self, ip, fv, st, depth, t, n, a, dty):
        a = [self.as_it(ip, st, a[0])] + list(a[1:])
        k = ip.deconst(a[1])
        return ("it", "skip", a[0], k) if a[0][0] == "it" and k[0] == "i" else TOP

    def m_take(self, ip, fv, st, depth, t, n, a, dty):
        a = [self.as_it(ip, st, a[0])] + list(a[1:])
        it, k = a[0], ip.deconst(a[1])
        if it[0] == "it" and it[1] == "range" and k[0] == "i":
            cur, end = it[2], it[3]
            return ("it", "range", cur, I(min(end[1], cur[1] + k[1]), min(end[2], cur[2] + k[2])), it[4])
        if it[0] == "it" and it[1] in ("slice", "vals", "cvals") and k[0] == "i" and not (len(it) > 5 and it[5]):
            # the first k items of a (forward) slice / array iterator: the same iterator with its end moved
            cur, end = it[3], it[4]
            return (it[0], it[1], it[2], cur, I(min(end[1], cur[1] + k[1]), min(end[2], cur[2] + k[2]))) + tuple(it[5:])
        return TOP

    def m_step_by(self, ip, fv, st, depth, t, n, a, dty):
        a = [self.as_it(ip, st, a[0])] + list(a[1:])
        k = ip.deconst(a[1])
        return ("it", "stepby", a[0], k, 1) if a[0][0] == "it" and k[0] == "i" else TOP

    def m_filter(self, ip, fv, st, depth, t, n, a, dty):
        a = [self.as_it(ip, st, a[0])] + list(a[1:])
        return ("it", "filter", a[0], a[1] if len(a) > 1 else None) if a[0][0] == "it" else TOP

    def m_flat_map(self, ip, fv, st, depth, t, n, a, dty):
        """iter.flat_map(f) for an outer iterator of exactly known short length whose inner iterators have exactly known lengths: the items are
        materialised in order (the closures are pure in every abstract domain used here); anything else stays an unknown iterator"""
        it = self.as_it(ip, st, a[0])
        if it[0] != "it":
            return TOP
        lo, hi = self.iter_len(ip, st, it)
        if lo != hi or hi > 64:
            return TOP
        items, cur = [], it
        for _ in range(hi):
            item, new = self.step(ip, st, cur)
            if item[0] != "en" or len(item[1]) != 1 or item[1][0][0] != 1:
                return TOP
            cur = new if new is not None else cur
            sub = self.as_it(ip, st, ip.deconst(self.apply_closure(ip, st, a[1], [item[1][0][1][0]])))
            if sub[0] != "it":
                return TOP
            slo, shi = self.iter_len(ip, st, sub)
            if slo != shi or shi > 64 or len(items) + shi > 1024:
                return TOP
            for _ in range(shi):
                x, nsub = self.step(ip, st, sub)
                if x[0] != "en" or len(x[1]) != 1 or x[1][0][0] != 1:
                    return TOP
                items.append(x[1][0][1][0])
                sub = nsub if nsub is not None else sub
        return ("it", "vals", ("arr", tuple(items)), I(0), I(len(items)))

    def m_map(self, ip, fv, st, depth, t, n, a, dty):
        a = [self.as_it(ip, st, a[0])] + list(a[1:])
        return ("it", "map", a[0], a[1]) if a[0][0] == "it" else TOP

    def m_chain(self, ip, fv, st, depth, t, n, a, dty):
        x = self.as_it(ip, st, a[0])
        y = self.as_it(ip, st, a[1])
        if y[0] != "it":
            y = self.m_into_iter(ip, fv, st, depth, t, n, [y], dty)
        if x[0] == "it" and y is not NotImplemented and y[0] == "it":
            return ("it", "chain", x, y)
        return TOP

    def m_cloned(self, ip, fv, st, depth, t, n, a, dty):
        a = [self.as_it(ip, st, a[0])] + list(a[1:])
        return ("it", "cloned", a[0]) if a[0][0] == "it" else TOP

    def m_collect_vec(self, ip, fv, st, depth, t, n, a, dty):
        wrapped = re.search(r"collect::<core::(result::Result|option::Option)<", n)
        okv = (0 if "result::Result" in wrapped.group(1) else 1) if wrapped else None
        self._collect_flags = {"fail": False, "all_ok": True}
        if wrapped and getattr(ip, "exact_small_vecs", False) and a[0][0] == "it":
            n_lo, n_hi = self.iter_len(ip, st, a[0])
            if n_lo == n_hi and 0 < n_hi <= getattr(ip, "exact_vec_limit", 8):
                items, cur, exact, may_fail = [], a[0], True, False
                for _ in range(n_hi + 1):
                    item, new = self.step(ip, st, cur)
                    if item[0] != "en" or len(item[1]) != 1:
                        exact = False
                        break
                    if item[1][0][0] == 0:
                        break
                    e = item[1][0][1][0]
                    oks = [fs for v, fs in e[1] if v == okv] if e[0] == "en" else []
                    if len(oks) != 1 or len(oks[0]) != 1:
                        exact = False
                        break
                    if len(e[1]) != 1:
                        may_fail = True      # this item may also be the failure variant: the collection may fail, and when it succeeds the element is the success payload
                    items.append(oks[0][0])
                    cur = new if new is not None else cur
                if exact and len(items) == n_hi:
                    okval = (okv, (("arr", tuple(items)),))
                    if not may_fail:
                        return ("en", (okval,))
                    failval = (1, (TOP,)) if okv == 0 else (0, ())
                    return ("en", tuple(sorted((okval, failval), key=lambda x: x[0])))
        v = self.collect_vec(ip, st, a[0], okv)
        fl = self._collect_flags
        if wrapped:
            # Result<Vec<T>, E> / Option<Vec<T>>: the failure variant is possible iff some item may be a failure; the success variant
            # is possible iff every inspected item may be a success
            outs = []
            if "result::Result" in wrapped.group(1):
                if fl["all_ok"]:
                    outs.append((0, (v,)))
                if fl["fail"]:
                    outs.append((1, (TOP,)))
            else:
                if fl["fail"]:
                    outs.append((0, ()))
                if fl["all_ok"]:
                    outs.append((1, (v,)))
            return ("en", tuple(outs)) if outs else ip.default_value(dty)
        return v

    def m_unzip_vecs(self, ip, fv, st, depth, t, n, a, dty):
        """iter.unzip() into (Vec<A>, Vec<B>): the collected pairs, split component-wise (exact for short exact iterators, a summary otherwise)"""
        it = self.as_it(ip, st, a[0])
        v = self.collect_vec(ip, st, it, None)

        def comp(x, i):
            x = ip.deconst(x)
            return x[1][i] if x is not None and x[0] == "st" and len(x[1]) == 2 else TOP
        if v[0] == "arr":
            return ("st", (("arr", tuple(comp(x, 0) for x in v[1])), ("arr", tuple(comp(x, 1) for x in v[1]))))
        if v[0] == "vec":
            return ("st", (("vec", comp(v[1], 0) if v[1] is not None else None, v[2], v[3]), ("vec", comp(v[1], 1) if v[1] is not None else None, v[2], v[3])))
        return NotImplemented

    def iter_len(self, ip, st, it):
        """(lo, hi) bounds on the number of items the iterator still yields"""
        BIG = 2**32
        if it[0] == "st" and len(it[1]) == 2 and it[1][0][0] == "i" and it[1][1][0] == "i":
            it = ("it", "range", it[1][0], it[1][1], 0)
        if it[0] != "it":
            return (0, BIG)
        k = it[1]
        if k == "range":
            cur, end = it[2], it[3]
            return (max(0, end[1] - cur[2]), max(0, end[2] - cur[1]))
        if k in ("slice", "cvals", "vals"):
            cur, end = it[3], it[4]
            return (max(0, end[1] - cur[2]), max(0, end[2] - cur[1]))
        if k in ("rev", "map", "cloned", "enum"):
            return self.iter_len(ip, st, it[2])
        if k == "zip":
            a, b = self.iter_len(ip, st, it[2]), self.iter_len(ip, st, it[3])
            return (min(a[0], b[0]), min(a[1], b[1]))
        if k == "chain":
            a, b = self.iter_len(ip, st, it[2]), self.iter_len(ip, st, it[3])
            return (a[0] + b[0], min(BIG, a[1] + b[1]))
        if k == "once":
            return (0, 0) if it[3] else (1, 1)
        if k == "vecvals":
            return (it[2][2], it[2][3])
        if k == "filter":
            return (0, self.iter_len(ip, st, it[2])[1])
        if k == "skip" and it[3][0] == "i":
            a = self.iter_len(ip, st, it[2])
            return (max(0, a[0] - it[3][2]), max(0, a[1] - it[3][1]))
        return (0, BIG)

    def m_size_hint(self, ip, fv, st, depth, t, n, a, dty):
        it = a[0]
        for _ in range(3):
            if it[0] in ("ref", "cref"):
                it = ip.deref_val(st, it)
        it = self.as_it(ip, st, it)
        if it[0] != "it":
            return NotImplemented
        lo, hi = self.iter_len(ip, st, it)
        if n.endswith("::len"):
            return I(lo, hi)
        exact = self.exact_size(it)
        # (lower, Option<upper>): for exact-size chains both equal the true length
        return ("st", (I(lo, hi) if exact else I(0, hi), ("en", ((1, (I(lo, hi),)),)) if exact else ("en", ((0, ()), (1, (I(lo, 2**64 - 1),))))))

    def exact_size(self, it):
        if it[0] != "it":
            return False
        k = it[1]
        if k in ("range", "slice", "cvals", "vals", "once", "vecvals"):
            return True
        if k in ("rev", "map", "cloned", "enum"):
            return self.exact_size(it[2])
        if k in ("zip", "chain"):
            return self.exact_size(it[2]) and self.exact_size(it[3])
        return False

    def m_find(self, ip, fv, st, depth, t, n, a, dty):
        """find / last / max / min / nth: None or some element the iterator can yield; position: None or an index below its length"""
        it = a[0]
        for _ in range(3):
            if it[0] in ("ref", "cref"):
                it = ip.deref_val(st, it)
        it = self.as_it(ip, st, it)
        if it[0] != "it":
            return NotImplemented
        op = re.search(r">::(find|position|rposition|find_map|last|max|min|nth)", n).group(1)
        lo, hi = self.iter_len(ip, st, it)
        if op in ("find", "position") and getattr(ip, "exact_small_vecs", False) and lo == hi and hi <= 4096 and len(a) == 2:
            # domain engines: an iterator of exactly known length is searched element by element with the predicate itself, as long as the
            # predicate's verdict is definite; the first element it accepts is the answer (a later element is never looked at)
            cur = it
            for k in range(hi):
                item, new = self.step(ip, st, cur)
                if item[0] != "en" or len(item[1]) != 1 or item[1][0][0] != 1:
                    break
                x = item[1][0][1][0]
                arg = x if op == "position" else (x if x[0] in ("ref", "sl", "cref") and False else ip.intern_const(st, x))
                v = ip.deconst(self.apply_closure(ip, st, a[1], [arg]))
                if v is None or v[0] != "i" or v[1] != v[2]:
                    break
                cur = new if new is not None else cur
                if v[1] == 1:
                    if a[0][0] == "ref":
                        fr = st.frames[a[0][1]]
                        fr[a[0][2]] = ip.write_path(fr.get(a[0][2], TOP), a[0][3], cur)
                    return ("en", ((1, (x if op == "find" else I(k),)),))
            else:
                return ("en", ((0, ()),))
        if op in ("position", "rposition"):
            return ("en", ((0, ()), (1, (I(0, max(hi - 1, 0)),)))) if hi > 0 else ("en", ((0, ()),))
        if op == "find_map":
            return NotImplemented
        # any element: summarise by stepping a widened copy of the iterator
        elem = None
        cur = it
        for k in range(6):
            item, new = self.step(ip, st, cur)
            if item[0] != "en":
                return NotImplemented
            somes = [fs for v, fs in item[1] if v == 1]
            if not somes:
                break
            elem = somes[0][0] if elem is None else join(elem, somes[0][0])
            nxt = new if new is not None else cur
            if k >= 2:
                nxt = widen(cur, join(cur, nxt))
            if nxt == cur:
                break
            cur = nxt
        if cur[0] == "it" and cur[1] in ("range", "rev"):
            # a (reversed) range: every value between the bounds
            r = cur if cur[1] == "range" else cur[2]
            r0 = it if it[1] == "range" else it[2]
            if r0[0] == "it" and r0[1] == "range":
                elem = I(r0[2][1], max(r0[3][2] - 1, r0[2][1]))
        if elem is None:
            return ("en", ((0, ()),))
        return ("en", ((0, ()), (1, (elem,))))

    def m_fold(self, ip, fv, st, depth, t, n, a, dty):
        it = self.as_it(ip, st, a[0])
        if it[0] != "it":
            return NotImplemented
        acc, clo = a[1], a[2]
        if getattr(ip, "exact_small_vecs", False):
            # domain engines: an iterator of exactly known length is folded element by element (no summarisation)
            n_lo, n_hi = self.iter_len(ip, st, it)
            if n_lo == n_hi and n_hi <= 4 * getattr(ip, "exact_vec_limit", 8):
                cur, ok = it, True
                for _ in range(n_hi):
                    item, new = self.step(ip, st, cur)
                    if item[0] != "en" or len(item[1]) != 1 or item[1][0][0] != 1:
                        ok = False
                        break
                    acc = self.apply_closure(ip, st, clo, [acc, item[1][0][1][0]])
                    cur = new if new is not None else cur
                if ok:
                    return acc
                acc = a[1]
        summarised = False
        for k in range(80):
            item, new = self.step(ip, st, it)
            if item[0] != "en":
                return ip.default_value(dty)
            somes = [fs for v, fs in item[1] if v == 1]
            if not somes:
                return acc
            r = self.apply_closure(ip, st, clo, [acc, somes[0][0]])
            may_end = any(v == 0 for v, _ in item[1])
            nacc = join(acc, r) if (may_end or summarised) else r
            nit = new if new is not None else it
            if k >= 3:
                # summarise the iterator (any remaining element); the accumulator is joined until stable, widened late
                nit = widen(it, join(it, nit))
                summarised = True
            if k >= 40:
                nacc = widen(acc, nacc)
            if nit == it and nacc == acc:
                return acc
            it, acc = nit, nacc
        return ip.default_value(dty)

    def collect_vec(self, ip, st, it, wrapped):
        if it[0] != "it":
            if getattr(self, "_collect_flags", None) is not None:
                self._collect_flags["fail"] = True       # unknown iterator: a failure item cannot be excluded
            return ("vec", TOP, 0, 2**32)
        n_lo, n_hi = self.iter_len(ip, st, it)
        if n_lo == n_hi and 0 < n_hi <= getattr(ip, "exact_vec_limit", 8) and wrapped is None and getattr(ip, "exact_small_vecs", False):
            # a short iterator of exactly known length: enumerate it (the Vec is then an array of its elements, no summary)
            items, cur, exact = [], it, True
            for _ in range(n_hi + 1):
                item, new = self.step(ip, st, cur)
                if item[0] != "en" or len(item[1]) != 1:
                    exact = False
                    break
                if item[1][0][0] == 0:
                    break
                items.append(item[1][0][1][0])
                cur = new if new is not None else cur
            if exact and len(items) == n_hi:
                return ("arr", tuple(items))
        r = self.collect_vec1(ip, st, it, wrapped)
        return ("vec", r[1], n_lo if r[2] == 0 and r[3] == 2**32 else r[2], n_hi if r[3] == 2**32 else r[3])

    def collect_vec1(self, ip, st, it, wrapped):
        elem = None
        for _ in range(4):
            item, new = self.step(ip, st, it)
            if item[0] != "en":
                if getattr(self, "_collect_flags", None) is not None:
                    self._collect_flags["fail"] = True
                return ("vec", TOP, 0, 2**32)
            somes = [fs for v, fs in item[1] if v == 1]
            if not somes:
                break
            e = somes[0][0]
            if wrapped is not None:
                # the items are Result<T,E> / Option<T>: keep the success payloads (variant index `wrapped`)
                if e[0] != "en":
                    if getattr(self, "_collect_flags", None) is not None:
                        self._collect_flags["fail"] = True
                    return ("vec", TOP, 0, 2**32)
                oks = [fs[0] for v, fs in e[1] if v == wrapped and len(fs) == 1]
                fl = getattr(self, "_collect_flags", None)
                if fl is not None:
                    if any(v != wrapped for v, _ in e[1]):
                        fl["fail"] = True
                    if not oks and not any(vv == 0 for vv, _ in item[1]):
                        fl["all_ok"] = False      # an item that is definitely present is definitely a failure
                if not oks:
                    it = new if new is not None else it
                    continue
                e = oks[0]
            elem = join(elem, e) if elem is not None else e
            if new is None or new == it:
                break
            it = new
        return ("vec", elem if elem is not None else TOP, 0, 2**32)

    # ------------------------------------------------------------------ slices / arrays
    def m_from_residual(self, ip, fv, st, depth, t, n, a, dty):
        if dty.startswith("core::option::Option<"):
            return ("en", ((0, ()),))
        if dty.startswith("core::result::Result<"):
            parts = [p.strip() for p in __import__("absint").split_top(dty[len("core::result::Result<"):-1])]
            return ("en", ((1, (ip.default_value(parts[1]) if len(parts) == 2 else TOP,)),))
        return NotImplemented

    def m_unsize_ref(self, ip, fv, st, depth, t, n, a, dty):
        if a[0][0] == "ref" and ip.deref_val(st, a[0])[0] == "arr":
            return ip.unsize(st, a[0])
        return NotImplemented

    def m_len(self, ip, fv, st, depth, t, n, a, dty):
        return ip.length_of(st, a[0])

    def m_copy_from_slice(self, ip, fv, st, depth, t, n, a, dty):
        dst, src = a[0], a[1]
        dl, sl = ip.length_of(st, dst), ip.length_of(st, src)
        ok = dl[1] == dl[2] == sl[1] == sl[2]
        ip.record(fv, "call:copy_from_slice", "lengths", t["line"], ok, "dst len %s, src len %s" % (show_val(dl), show_val(sl)))
        sv = self.slice_values(ip, st, src)
        if dst[0] in ("sl", "ref") and sv is not None:
            d = dst if dst[0] == "ref" else ("ref", dst[1], dst[2], dst[3])
            off = dst[4] if dst[0] == "sl" and dst[4] == dst[5] else (0 if dst[0] == "ref" else None)
            cur = st.frames[d[1]].get(d[2], TOP)
            if off is not None:
                for i, v in enumerate(sv):
                    cur = ip.write_path(cur, d[3] + (("i", off + i),), v)
                st.frames[d[1]][d[2]] = cur
                return ("st", ())
        if dst[0] in ("sl", "ref"):
            ip.havoc(st, ("ref", dst[1], dst[2], dst[3]))
        return ("st", ())

    def m_slice_fill(self, ip, fv, st, depth, t, n, a, dty):
        """s.fill(v): every element of the slice becomes v (strong update for arrays and whole vectors, weak join for a sub-slice of unknown position)"""
        dst, val = a[0], ip.deconst(a[1])
        if dst[0] in ("ref", "sl"):
            d = ("ref", dst[1], dst[2], dst[3])
            cur = st.frames[d[1]].get(d[2], TOP)
            tgt = ip.read_path(cur, d[3])
            if dst[0] == "ref" and tgt[0] == "arr":
                new = ("arr", (val,) * len(tgt[1]))
            elif dst[0] == "ref" and tgt[0] == "vec":
                new = ("vec", val, tgt[2], tgt[3])
            elif dst[0] == "sl" and tgt[0] == "arr" and dst[4] == dst[5] and dst[6] == dst[7]:
                items = list(tgt[1])
                for i in range(dst[4], min(dst[4] + dst[6], len(items))):
                    items[i] = val
                new = ("arr", tuple(items))
            elif tgt[0] == "arr":
                new = ("arr", tuple(join(x, val) for x in tgt[1]))
            elif tgt[0] == "vec":
                new = ("vec", join(tgt[1], val) if tgt[1] is not None else val, tgt[2], tgt[3])
            else:
                ip.havoc(st, d)
                return ("st", ())
            st.frames[d[1]][d[2]] = ip.write_path(cur, d[3], new)
        return ("st", ())

    def slice_values(self, ip, st, v):
        """list of element values of a slice/array reference with constant bounds, else None"""
        if v[0] == "cref" and v[1][0] == "arr":
            return list(v[1][1])
        if v[0] == "ref":
            tgt = ip.read_path(st.frames[v[1]].get(v[2], TOP), v[3])
            if tgt[0] == "arr":
                return list(tgt[1])
            if tgt[0] in ("sl", "ref", "cref"):
                return self.slice_values(ip, st, tgt)
        if v[0] == "sl" and v[4] == v[5] and v[6] == v[7]:
            tgt = ip.read_path(st.frames[v[1]].get(v[2], TOP), v[3])
            if tgt[0] == "arr":
                return list(tgt[1][v[4]:v[4] + v[6]])
        if v[0] == "arr":
            return list(v[1])
        return None

    def m_first_last(self, ip, fv, st, depth, t, n, a, dty):
        """Option<&T>: None iff the slice is empty, else a reference to its first / last element"""
        base = a[0]
        ln = ip.length_of(st, base)
        if ln[0] != "i" or base[0] not in ("ref", "sl"):
            return NotImplemented
        last = re.search(r"::last(_mut)?$", n) is not None
        outs = []
        if ln[1] == 0:
            outs.append((0, ()))
        if ln[2] >= 1:
            if base[0] == "ref":
                off_lo, off_hi = 0, 0
            else:
                off_lo, off_hi = base[4], base[5]
            if last:
                off_lo, off_hi = off_lo + max(ln[1], 1) - 1, off_hi + ln[2] - 1
            idx = ("i", off_lo) if off_lo == off_hi else ("i", (off_lo, off_hi))
            outs.append((1, (("ref", base[1], base[2], base[3] + (idx,)),)))
        return ("en", tuple(outs))

    def m_index_range(self, ip, fv, st, depth, t, n, a, dty):
        base, rng = a[0], ip.deconst(a[1])
        ln = ip.length_of(st, base)
        lo = hi = None
        if "RangeFull" in n:
            if base[0] == "ref":
                tgt = ip.read_path(st.frames[base[1]].get(base[2], TOP), base[3])
                if tgt[0] in ("vec", "arr"):
                    return ip.unsize(st, base)
                if tgt[0] == "sl":
                    return tgt
            if base[0] == "sl":
                return base
            lo, hi = I(0), ln
        elif "RangeTo<" in n or "RangeToInclusive" in n:
            lo, hi = I(0), rng[1][0] if rng[0] == "st" else None
        elif "RangeFrom" in n:
            lo, hi = (rng[1][0] if rng[0] == "st" else None), ln
        elif rng[0] == "st" and len(rng[1]) == 2:
            lo, hi = rng[1]
        elif rng[0] == "i":
            # plain usize index through the Index trait
            ok = rng[2] < ln[1]
            if not ok and t.get("args") and len(t["args"]) == 2 and t["args"][0][0] in ("c", "m"):
                import relbounds
                ok = relbounds.proves(ip.F, fv.f, t["args"][1], t["args"][0][1])      # the `for i in 0..n` idiom over a container of length n
            ip.record(fv, "call:index", ip.assert_detail_call(fv, t), t["line"], ok, "index %s, len %s" % (show_val(rng), show_val(ln)))
            if base[0] == "ref":
                return ("ref", base[1], base[2], base[3] + (("i", rng[1] if rng[1] == rng[2] else (rng[1], rng[2])),))
            if base[0] == "sl":
                return ("ref", base[1], base[2], base[3] + (("i", (base[4] + rng[1], base[5] + rng[2])) if not (base[4] == base[5] and rng[1] == rng[2]) else ("i", base[4] + rng[1]),))
            return TOP
        if lo is None or hi is None or lo[0] != "i" or hi[0] != "i":
            return TOP
        ok = lo[2] <= hi[1] and hi[2] <= ln[1]
        ip.record(fv, "call:index_range", ip.assert_detail_call(fv, t), t["line"], ok, "range %s..%s, len %s" % (show_val(lo), show_val(hi), show_val(ln)))
        if base[0] == "ref":
            tgt = ip.read_path(st.frames[base[1]].get(base[2], TOP), base[3])
            if tgt[0] in ("sl",):
                base = tgt
            elif tgt[0] == "cref":
                return TOP
        if base[0] == "ref":
            return ("sl", base[1], base[2], base[3], lo[1], lo[2], max(hi[1] - lo[2], 0), max(hi[2] - lo[1], 0))
        if base[0] == "sl":
            return ("sl", base[1], base[2], base[3], base[4] + lo[1], base[5] + lo[2], max(hi[1] - lo[2], 0), max(hi[2] - lo[1], 0))
        if base[0] == "cref" and base[1][0] == "arr" and lo[1] == lo[2] and hi[1] == hi[2]:
            return ("cref", ("arr", base[1][1][lo[1]:hi[1]]))
        return TOP

    def m_split_at(self, ip, fv, st, depth, t, n, a, dty):
        """s.split_at(mid) = (&s[..mid], &s[mid..]); panics when mid > len - the two range-index obligations say exactly that"""
        base, mid = a[0], ip.deconst(a[1])
        if mid is None or mid[0] != "i":
            return TOP
        ln = ip.length_of(st, base)
        nm = "ops::Index<core::ops::Range<usize>>::index"
        left = self.m_index_range(ip, fv, st, depth, t, nm, [base, ("st", (I(0), mid))], dty)
        right = self.m_index_range(ip, fv, st, depth, t, nm, [base, ("st", (mid, ln))], dty)
        return ("st", (left, right))

    def m_identity_ref(self, ip, fv, st, depth, t, n, a, dty):
        v = a[0]
        if v[0] == "ref":
            tgt = ip.read_path(st.frames[v[1]].get(v[2], TOP), v[3])
            if tgt[0] in ("ref", "sl", "cref") and (not re.search(r"Borrow", n) or re.match(r"^&('\w+ )?(mut )?[^&]", dty)):
                return tgt
            if tgt[0] == "vec" or (tgt[0] == "arr" and re.search(r"\[", dty) and "; " not in dty):
                return ip.unsize(st, v)
        return v

    def m_clone(self, ip, fv, st, depth, t, n, a, dty):
        return ip.deref_val(st, a[0])

    def m_convert(self, ip, fv, st, depth, t, n, a, dty):
        v = ip.deconst(a[0])
        r = INT_TYPES.get(dty)
        if v[0] == "i" and r:
            if r[0] <= v[1] and v[2] <= r[1]:
                return v
            return I(r[0], r[1])
        if v[0] == "i" and dty == "subtle::Choice":
            return self.m_choice_from(ip, fv, st, depth, t, n, a, dty)
        # identity conversions (T -> T, [u8;N] -> [u8;N])
        if (t.get("arg_tys") or [""])[0] == dty:
            return a[0]
        # `x.into()` through the blanket impl: the local `impl From<Src> for Dst`
        if n.endswith("::into"):
            from absint import norm_ty
            src, dst = norm_ty((t.get("arg_tys") or [""])[0]), norm_ty(dty)
            cache = ip.__dict__.setdefault("_from_cache", {})
            if (src, dst) not in cache:
                hit = None
                for g in ip.F.fns.values():
                    if "mir" in g and g.get("name") == "from" and norm_ty(g.get("self_ty") or "") == dst and (g.get("trait") or "").startswith("core::convert::From<") \
                            and norm_ty((g.get("trait") or "")[len("core::convert::From<"):-1]) == src:
                        hit = g
                        break
                cache[(src, dst)] = hit
            g = cache[(src, dst)]
            if g is not None:
                return ip.call_local(g, list(a), st, depth)
        return NotImplemented

    def m_try_into(self, ip, fv, st, depth, t, n, a, dty):
        v = a[0]
        # &[T] -> [T; N] / &[T; N]
        m = re.search(r"Result<(&?)\[(.*); (\d+)\]", dty)
        if m:
            N = int(m.group(3))
            ln = ip.length_of(st, v)
            vals = self.slice_values(ip, st, v)
            okv = None
            if vals is not None and len(vals) == N:
                okv = ("arr", tuple(ip.deconst(x) for x in vals))
                if m.group(1) == "&":
                    okv = ("cref", okv)
            else:
                okv = ip.default_value("[%s; %d]" % (m.group(2), N))
                if m.group(1) == "&":
                    okv = ("cref", okv)
            outs = []
            if ln[1] <= N <= ln[2]:
                outs.append((0, (okv,)))
            if not (ln[1] == ln[2] == N):
                outs.append((1, (TOP,)))
            return ("en", tuple(outs))
        # integer -> integer: Ok(value) when it fits the target type, Err when it cannot, both when it may
        mi = re.search(r"Result<((?:u|i)(?:8|16|32|64|128|size)), ", dty)
        x = ip.deconst(v) if v[0] != "ref" else ip.deconst(ip.deref_val(st, v))
        if mi and x[0] == "i":
            lo, hi = INT_TYPES[mi.group(1)]
            outs = []
            if x[2] >= lo and x[1] <= hi:
                outs.append((0, (I(max(x[1], lo), min(x[2], hi)),)))
            if x[1] < lo or x[2] > hi:
                outs.append((1, (TOP,)))
            return ("en", tuple(outs))
        # any other conversion: a local impl is interpreted, an external one gets the most general value of its type (do_call)
        return NotImplemented

    def m_bool_then(self, ip, fv, st, depth, t, n, a, dty):
        """b.then(f) = if b { Some(f()) } else { None }; then_some(v) likewise with an eager value"""
        b = ip.deconst(a[0])
        lazy = not re.search(r"then_some", n)
        if b is None or b[0] != "i":
            b = I(0, 1)
        outs = []
        if b[1] <= 0:
            outs.append((0, ()))
        if b[2] >= 1:
            v = self.apply_closure(ip, st, a[1], []) if lazy else a[1]
            outs.append((1, (v,)))
        return ("en", tuple(outs))

    def m_enum_comb(self, ip, fv, st, depth, t, n, a, dty):
        is_res = "result::Result" in n
        mm = re.search(r">::(map|map_err|ok_or|ok_or_else|and_then|is_some|is_none|is_ok|is_err|ok|unwrap_or|unwrap_or_default|copied|cloned|as_ref)(::<.*>)?$", n)
        op = mm.group(1)
        good = 0 if is_res else 1
        v = a[0]
        if v[0] == "ref" and op == "as_ref":
            v = ip.deref_val(st, v)
            if v[0] != "en":
                return NotImplemented
            base = a[0]
            return ("en", tuple((var, (("ref", base[1], base[2], base[3] + (("v", var), ("f", 0))),) if fs else ()) for var, fs in v[1]))
        if v[0] == "cref":
            v = v[1]
        if v[0] != "en":
            aty = (t.get("arg_tys") or [""])[0]
            v = ip.default_value(aty)
            if v[0] != "en":
                if __import__("os").environ.get("ABSINT_DEBUG"):
                    print("m_enum_comb: not an enum", a[0][:2], aty)
                return NotImplemented
        outs = []

        def add(var, fs):
            for i, (v2, f2) in enumerate(outs):
                if v2 == var:
                    outs[i] = (var, tuple(join(x, y) for x, y in zip(f2, fs)))
                    return
            outs.append((var, fs))
        for var, fs in v[1]:
            isgood = var == good
            if op in ("is_some", "is_ok"):
                add("b", (I(1 if isgood else 0),))
            elif op in ("is_none", "is_err"):
                add("b", (I(0 if isgood else 1),))
            elif op == "map" and isgood:
                add(var, (self.apply_closure(ip, st, a[1], [fs[0]]),))
            elif op == "map_err" and not isgood:
                add(var, (self.apply_closure(ip, st, a[1], [fs[0]]),))
            elif op in ("map", "map_err"):
                add(var, fs)
            elif op == "ok_or":
                add(0, (fs[0],)) if isgood else add(1, (a[1],))
            elif op == "ok_or_else":
                add(0, (fs[0],)) if isgood else add(1, (self.apply_closure(ip, st, a[1], []),))
            elif op == "ok":
                add(1, (fs[0],)) if isgood else add(0, ())
            elif op == "and_then":
                if isgood:
                    r = self.apply_closure(ip, st, a[1], [fs[0]])
                    if r[0] != "en":
                        return ip.default_value(dty)
                    for v3, f3 in r[1]:
                        add(v3, f3)
                else:
                    add(var, fs)
            elif op in ("unwrap_or", "unwrap_or_default"):
                add("u", (fs[0] if isgood else (a[1] if op == "unwrap_or" else ip.default_value(dty)),))
            elif op in ("copied", "cloned"):
                add(var, (ip.deref_val(st, fs[0]),) if isgood else fs)
            else:
                return NotImplemented
        if outs and outs[0][0] in ("b", "u"):
            return outs[0][1][0]
        return ("en", tuple(sorted(outs, key=lambda x: x[0])))

    def m_unwrap(self, ip, fv, st, depth, t, n, a, dty):
        v = a[0]
        is_res = "Result" in n
        good = 0 if is_res else 1
        if v[0] == "en":
            vs = {var for var, _ in v[1]}
            ok = vs == {good}
            ip.record(fv, "call:" + ("expect" if "expect" in n else "unwrap"), ip.assert_detail_call(fv, t), t["line"], ok, "possible variants %s" % sorted(vs))
            c = [fs for var, fs in v[1] if var == good]
            if c and c[0]:
                return c[0][0]
            return ip.default_value(dty)
        ip.record(fv, "call:" + ("expect" if "expect" in n else "unwrap"), ip.assert_detail_call(fv, t), t["line"], False, "value unknown")
        return ip.default_value(dty)

    def m_try_branch(self, ip, fv, st, depth, t, n, a, dty):
        v = a[0]
        if v[0] == "en":
            outs = []
            for var, fs in v[1]:
                is_res = "Result" in (t.get("arg_tys") or [""])[0]
                good = 0 if is_res else 1
                if var == good:
                    outs.append((0, fs))
                else:
                    outs.append((1, (("en", ((var, fs),)),)))
            return ("en", tuple(outs))
        return TOP

    def m_swap(self, ip, fv, st, depth, t, n, a, dty):
        x, y = a[0], a[1]
        if x[0] == "ref" and y[0] == "ref":
            vx, vy = ip.deref_val(st, x), ip.deref_val(st, y)
            st.frames[x[1]][x[2]] = ip.write_path(st.frames[x[1]].get(x[2], TOP), x[3], vy)
            st.frames[y[1]][y[2]] = ip.write_path(st.frames[y[1]].get(y[2], TOP), y[3], vx)
        return ("st", ())

    def m_replace(self, ip, fv, st, depth, t, n, a, dty):
        x = a[0]
        if x[0] == "ref":
            old = ip.deref_val(st, x)
            st.frames[x[1]][x[2]] = ip.write_path(st.frames[x[1]].get(x[2], TOP), x[3], a[1])
            return old
        return TOP

    # ------------------------------------------------------------------ subtle
    def m_choice_from(self, ip, fv, st, depth, t, n, a, dty):
        v = ip.deconst(a[0])
        ok = v[0] == "i" and v[1] >= 0 and v[2] <= 1
        ip.record(fv, "call:Choice::from", ip.assert_detail_call(fv, t), t["line"], ok, "input %s not in {0,1}" % show_val(v))
        return ("st", (v if ok else I(0, 1),))

    def m_choice_unwrap(self, ip, fv, st, depth, t, n, a, dty):
        v = ip.deref_val(st, a[0])
        if v[0] == "st" and v[1] and v[1][0][0] == "i":
            return v[1][0]
        return I(0, 1)

    def m_choice_not(self, ip, fv, st, depth, t, n, a, dty):
        v = ip.deref_val(st, a[0])
        if v[0] == "st" and v[1] and v[1][0][0] == "i":
            x = v[1][0]
            return ("st", (I(1 - x[2], 1 - x[1]),))
        return ("st", (I(0, 1),))

    def m_choice_bitop(self, ip, fv, st, depth, t, n, a, dty):
        x, y = self.choice_val(ip, st, a[0]), self.choice_val(ip, st, a[1])
        x, y = I(max(x[1], 0), min(x[2], 1)), I(max(y[1], 0), min(y[2], 1))
        if n.endswith("bitand"):
            return ("st", (I(x[1] & y[1], x[2] & y[2]),))
        if n.endswith("bitor"):
            return ("st", (I(x[1] | y[1], x[2] | y[2]),))
        if x[1] == x[2] and y[1] == y[2]:
            return ("st", (I(x[1] ^ y[1]),))
        return ("st", (I(0, 1),))

    def choice_val(self, ip, st, c):
        c = ip.deref_val(st, c)
        if c[0] == "st" and c[1] and c[1][0][0] == "i":
            return c[1][0]
        return I(0, 1)

    def m_int_select(self, ip, fv, st, depth, t, n, a, dty):
        x, y = ip.deconst(ip.deref_val(st, a[0])), ip.deconst(ip.deref_val(st, a[1]))
        c = self.choice_val(ip, st, a[2])
        if c[1] == c[2] == 0:
            return x
        if c[1] == c[2] == 1:
            return y
        return join(x, y)

    def m_int_cassign(self, ip, fv, st, depth, t, n, a, dty):
        d = a[0]
        if d[0] == "ref":
            x = ip.deref_val(st, d)
            y = ip.deconst(ip.deref_val(st, a[1]))
            c = self.choice_val(ip, st, a[2])
            new = x if c[1] == c[2] == 0 else (y if c[1] == c[2] == 1 else join(x, y))
            st.frames[d[1]][d[2]] = ip.write_path(st.frames[d[1]].get(d[2], TOP), d[3], new)
        return ("st", ())

    def m_int_cswap(self, ip, fv, st, depth, t, n, a, dty):
        return self.m_generic_cswap(ip, fv, st, depth, t, n, a, dty)

    def m_generic_cswap(self, ip, fv, st, depth, t, n, a, dty):
        x, y = a[0], a[1]
        if x[0] == "ref" and y[0] == "ref":
            vx, vy = ip.deref_val(st, x), ip.deref_val(st, y)
            j = join(vx, vy)
            st.frames[x[1]][x[2]] = ip.write_path(st.frames[x[1]].get(x[2], TOP), x[3], j)
            st.frames[y[1]][y[2]] = ip.write_path(st.frames[y[1]].get(y[2], TOP), y[3], j)
            return ("st", ())
        return NotImplemented

    def m_cond_negate(self, ip, fv, st, depth, t, n, a, dty):
        """default method of subtle: *self = select(self, -&*self, choice); uses the local `Neg for &T` impl"""
        d = a[0]
        if d[0] != "ref":
            return NotImplemented
        env = dict(st.frames[depth].get("__ty", ()))
        from absint import subst_ty
        gargs = [subst_ty(x, env) if isinstance(x, str) else x for x in (t.get("gargs") or [])]
        self_ty = gargs[0] if gargs else None
        g = ip.find_impl("core::ops::Neg", "neg", "&" + self_ty) if self_ty else None
        if g is None and self_ty:
            g = ip.find_impl("core::ops::Neg", "neg", self_ty)
        cur = ip.deref_val(st, d)
        c = self.choice_val(ip, st, a[1])
        if g is None:
            ip.unmodelled["conditional_negate<%s>" % self_ty] = ip.unmodelled.get("conditional_negate<%s>" % self_ty, 0) + 1
            ip.havoc(st, d)
            return ("st", ())
        neg = ip.call_local(g, [d], st, depth)
        new = cur if c[1] == c[2] == 0 else (neg if c[1] == c[2] == 1 else join(cur, neg))
        st.frames[d[1]][d[2]] = ip.write_path(st.frames[d[1]].get(d[2], TOP), d[3], new)
        return ("st", ())

    def m_arr_select(self, ip, fv, st, depth, t, n, a, dty):
        x, y = ip.deconst(ip.deref_val(st, a[0])), ip.deconst(ip.deref_val(st, a[1]))
        return join(x, y)

    # ------------------------------------------------------------------ zeroize / alloc / panics
    def m_zeroize(self, ip, fv, st, depth, t, n, a, dty):
        d = a[0]
        if d[0] == "ref":
            old = ip.deref_val(st, d)
            st.frames[d[1]][d[2]] = ip.write_path(st.frames[d[1]].get(d[2], TOP), d[3], zero_like(old))
        return ("st", ())

    def m_from_elem(self, ip, fv, st, depth, t, n, a, dty):
        ln = ip.deconst(a[1])
        if getattr(ip, "exact_small_vecs", False) and ln[0] == "i" and ln[1] == ln[2] and 0 < ln[1] <= getattr(ip, "exact_vec_limit", 8):
            return ("arr", (ip.deconst(a[0]),) * ln[1])
        return ("vec", a[0], ln[1] if ln[0] == "i" else 0, ln[2] if ln[0] == "i" else 2**32)

    def m_vec_push(self, ip, fv, st, depth, t, n, a, dty):
        d = a[0]
        if d[0] == "ref":
            v = ip.deref_val(st, d)
            if getattr(ip, "exact_small_vecs", False) and (v == ("vec", None, 0, 0) or v[0] == "arr"):
                # domain engines keep short vectors exact (element-wise), see collect_vec
                items = () if v[0] == "vec" else v[1]
                if len(items) < getattr(ip, "exact_vec_limit", 8):
                    new = ("arr", items + (a[1],))
                else:
                    e = a[1]
                    for x in items:
                        e = join(e, x)
                    new = ("vec", e, len(items) + 1, len(items) + 1)
                st.frames[d[1]][d[2]] = ip.write_path(st.frames[d[1]].get(d[2], TOP), d[3], new)
                return ("st", ())
            if v[0] == "vec":
                new = ("vec", join(v[1], a[1]) if v[1] is not None else a[1], min(v[2] + 1, 2**32), min(v[3] + 1, 2**32))       # 2^32 stands for "unbounded" in every summary
                st.frames[d[1]][d[2]] = ip.write_path(st.frames[d[1]].get(d[2], TOP), d[3], new)
        return ("st", ())

    def m_panic(self, ip, fv, st, depth, t, n, a, dty):
        ip.record(fv, "call:panic", ip.assert_detail_call(fv, t), t["line"], False, "explicit panic reachable")
        return TOP


def zero_like(v):
    if v is None or v[0] == "top":
        return TOP
    if v[0] == "i":
        return I(0)
    if v[0] in ("arr", "st"):
        return (v[0], tuple(zero_like(x) for x in v[1]))
    if v[0] == "vec":
        return ("vec", zero_like(v[1]) if v[1] is not None else None, v[2], v[3])
    return v
