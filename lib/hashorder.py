"""ORDER rule support: hash 'sessions' (new .. update* .. finish) along CFG paths, with normalised data origins."""
import re
from mirlib import cname, expr_of, view
import ex

NEW = re.compile(r"Digest>::new$|core::default::Default>::default$|Digest>::new_with_prefix")
UPD = re.compile(r"Digest>::(update|chain_update)(::<.*)?$")
FIN = re.compile(r"Scalar::from_hash(::<.*)?$|Digest>::finalize$|Scalar::hash_from_bytes|RistrettoPoint::from_hash")

TRANSPARENT = re.compile(r"::as_bytes$|::as_ref$|::as_slice$|Deref>::deref$|Index<core::ops::RangeFull>.*::index$|::to_bytes$|Borrow<.*>>::borrow$")


def origin(fv, e, depth=8):
    """Normalised origin of a data expression (see module doc)."""
    e = ex.strip(e)
    if not isinstance(e, tuple) or depth <= 0:
        return ("?",)
    b = ex.const_bytes(e)
    if b is not None:
        return ("bytes", b)
    k = e[0]
    if k == "arg":
        return ("arg", e[1], e[2].replace("*", ""))
    if k == "local":
        return ("local", e[1], e[2].replace("*", ""))
    if k == "const":
        if isinstance(e[1], int):
            return ("int", e[1])
        return ("const", str(e[3] or e[1])[:60])
    if k == "agg" and e[1][0] == "array" and len(e[2]) == 1:
        x = ex.strip(e[2][0])
        if x[0] == "cast" or True:
            inner = origin(fv, x, depth - 1)
            return ("array1", inner)
    if k == "cast":
        return origin(fv, e[1], depth - 1)
    if k == "call":
        n = e[1]
        if TRANSPARENT.search(n) and e[2]:
            return origin(fv, e[2][0], depth - 1)
        if re.search(r"\]>::len$", n):
            return ("len", origin(fv, e[2][0], depth - 1))
        short = re.sub(r"<[^<>]*>", "", re.sub(r"<[^<>]*>", "", n)).split("::")[-1]
        return ("call", short, tuple(origin(fv, a, depth - 1) for a in e[2]))
    if k == "proj":
        return ("proj", origin(fv, e[1], depth - 1), e[2].replace("*", ""))
    if k == "idx":
        return ("idx", origin(fv, e[1], depth - 1), origin(fv, e[2], depth - 1))
    return (k,)


def sessions(fv, path):
    """[(data origins..., finish call term)] for each new..finish session on the path, in order.
    chain_update(x) on a by-value hasher and update(&mut h, x) are both 'upd'."""
    out = []
    cur = None
    for b in path:
        t = fv.blocks[b].get("t", {})
        if t.get("k") != "call":
            continue
        n = cname(t)
        full = t.get("callee_full") or ""
        if NEW.search(n) or NEW.search(full):
            # only hashers: the destination type is a generic Digest param or a sha2 type
            cur = []
            continue
        if UPD.search(n) or UPD.search(full):
            if cur is None:
                cur = []
            cur.append(origin(fv, expr_of(fv, t["args"][1], 30)))
            continue
        if FIN.search(n) or FIN.search(full):
            if cur is not None:
                out.append((tuple(cur), t))
            cur = None
    return out
