"""MIR analysis primitives: CFG reachability (must-pass-through), value-flow slices, flag carriers
and guard edges, exit sites.  Everything is computed on the resolved MIR dumped by the driver."""
import re
from facts import place_str, op_str, callee_name

_views = {}


def view(F, f):
    k = (id(F), f["key"])
    if k not in _views:
        _views[k] = FnView(F, f)
    return _views[k]


def cname(t):
    """Best name of a call terminator's callee: resolved instance if any."""
    return callee_name(t)


def cpath(t):
    r = t.get("resolved")
    return r["path"] if r else (t.get("callee") or "")


def op_local(o):
    """local index of an operand if it is a bare or projected place, else None"""
    if o[0] in ("c", "m"):
        return o[1][0]
    return None


def op_place(o):
    return o[1] if o[0] in ("c", "m") else None


def op_const(o):
    return o[1] if o[0] == "k" else None


class Def:
    __slots__ = ("kind", "bb", "idx", "proj", "rv", "term", "via_mutref")

    def __init__(self, kind, bb, idx, proj, rv=None, term=None, via_mutref=False):
        self.kind, self.bb, self.idx, self.proj, self.rv, self.term, self.via_mutref = kind, bb, idx, proj, rv, term, via_mutref


class FnView:
    def __init__(self, F, f):
        self.F = F
        self.f = f
        m = f["mir"]
        self.m = m
        self.blocks = m["blocks"]
        self.nb = len(self.blocks)
        self.nargs = m["arg_count"]
        self.locals = m["locals"]
        self.defs = {}
        self.calls = []
        self._build()

    # ------------------------------------------------------------------ structure
    def _build(self):
        # first pass: plain defs
        for bi, b in enumerate(self.blocks):
            for si, s in enumerate(b["s"]):
                if s[0] == "=":
                    self.defs.setdefault(s[1][0], []).append(Def("assign", bi, si, s[1][1], rv=s[2]))
                elif s[0] == "setdisc":
                    self.defs.setdefault(s[1][0], []).append(Def("setdisc", bi, si, s[1][1], rv=["setdisc", s[2]]))
            t = b.get("t")
            if t and t["k"] == "call":
                self.calls.append((bi, t))
                self.defs.setdefault(t["dest"][0], []).append(Def("call", bi, -1, t["dest"][1], term=t))
        # second pass: calls that receive `&mut x` (directly or via a ref local) also define x
        for bi, t in self.calls:
            for a in t["args"]:
                l = op_local(a)
                if l is None:
                    continue
                for base in self._mutref_targets(l, set()):
                    if base != t["dest"][0]:
                        self.defs.setdefault(base, []).append(Def("call", bi, -1, [], term=t, via_mutref=True))

    def _mutref_targets(self, l, seen):
        """locals that `l` may mutably point to (l = &mut x, or l = &mut *r with r such a ref, or copies)"""
        if l in seen:
            return set()
        seen.add(l)
        ty = self.locals[l]["ty"]
        if not ty.startswith("&mut ") and not ty.startswith("*mut "):
            return set()
        out = set()
        for d in self.defs.get(l, []):
            if d.kind != "assign" or d.proj:
                continue
            rv = d.rv
            if rv[0] in ("ref", "rawptr") and (rv[1] == "mut" or rv[0] == "rawptr"):
                pl = rv[2]
                if pl[1] and pl[1][0] == "*":
                    out |= self._mutref_targets(pl[0], seen)
                    if pl[0] <= self.nargs:
                        out.add(pl[0])
                else:
                    out.add(pl[0])
            elif rv[0] == "use" and op_local(rv[1]) is not None:
                out |= self._mutref_targets(op_local(rv[1]), seen)
            elif rv[0] == "cast" and op_local(rv[2]) is not None:
                out |= self._mutref_targets(op_local(rv[2]), seen)
        return out

    def points_to(self, l):
        """Locals whose memory the reference / iterator / container-of-references held in local `l` may point into
        (flow-insensitive, through refs, copies, casts, projections and *any* call that returns a reference-carrying value)."""
        if not hasattr(self, "_pts"):
            self._compute_pts()
        return self._pts.get(l, set())

    def _refy(self, l):
        ty = self.locals[l]["ty"]
        return "&" in ty or "*mut" in ty or "*const" in ty or "Iter" in ty or "iter::" in ty

    def _compute_pts(self):
        pts = {}
        changed = True

        def add(l, s_):
            nonlocal changed
            if not s_ or not self._refy(l):
                return
            cur = pts.setdefault(l, set())
            if not s_ <= cur:
                cur |= s_
                changed = True

        rounds = 0
        while changed and rounds < 30:
            changed = False
            rounds += 1
            for b in self.blocks:
                for s in b["s"]:
                    if s[0] != "=":
                        continue
                    dst = s[1][0]
                    rv = s[2]
                    if rv[0] in ("ref", "rawptr"):
                        base, proj = rv[2]
                        if proj and proj[0] == "*":
                            add(dst, pts.get(base, set()))
                            if 1 <= base <= self.nargs:
                                add(dst, {base})
                        else:
                            add(dst, {base})
                    elif rv[0] == "use" and rv[1][0] in ("c", "m"):
                        add(dst, pts.get(rv[1][1][0], set()))
                    elif rv[0] == "cast" and rv[2][0] in ("c", "m"):
                        add(dst, pts.get(rv[2][1][0], set()))
                    elif rv[0] == "agg":
                        for o in rv[2]:
                            if o[0] in ("c", "m"):
                                add(dst, pts.get(o[1][0], set()))
                t = b.get("t")
                if t and t["k"] == "call":
                    dst = t["dest"][0]
                    if self._refy(dst):
                        for a in t["args"]:
                            if a[0] in ("c", "m"):
                                direct = pts.get(a[1][0], set())
                                add(dst, direct)
                                # what the pointees themselves point into (e.g. next(&mut iter) yields refs into iter's source)
                                for x in list(direct):
                                    add(dst, pts.get(x, set()))
        self._pts = pts

    def mut_targets(self, l):
        """locals that a store through `l` (a &mut, raw pointer, or a reference obtained from an iterator) may modify"""
        return self._mutref_targets(l, set()) | self.points_to(l)

    def succ(self, bi):
        """normal successors [(target, label)]"""
        t = self.blocks[bi].get("t")
        if not t:
            return []
        k = t["k"]
        if k == "goto":
            return [(t["target"], "goto")]
        if k == "switch":
            out = [(tb, ("sw", v)) for v, tb in t["targets"]]
            out.append((t["otherwise"], ("sw", "otherwise")))
            return out
        if k in ("call", "drop", "assert"):
            return [(t["target"], k)] if t.get("target") is not None else []
        return []

    def reach(self, removed_edges=(), removed_blocks=(), start=0):
        removed_edges = set(removed_edges)
        removed_blocks = set(removed_blocks)
        seen = set()
        if start in removed_blocks:
            return seen
        st = [start]
        seen.add(start)
        while st:
            b = st.pop()
            for tb, lab in self.succ(b):
                if (b, tb, lab) in removed_edges or (b, tb) in removed_edges or tb in removed_blocks:
                    continue
                if tb not in seen:
                    seen.add(tb)
                    st.append(tb)
        return seen

    def live_blocks(self):
        """blocks reachable from entry when switches on a compile-time constant (e.g. `cfg!(debug_assertions)`
        lowered to `_n = const false; switchInt(_n)`) follow only the matching edge"""
        if hasattr(self, "_live"):
            return self._live
        seen = {0}
        st = [0]
        while st:
            b = st.pop()
            t = self.blocks[b].get("t")
            nxt = [tb for tb, _ in self.succ(b)]
            if t and t["k"] == "switch":
                v = self._const_of(t["discr"])
                if v is not None:
                    tg = [tb for val, tb in t["targets"] if val == v]
                    nxt = tg if tg else [t["otherwise"]]
            for tb in nxt:
                if tb not in seen:
                    seen.add(tb)
                    st.append(tb)
        self._live = seen
        return seen

    def _const_of(self, o):
        if o[0] == "k":
            v = o[1].get("v")
            return v if isinstance(v, int) else None
        pl = o[1]
        if pl[1]:
            return None
        ds = self.defs.get(pl[0], [])
        if len(ds) == 1 and ds[0].kind == "assign" and not ds[0].proj and ds[0].rv[0] == "use" and ds[0].rv[1][0] == "k":
            v = ds[0].rv[1][1].get("v")
            return v if isinstance(v, int) else None
        return None

    def return_blocks(self):
        return [i for i, b in enumerate(self.blocks) if b.get("t", {}).get("k") == "return"]

    def loc(self, line=None):
        sp = self.f.get("span") or ["?", 0]
        return "%s:%s" % (sp[0], line if line else sp[1])

    def line_of(self, bb, idx=-1):
        b = self.blocks[bb]
        if idx >= 0 and idx < len(b["s"]) and b["s"][idx][0] == "=":
            return b["s"][idx][3]
        return b.get("t", {}).get("line", 0)

    # ------------------------------------------------------------------ call lookup
    def find_calls(self, pat):
        """call sites whose resolved or syntactic callee matches regex `pat`"""
        rx = re.compile(pat)
        return [(bi, t) for bi, t in self.calls if rx.search(cname(t)) or rx.search(t.get("callee_full") or "")]

    # ------------------------------------------------------------------ value flow (backward)
    def slice_back(self, roots, stop_at_call=None, max_nodes=4000):
        """Backward data-dependence closure from a set of locals.
        Returns Slice(locals, calls, args, consts).  `stop_at_call(term)` -> True: do not follow the call's arguments."""
        seen = set()
        calls = []
        args = set()
        consts = []
        statics = set()
        st = list(roots)
        while st and len(seen) < max_nodes:
            l = st.pop()
            if l in seen:
                continue
            seen.add(l)
            if 1 <= l <= self.nargs:
                args.add((l, ""))
            for d in self.defs.get(l, []):
                if d.kind == "call":
                    t = d.term
                    calls.append(t)
                    if stop_at_call and stop_at_call(t):
                        continue
                    for a in t["args"]:
                        self._follow_operand(a, st, args, consts, statics)
                elif d.kind == "assign":
                    self._follow_rv(d.rv, st, args, consts, statics)
        return Slice(seen, calls, args, consts, statics)

    def _follow_place(self, pl, st, args):
        base = pl[0]
        st.append(base)
        if 1 <= base <= self.nargs:
            args.add((base, _proj_key(pl[1])))
        for e in pl[1]:
            if isinstance(e, list) and e[0] == "i":
                st.append(e[1])

    def _follow_operand(self, o, st, args, consts, statics):
        if o[0] in ("c", "m"):
            self._follow_place(o[1], st, args)
        elif o[0] == "k":
            consts.append(o[1])
            k = o[1]
            if "def" in k:
                statics.add(k["def"])
            v = k.get("v")
            if isinstance(v, dict) and "static" in v:
                statics.add(v["static"])

    def _follow_rv(self, rv, st, args, consts, statics):
        k = rv[0]
        if k == "use":
            self._follow_operand(rv[1], st, args, consts, statics)
        elif k == "bin":
            self._follow_operand(rv[2], st, args, consts, statics)
            self._follow_operand(rv[3], st, args, consts, statics)
        elif k == "un":
            self._follow_operand(rv[2], st, args, consts, statics)
        elif k == "cast":
            self._follow_operand(rv[2], st, args, consts, statics)
        elif k in ("ref", "rawptr"):
            self._follow_place(rv[2], st, args)
        elif k == "agg":
            for o in rv[2]:
                self._follow_operand(o, st, args, consts, statics)
        elif k == "repeat":
            self._follow_operand(rv[1], st, args, consts, statics)
        elif k in ("disc", "len"):
            self._follow_place(rv[1], st, args)

    def operand_slice(self, o, **kw):
        l = op_local(o)
        if l is None:
            s = Slice(set(), [], set(), [o[1]] if o[0] == "k" else [], set())
            return s
        s = self.slice_back([l], **kw)
        pl = op_place(o)
        if pl and 1 <= pl[0] <= self.nargs:
            s.args.add((pl[0], _proj_key(pl[1])))
        return s

    # ------------------------------------------------------------------ flags: forward carriers and guard edges
    def carriers(self, root_local):
        """Forward propagation of a validity flag held in `root_local`.
        Returns {local: (imp0, imp1)}: the value of the original flag implied when the carrier is
        false/failure (imp0) resp. true/success (imp1); None = nothing implied."""
        out = {root_local: (0, 1)}
        changed = True
        while changed:
            changed = False
            for bi, b in enumerate(self.blocks):
                for s in b["s"]:
                    if s[0] != "=" or s[1][1]:
                        # assignment into a projection (e.g. tuple field) : ignore
                        continue
                    dst = s[1][0]
                    imp = self._imp_rv(s[2], out)
                    if imp is not None and out.get(dst) != imp and dst not in out:
                        out[dst] = imp
                        changed = True
                t = b.get("t")
                if t and t["k"] == "call" and not t["dest"][1]:
                    dst = t["dest"][0]
                    imp = self._imp_call(t, out)
                    if imp is not None and dst not in out:
                        out[dst] = imp
                        changed = True
        return out

    def _imp_operand(self, o, car):
        pl = op_place(o)
        if pl is None:
            return None
        base = pl[0]
        if base not in car:
            return None
        proj = pl[1]
        # allow deref and downcast-free projections of a carrier reference
        if all(e == "*" for e in proj):
            return car[base]
        return None

    def _imp_rv(self, rv, car):
        k = rv[0]
        if k == "use":
            return self._imp_operand(rv[1], car)
        if k == "disc":
            pl = rv[1]
            if pl[0] in car and all(e == "*" for e in pl[1]):
                return ("disc",) + car[pl[0]]
        if k == "ref":
            pl = rv[2]
            if pl[0] in car and all(e == "*" for e in pl[1]):
                return car[pl[0]]
        if k == "un" and rv[1] == "Not":
            i = self._imp_operand(rv[2], car)
            if i is not None and i[0] != "disc":
                return (i[1], i[0])
        if k == "bin" and rv[1] in ("BitAnd", "BitOr", "Eq", "Ne"):
            a = self._imp_operand(rv[2], car)
            b = self._imp_operand(rv[3], car)
            ka, kb = op_const(rv[2]), op_const(rv[3])
            if rv[1] in ("Eq", "Ne"):
                # comparison with a constant 0/1/false/true
                i, kc = (a, kb) if a is not None else (b, ka)
                if i is not None and kc is not None and i[0] != "disc" and kc.get("v") in (0, 1):
                    same = (kc["v"] == 1) == (rv[1] == "Eq")
                    return i if same else (i[1], i[0])
                return None
            i = a if a is not None else b
            if i is None or i[0] == "disc":
                return None
            if rv[1] == "BitAnd":
                return (None, i[1])
            return (i[0], None)
        if k == "cast":
            return self._imp_operand(rv[2], car)
        return None

    ADAPT_SAME = re.compile(
        r"(core::ops::Try>::branch$|::ok_or(_else)?::<|::ok_or(_else)?$|core::result::Result(::)?<.*>::map_err|core::result::Result(::)?<.*>::map::<|"
        r"core::option::Option(::)?<.*>::map::<|core::option::Option(::)?<.*>::ok_or|as core::convert::From<subtle::CtOption<.*>>>::from$|impl core::convert::From<subtle::CtOption<.*>> for core::option::Option<.*>>::from$|"
        r"<bool as core::convert::From<subtle::Choice>>::from$|subtle::Choice::unwrap_u8$|subtle::CtOption(::)?<.*>::is_some$|"
        r"core::option::Option(::)?<.*>::is_some$|core::result::Result(::)?<.*>::is_ok$|core::result::Result(::)?<.*>::ok$|"
        r"as core::convert::Into<.*>>::into$|<subtle::Choice as core::convert::From<u8>>::from$|core::hint::black_box|"
        r"core::option::Option(::)?<.*>::as_ref$|core::result::Result(::)?<.*>::as_ref$|core::option::Option(::)?<.*>::copied$|"
        r"core::option::Option(::)?<.*>::and_then::<|subtle::CtOption(::)?<.*>::and_then::<|subtle::CtOption(::)?<.*>::map::<)")
    ADAPT_NEG = re.compile(
        r"(subtle::CtOption(::)?<.*>::is_none$|core::option::Option(::)?<.*>::is_none$|core::result::Result(::)?<.*>::is_err$|"
        r"<subtle::Choice as core::ops::Not>::not$|<bool as core::ops::Not>::not$)")
    ADAPT_AND = re.compile(r"(<subtle::Choice as core::ops::BitAnd>::bitand$|<bool as core::ops::BitAnd>::bitand$)")
    ADAPT_OR = re.compile(r"(<subtle::Choice as core::ops::BitOr>::bitor$|<bool as core::ops::BitOr>::bitor$)")
    # and_then / map keep failure (imp0) but success additionally depends on the closure: success implies orig success
    ADAPT_WEAK = re.compile(r"(::and_then::<)")

    def _imp_call(self, t, car):
        n = cname(t)
        if not t["args"]:
            return None
        a0 = self._imp_operand(t["args"][0], car)
        if self.ADAPT_SAME.search(n):
            if a0 is None or a0[0] == "disc":
                return None
            return a0
        if self.ADAPT_NEG.search(n):
            if a0 is None or a0[0] == "disc":
                return None
            return (a0[1], a0[0])
        if self.ADAPT_AND.search(n) or self.ADAPT_OR.search(n):
            a1 = self._imp_operand(t["args"][1], car) if len(t["args"]) > 1 else None
            i = a0 if a0 is not None else a1
            if i is None or i[0] == "disc":
                return None
            return (None, i[1]) if self.ADAPT_AND.search(n) else (i[0], None)
        return None

    def guard_edges(self, root_local, want, root_type=None):
        """Edges (bb, target, label) whose traversal implies that the flag originally held in
        root_local has value `want` (1 = Some/Ok/true/Continue, 0 = the opposite)."""
        car = self.carriers(root_local)
        edges = []
        for bi, b in enumerate(self.blocks):
            t = b.get("t")
            if not t or t["k"] != "switch":
                continue
            pl = op_place(t["discr"])
            if pl is None or pl[1] or pl[0] not in car:
                continue
            imp = car[pl[0]]
            if imp[0] == "disc":
                # discriminant of an enum carrier; which variant index means success?
                src_ty = self._disc_source_type(pl[0])
                succ_variant = _success_variant(src_ty)
                if succ_variant is None:
                    continue
                imp0, imp1 = imp[1], imp[2]
                for v, tb in t["targets"]:
                    implied = imp1 if v == succ_variant else imp0
                    if implied == want:
                        edges.append((bi, tb, ("sw", v)))
                # otherwise edge: covers all values not listed; with 2-variant enums where one value is listed,
                # otherwise = the other variant
                listed = {v for v, _ in t["targets"]}
                if len(listed) == 1:
                    other_is_success = succ_variant not in listed
                    implied = imp1 if other_is_success else imp0
                    if implied == want:
                        edges.append((bi, t["otherwise"], ("sw", "otherwise")))
            else:
                imp0, imp1 = imp
                for v, tb in t["targets"]:
                    implied = imp0 if v == 0 else imp1
                    if implied == want:
                        edges.append((bi, tb, ("sw", v)))
                listed = {v for v, _ in t["targets"]}
                if listed == {0}:
                    if imp1 == want:
                        edges.append((bi, t["otherwise"], ("sw", "otherwise")))
                elif 0 not in listed:
                    # otherwise covers 0 (and maybe more): only safe to use when want is implied by both
                    if imp0 == want and imp1 == want:
                        edges.append((bi, t["otherwise"], ("sw", "otherwise")))
        return edges

    def _disc_source_type(self, disc_local):
        for d in self.defs.get(disc_local, []):
            if d.kind == "assign" and d.rv[0] == "disc":
                pl = d.rv[1]
                ty = self.locals[pl[0]]["ty"]
                for e in pl[1]:
                    if e == "*":
                        ty = re.sub(r"^&(mut )?", "", ty)
                return ty
        return ""

    # ------------------------------------------------------------------ exits
    def exit_sites(self):
        """Sites that define the return value: list of dict(kind, bb, ...):
           kind 'agg' (variant index, adt), 'const' (value), 'call' (term), 'other'"""
        out = []
        seen = set()

        def walk(local):
            if local in seen:
                return
            seen.add(local)
            for d in self.defs.get(local, []):
                if d.proj:
                    out.append({"kind": "other", "bb": d.bb, "why": "partial assignment"})
                    continue
                if d.kind == "call":
                    if d.via_mutref:
                        continue
                    out.append({"kind": "call", "bb": d.bb, "term": d.term})
                elif d.kind == "assign":
                    rv = d.rv
                    if rv[0] == "agg" and rv[1][0] == "adt":
                        out.append({"kind": "agg", "bb": d.bb, "adt": rv[1][1], "variant": rv[1][2], "ops": rv[2], "idx": d.idx})
                    elif rv[0] == "use" and rv[1][0] == "k":
                        out.append({"kind": "const", "bb": d.bb, "value": rv[1][1].get("v"), "k": rv[1][1]})
                    elif rv[0] == "use" and op_place(rv[1]) is not None and not op_place(rv[1])[1]:
                        walk(op_local(rv[1]))
                    else:
                        out.append({"kind": "other", "bb": d.bb, "rv": rv, "idx": d.idx})
                else:
                    out.append({"kind": "other", "bb": d.bb})
        walk(0)
        return out


class Slice:
    def __init__(self, locals_, calls, args, consts, statics):
        self.locals, self.calls, self.args, self.consts, self.statics = locals_, calls, args, consts, statics

    def has_call(self, pat):
        rx = re.compile(pat)
        return any(rx.search(cname(t)) or rx.search(t.get("callee_full") or "") for t in self.calls)

    def calls_matching(self, pat):
        rx = re.compile(pat)
        return [t for t in self.calls if rx.search(cname(t)) or rx.search(t.get("callee_full") or "")]

    def has_arg(self, i, proj_prefix=None):
        for (a, p) in self.args:
            if a == i and (proj_prefix is None or p.startswith(proj_prefix)):
                return True
        return False

    def const_values(self):
        return [k.get("v") for k in self.consts if "v" in k]


def _proj_key(proj):
    out = []
    for e in proj:
        if e == "*":
            out.append("*")
        elif isinstance(e, list) and e[0] == "f":
            out.append(".%d" % e[1])
        elif isinstance(e, list) and e[0] == "dc":
            out.append("@%d" % e[1])
        elif isinstance(e, list) and e[0] == "ci":
            out.append("[%d]" % e[1])
        elif isinstance(e, list) and e[0] == "i":
            out.append("[_]")
        else:
            out.append("?")
    return "".join(out)


def _success_variant(ty):
    ty = ty.strip()
    if ty.startswith("core::option::Option<"):
        return 1
    if ty.startswith("core::result::Result<"):
        return 0
    if ty.startswith("core::ops::ControlFlow<"):
        return 0
    return None


def result_kind(ty):
    if ty.startswith("core::result::Result<"):
        return "result"
    if ty.startswith("core::option::Option<"):
        return "option"
    if ty == "bool":
        return "bool"
    if ty.startswith("subtle::CtOption<"):
        return "ctoption"
    if ty == "subtle::Choice":
        return "choice"
    return None


# ---------------------------------------------------------------------------- symbolic expressions of temporaries

def expr_of(fv, o, depth=12):
    """Expression tree of an operand, expanding locals that have exactly one (whole) definition.
    ('const', v, ty) | ('arg', i, projkey) | ('local', i, projkey) | ('bin', op, a, b) | ('un', op, a) |
    ('cast', a, ty) | ('call', name, [args]) | ('ref', e) | ('agg', kind, [..]) | ('disc', e) | ('idx', base_e, index_e)"""
    if o[0] == "k":
        k = o[1]
        if "fn" in k:
            return ("fnitem", k["fn"])
        return ("const", k.get("v"), k.get("ty"), k.get("def"))
    pl = o[1]
    return _expr_place(fv, pl, depth)


def _expr_place(fv, pl, depth):
    base, proj = pl
    # index projections by a local: resolve the index expression
    if proj and isinstance(proj[-1], list) and proj[-1][0] == "i":
        idx_e = _expr_place(fv, [proj[-1][1], []], depth - 1)
        base_e = _expr_place(fv, [base, proj[:-1]], depth - 1)
        return ("idx", base_e, idx_e)
    if proj and isinstance(proj[-1], list) and proj[-1][0] == "ci":
        base_e = _expr_place(fv, [base, proj[:-1]], depth - 1)
        return ("idx", base_e, ("const", proj[-1][1], "usize", None))
    if 1 <= base <= fv.nargs and len(fv.defs.get(base, [])) == 0:
        return ("arg", base, _proj_key(proj))
    ds = [d for d in fv.defs.get(base, [])]
    if len(ds) != 1 or depth <= 0 or ds[0].proj:
        return ("local", base, _proj_key(proj))
    d = ds[0]
    if d.kind == "call":
        if d.via_mutref:
            return ("local", base, _proj_key(proj))
        t = d.term
        e = ("call", cname(t), [expr_of(fv, a, depth - 1) for a in t["args"]])
    else:
        e = _expr_rv(fv, d.rv, depth - 1)
    if proj:
        # projection applied on top of the defining expression
        if e[0] in ("arg", "local"):
            return (e[0], e[1], e[2] + _proj_key(proj))
        if e[0] == "ref" and proj[0] == "*":
            inner = e[1]
            rest = proj[1:]
            if not rest:
                return inner
            if inner[0] in ("arg", "local"):
                return (inner[0], inner[1], inner[2] + _proj_key(rest))
        return ("proj", e, _proj_key(proj))
    return e


def _expr_rv(fv, rv, depth):
    k = rv[0]
    if k == "use":
        return expr_of(fv, rv[1], depth)
    if k == "bin":
        return ("bin", rv[1], expr_of(fv, rv[2], depth), expr_of(fv, rv[3], depth))
    if k == "un":
        return ("un", rv[1], expr_of(fv, rv[2], depth))
    if k == "cast":
        return ("cast", expr_of(fv, rv[2], depth), rv[3])
    if k in ("ref", "rawptr"):
        return ("ref", _expr_place(fv, rv[2], depth))
    if k == "agg":
        return ("agg", rv[1], [expr_of(fv, o, depth) for o in rv[2]])
    if k == "disc":
        return ("disc", _expr_place(fv, rv[1], depth))
    if k == "repeat":
        return ("repeat", expr_of(fv, rv[1], depth), rv[2])
    if k == "len":
        return ("len", _expr_place(fv, rv[1], depth))
    return ("?", k)


def expr_calls(e, out=None):
    """all call names appearing in an expression tree"""
    if out is None:
        out = []
    if isinstance(e, tuple):
        if e and e[0] == "call":
            out.append(e[1])
        for x in e[1:]:
            if isinstance(x, (tuple, list)):
                expr_calls(x, out)
    elif isinstance(e, list):
        for x in e:
            expr_calls(x, out)
    return out


def root(fv, o, depth=30):
    """Follow plain copies / moves / shared refs / derefs of single-definition temporaries.
    Returns ('local', n, projkey) | ('arg', n, projkey) | ('const', k) | ('call', bb, term, projkey)"""
    if o[0] == "k":
        return ("const", o[1])
    pl = o[1]
    return _root_place(fv, pl[0], pl[1], depth)


def _root_place(fv, base, proj, depth):
    pk = _proj_key([e for e in proj if e != "*"])
    ds = fv.defs.get(base, [])
    if 1 <= base <= fv.nargs and not ds:
        return ("arg", base, pk)
    if len(ds) != 1 or depth <= 0 or ds[0].proj:
        return ("local", base, pk)
    d = ds[0]
    if d.kind == "call":
        if d.via_mutref:
            return ("local", base, pk)
        return ("call", d.bb, d.term, pk) if not pk else ("local", base, pk)
    rv = d.rv
    inner = None
    if rv[0] == "use" and rv[1][0] in ("c", "m"):
        inner = rv[1][1]
    elif rv[0] == "ref" and rv[1] in ("shared", "fake"):
        inner = rv[2]
    elif rv[0] == "cast" and rv[2][0] in ("c", "m") and "Pointer" in rv[1]:
        inner = rv[2][1]
    if inner is None:
        return ("local", base, pk)
    r = _root_place(fv, inner[0], inner[1], depth - 1)
    if r[0] in ("local", "arg"):
        return (r[0], r[1], r[2] + pk)
    if r[0] == "call" and pk:
        # projection of a call result: name the temporary holding the call result
        return ("local", inner[0], _proj_key([e for e in inner[1] if e != "*"]) + pk)
    return r


def same_value(fv, o1, o2):
    a, b = root(fv, o1), root(fv, o2)
    if a[0] == "const" or b[0] == "const":
        return False
    if a[0] == "call" and b[0] == "call":
        return a[1] == b[1] and a[2] is b[2]
    return a == b
