"""Byte <-> limb codecs decided in the BITS domain (lib/eng_bits.py): which input bit lands at which weight, for every input at once."""
import re
import eng_bits as B


def one(F, rx):
    fs = [f for f in F.fns.values() if "mir" in f and f["kind"] != "Closure" and re.search(rx, f["path"])]
    return fs[0] if len(fs) == 1 else None


def field_offsets(n):
    if n == 5:
        return [51 * i for i in range(5)]
    offs, o = [], 0
    for i in range(10):
        offs.append(o)
        o += 26 if i % 2 == 0 else 25
    return offs


def expect_value(coef, const, lo, hi, shift=0):
    """coef == {k: 2^(k - shift) for k in [lo, hi)} and const == 0; returns None or a message"""
    if coef is None:
        return "a limb contains bits of unknown provenance (an operation outside shifts / masks / ors / disjoint adds reached the result)"
    if const:
        return "a constant 1 bit is injected"
    want = {k: 1 << (k - shift) for k in range(lo, hi)}
    if coef == want:
        return None
    for k in sorted(set(coef) | set(want)):
        if coef.get(k) != want.get(k):
            return "input bit %d has weight %s, expected %s" % (k, ("2^%d" % (coef[k].bit_length() - 1) if coef.get(k) and coef[k] & (coef[k] - 1) == 0 else coef.get(k)) if k in coef else "none (dropped)",
                                                                    ("2^%d" % (k - shift)) if k in want else "none")
    return "mismatch"


def field_decode(F):
    """yield (instance, fn, ok, msg) for the serial field decoders of the configuration"""
    inp = ("arr", tuple(B.input_byte(k) for k in range(32)))
    for name, rx, nl in (("FieldElement51::from_bytes", r"serial::u64::field::FieldElement51::from_bytes$", 5), ("FieldElement2625::from_bytes", r"serial::u32::field::FieldElement2625::from_bytes$", 10)):
        f = one(F, rx)
        if f is None:
            continue
        try:
            ret, ip, root = B.run(F, f, [inp], watch=r"FieldElement2625::reduce$")
        except Exception as e:
            yield name, f, False, "analysis failed: %r" % (e,)
            continue
        src = ip.models.logged[0][1][0] if ip.models.logged else ret
        lb = B.limb_bits(src)
        if lb is None or len(lb) != nl:
            yield name, f, False, "the limbs left the bit-provenance domain"
            continue
        coef, const = B.positional_value(lb, field_offsets(nl))
        msg = expect_value(coef, const, 0, 255)
        if msg is None and nl == 5 and any(any(s != 0 for s in bits[51:]) for bits in lb):
            msg = "a limb has bits above position 51"
        yield name, f, msg is None, msg or ("sum limb_i 2^(weight_i) = sum_{k<255} b_k 2^k: every input bit below 255 lands at its own weight exactly once, bit 255 is dropped%s" % (
            "" if nl == 5 else " (the value handed to reduce)"))


def scalar_codecs(F):
    """yield (instance, fn, ok, msg) for unpack / pack / wide unpack of the scalar backend of the configuration"""
    for tag, bits, nl in (("52", 52, 5), ("29", 29, 9)):
        S = r"scalar::Scalar%s::" % tag
        offs = [bits * i for i in range(nl)]
        f = one(F, S + r"from_bytes$")
        if f is None:
            continue
        inp = ("arr", tuple(B.input_byte(k) for k in range(32)))
        try:
            ret, ip, root = B.run(F, f, [inp])
            lb = B.limb_bits(ret)
            coef, const = B.positional_value(lb, offs) if lb and len(lb) == nl else (None, None)
            msg = expect_value(coef, const, 0, 256)
            if msg is None and any(any(s != 0 for s in b[bits:]) for b in lb):
                msg = "a limb has bits above its nominal width"
        except Exception as e:
            msg = "analysis failed: %r" % (e,)
        yield "Scalar%s::from_bytes" % tag, f, msg is None, msg or "limb i = input bits [%d i, %d i + %d): sum limb_i 2^(%d i) = sum_{k<256} b_k 2^k" % (bits, bits, bits, bits)
        # pack
        f = one(F, S + r"as_bytes$|" + S + r"to_bytes$")
        if f is not None:
            limbs = []
            for i in range(nl):
                width = min(bits, 256 - bits * i)
                limbs.append(B.bv([("b", bits * i + j) if j < width else 0 for j in range(64 if tag == "52" else 32)]))
            try:
                ret, ip, root = B.run(F, f, [("st", (("arr", tuple(limbs)),))])
                bb = B.limb_bits(ret)
                coef, const = B.positional_value(bb, [8 * m for m in range(32)]) if bb and len(bb) == 32 else (None, None)
                msg = expect_value(coef, const, 0, 256)
            except Exception as e:
                msg = "analysis failed: %r" % (e,)
            yield "Scalar%s::as_bytes" % tag, f, msg is None, msg or "byte m = bits [8m, 8m+8) of sum limb_i 2^(%d i) for limbs within their nominal width" % bits
        # wide unpack: the operands of the two Montgomery multiplications
        f = one(F, S + r"from_bytes_wide$")
        if f is not None:
            inp64 = ("arr", tuple(B.input_byte(k) for k in range(64)))
            rb = bits * nl
            try:
                ret, ip, root = B.run(F, f, [inp64], watch=S + r"montgomery_mul$")
                lg = ip.models.logged
                if len(lg) != 2:
                    msg = "expected two montgomery_mul calls, found %d" % len(lg)
                else:
                    lo, hi = B.limb_bits(lg[0][1][0]), B.limb_bits(lg[1][1][0])
                    c1, k1 = B.positional_value(lo, offs) if lo and len(lo) == nl else (None, None)
                    c2, k2 = B.positional_value(hi, offs) if hi and len(hi) == nl else (None, None)
                    msg = expect_value(c1, k1, 0, rb) or expect_value(c2, k2, rb, 512, rb)
            except Exception as e:
                msg = "analysis failed: %r" % (e,)
            yield "Scalar%s::from_bytes_wide" % tag, f, msg is None, msg or "lo = input bits [0, %d), hi = input bits [%d, 512) (so the value is lo + hi 2^%d = lo + hi R)" % (rb, rb, rb)



def field_encode(F):
    """yield (instance, fn, ok, msg): as_bytes = little-endian bytes of the low 255 bits of V = h + 19 q, q the carry out of h + 19 over all limbs
    (i.e. q = 1 iff h >= p for reduced limbs, so V mod 2^255 is the canonical representative)"""
    for name, rx, nl, red in (("FieldElement51::as_bytes", r"serial::u64::field::FieldElement51::as_bytes$", 5, r"FieldElement51::reduce$"),
                              ("FieldElement2625::as_bytes", r"serial::u32::field::FieldElement2625::as_bytes$", 10, r"FieldElement2625::reduce$")):
        f = one(F, rx)
        if f is None:
            continue
        try:
            ret, ip, root = B.run(F, f, [B.TOP], watch=red, reduce_limbs=nl)
        except Exception as e:
            yield name, f, False, "analysis failed: %r" % (e,)
            continue
        if len(ip.models.logged) != 1:
            yield name, f, False, "expected exactly one reduce() before the encoding, found %d" % len(ip.models.logged)
            continue
        bad = None
        if ret is not None and ret[0] == "arr":
            for x in ret[1]:
                if x[0] == "badtok":
                    bad = x[1]
                    break
                if x[0] in ("lmb", "s1", "cy1", "q19", "e", "cy2"):
                    bad = "a byte is taken from a limb that was not carried and masked first"
                    break
        bb = B.limb_bits(ret) if bad is None else None
        if bad is None and (bb is None or len(bb) != 32):
            bad = "the output bytes left the domain"
        if bad is None:
            coef, const = B.positional_value(bb, [8 * m for m in range(32)])
            bad = expect_value(coef, const, 0, 255)
            if bad:
                bad = "bits of V = h + 19 q: " + bad
        yield name, f, bad is None, bad or ("q = carry out of h + 19 through all %d limbs; h_0 += 19 q; each limb carried into the next and masked to its width; "
                                             "byte m = bits [8m, 8m+8) of the low 255 bits of h + 19 q" % nl)



def recodings(F):
    """yield (instance, fn, ok, msg): the signed-digit recodings preserve the value: sum digit_i 2^(w i) = sum_{k<256} b_k 2^k as an identity of
    integer-linear forms in the input bits in which every carry is an opaque quotient symbol (so the identity holds whatever the carries are)"""
    inp = ("st", (("arr", tuple(B.input_byte(k) for k in range(32))),))
    cases = [("Scalar::as_radix_16", r"scalar::Scalar::as_radix_16$", None, 4)] + [("Scalar::as_radix_2w(%d)" % w, r"scalar::Scalar::as_radix_2w$", w, w) for w in (5, 6, 7, 8)]
    for name, rx, warg, w in cases:
        f = one(F, rx)
        if f is None:
            continue
        try:
            ret, ip, root = B.run(F, f, [inp] + ([B.I(warg)] if warg else []), lin_mode=True)
        except Exception as e:
            yield name, f, False, "analysis failed: %r" % (e,)
            continue
        if ret is None or ret[0] != "arr":
            yield name, f, False, "the digit array left the domain"
            continue
        total = B.lin({}, 0)
        bad = None
        for i, dgt in enumerate(ret[1]):
            l = B.to_lin(dgt) if dgt[0] in ("lin", "bv", "i") else None
            if l is None:
                bad = "digit %d is outside the linear domain" % i
                break
            total = B.lin_add(total, B.lin_scale(l, 1 << (w * i)))
        if bad is None:
            want = {("b", k): 1 << k for k in range(256)}
            got = dict(total[1])
            if total[2] != 0 or got != want:
                diff = sorted(set(got) | set(want), key=repr)
                k = [x for x in diff if got.get(x) != want.get(x)][0]
                bad = "sum digit_i 2^(%d i) differs from the scalar: the coefficient of %s is %s, expected %s%s" % (
                    w, ("input bit %d" % k[1]) if k[0] == "b" else "a carry", got.get(k, 0), want.get(k, 0), "" if total[2] == 0 else "; constant %d" % total[2])
        yield name, f, bad is None, bad or "sum_i digit_i 2^(%d i) = sum_{k<256} b_k 2^k identically in the input bits and in every carry (%d opaque carries cancel)" % (w, ip.quotients)


def naf_invariant(F, widths=(5, 6, 7, 8)):
    """yield (instance, fn, ok, msg): non_adjacent_form keeps  s = sum_{i<pos} naf_i 2^i + 2^pos (carry + sum_{k>=pos} b_k 2^(k-pos))  across one
    iteration of its loop, for every position pos in 0..255, every carry and every value of the current bit, in both digit arms - checked as an
    identity of integer-linear forms over the remaining input bits (one loop iteration is interpreted from a state built at the loop header)."""
    from absint import State
    from mirlib import view
    f = one(F, r"scalar::Scalar::non_adjacent_form$")
    if f is None:
        return
    fv = view(F, f)
    names = {fv.locals[l].get("name"): l for l in range(len(fv.locals)) if fv.locals[l].get("name")}
    need = ("pos", "carry", "naf", "x_u64")
    if any(n not in names for n in need):
        yield "Scalar::non_adjacent_form", f, False, "expected locals %s, found %s" % (need, sorted(n for n in names if n))
        return
    for w in widths:
        inst = "Scalar::non_adjacent_form(%d)" % w
        try:
            ip = B.BvInterp(F, B.BvModels(), step_budget=6_000_000)
            ip.lin_mode = True
            loops = ip.loops(fv)
            if len(loops) != 1:
                yield inst, f, False, "expected one loop, found %d" % len(loops)
                continue
            header = list(loops)[0]
            st = State([{}])
            st.frames[0][0] = ("st", (("arr", tuple(B.input_byte(k) for k in range(32))),))
            st.frames.append({1: ("ref", 0, 0, ()), 2: B.I(w)})
            ip.fn_stack = [f]
            ip.run_region(fv, st, 1, 0, header, {})
            fr = st.frames[1]
            xs = fr.get(names["x_u64"])
            if xs is None or xs[0] != "arr" or any(x[0] not in ("bv", "i") for x in xs[1]):
                yield inst, f, False, "the word buffer is outside the bit-provenance domain at the loop header"
                continue
            bad, cases = None, 0
            for p in range(256):
                for c in (0, 1):
                    for bp in (0, 1):
                        for arm in ((None,) if (c + bp) % 2 == 0 else (1, 0)):
                            s2 = st.copy()
                            fr2 = s2.frames[1]
                            fr2[names["pos"]] = B.I(p)
                            fr2[names["carry"]] = B.I(c)
                            words = [list(B.as_bv(x, 64)[1]) for x in xs[1]]
                            words[p // 64][p % 64] = bp
                            fr2[names["x_u64"]] = ("arr", tuple(B.bv(wd) for wd in words))
                            fr2[names["naf"]] = ("arr", tuple(B.I(0) for _ in range(256)))
                            ip.force_lt = arm
                            # on a digit arm the window is odd and below / not below half the width: its range decides how `as i8` reinterprets it
                            ip.hint = None if arm is None else ((1, (1 << (w - 1)) - 1) if arm else ((1 << (w - 1)) + 1, (1 << w) - 1))
                            ip.hint_i8 = None
                            ip.run_region(fv, s2, 1, header, header, {}, skip_first_stop=True)
                            cases += 1
                            fr3 = s2.frames[1]
                            if fr3.get("__dead"):
                                bad = "pos=%d carry=%d bit=%d: the iteration does not return to the loop header" % (p, c, bp)
                                break
                            p2, c2, naf = fr3.get(names["pos"]), fr3.get(names["carry"]), fr3.get(names["naf"])
                            if p2 is None or p2[0] != "i" or p2[1] != p2[2] or c2 is None or c2[0] != "i" or c2[1] != c2[2] or naf is None or naf[0] != "arr":
                                bad = "pos=%d carry=%d bit=%d: pos / carry are not concrete after the iteration" % (p, c, bp)
                                break
                            p2, c2 = p2[1], c2[1]

                            def tail(lo, fixed=None):
                                d = {}
                                for k in range(lo, 256):
                                    if fixed is not None and k == fixed[0]:
                                        continue
                                    d[("b", k)] = 1 << k
                                return B.lin(d, (fixed[1] << fixed[0]) if fixed is not None and fixed[0] >= lo else 0)
                            before = B.lin_add(tail(p, (p, bp)), B.lin({}, c << p))
                            after = B.lin_add(tail(p2, (p, bp)), B.lin({}, c2 << p2))
                            written = [i for i, x in enumerate(naf[1]) if not (x[0] == "i" and x[1] == x[2] == 0)]
                            if any(i != p for i in written):
                                bad = "pos=%d: the iteration writes digit %s" % (p, written)
                                break
                            if written:
                                dg = B.to_lin(naf[1][p]) if naf[1][p][0] in ("lin", "bv", "i") else None
                                if dg is None:
                                    bad = "pos=%d carry=%d bit=%d: the digit written is outside the linear domain" % (p, c, bp)
                                    break
                                after = B.lin_add(after, B.lin_scale(dg, 1 << p))
                            if before != after:
                                bad = "pos=%d carry=%d bit=%d%s: the value is not preserved (pos' = %d, carry' = %d%s)" % (
                                    p, c, bp, "" if arm is None else (", digit arm %s" % ("window < width/2" if arm else "window >= width/2")), p2, c2, ", digit written" if written else "")
                                break
                        if bad:
                            break
                    if bad:
                        break
                if bad:
                    break
            yield inst, f, bad is None, bad or ("one loop iteration preserves s = sum_{i<pos} naf_i 2^i + 2^pos (carry + remaining bits) for every pos in 0..255, carry, "
                                               "current bit and digit arm (%d cases, linear identities over the remaining input bits)" % cases)
        except Exception as e:
            yield inst, f, False, "analysis failed: %r" % (e,)



def int_conversions(F):
    """yield (instance, fn, ok|None, msg): `Scalar::from(x: uN)` in the bit-provenance domain: output byte j carries input bits 8j..8j+7 for j < N/8 and is zero above
    (so the value is x < 2^128 < l and the bytes are canonical).  None = outside the domain."""
    for f in F.fns.values():
        m = re.search(r"scalar::Scalar as core::convert::From<u(8|16|32|64|128)>>::from$", f["path"])
        if not m or "mir" not in f:
            continue
        w = int(m.group(1))
        inst = "From<u%d>" % w
        try:
            ret, ip, root = B.run(F, f, [B.bv([("b", k) for k in range(w)])])
        except Exception as e:
            yield inst, f, None, "analysis failed: %r" % (e,)
            continue
        v = ret
        while v is not None and v[0] == "st" and len(v[1]) == 1:
            v = v[1][0]
        if v is None or v[0] != "arr" or len(v[1]) != 32:
            yield inst, f, None, "the result is not a 32-byte array in the domain"
            continue
        bad = None
        unknown = False
        for j, x in enumerate(v[1]):
            xb = B.as_bv(x, 8) if x[0] in ("bv", "i") else None
            if xb is None:
                unknown = True
                break
            want = [("b", 8 * j + k) for k in range(8)] if 8 * j < w else [0] * 8
            if list(xb[1]) != want:
                bad = "output byte %d is %s, expected %s" % (j, list(xb[1]), "input bits %d..%d" % (8 * j, 8 * j + 7) if 8 * j < w else "zero")
                break
        if unknown:
            yield inst, f, None, "an output byte is outside the domain"
        elif bad:
            yield inst, f, False, bad
        else:
            yield inst, f, True, "the 32 bytes are the little-endian bytes of the %d-bit argument followed by zeros" % w


def bits_le(F):
    """(ok|None, msg): Scalar::bits_le in the bit-provenance domain: the iterator yields exactly 256 items and item i is input bit i
    (bit i & 7 of byte i >> 3).  None = outside the domain"""
    from absint_models import Models
    fs = [f for f in F.fns.values() if "mir" in f and f["kind"] != "Closure" and re.search(r"scalar::Scalar::bits_le$", f["path"])]
    if len(fs) != 1:
        return None, "bits_le not found"
    f = fs[0]
    sc = ("st", (("arr", tuple(B.input_byte(k) for k in range(32))),))
    try:
        ret, ip, root = B.run(F, f, [sc])
    except Exception as e:
        return None, "analysis failed: %r" % (e,)
    M = ip.models
    from absint import State as _State
    it = M.as_it(ip, _State([root]), ip.deconst(ret)) if ret is not None else None
    if it is None or it[0] != "it":
        return None, "the returned iterator is outside the domain"
    from absint import State
    st_ = State([root])
    cur, k = it, 0
    for k in range(257):
        try:
            item, new = M.step(ip, st_, cur)
        except Exception as e:
            return None, "the iterator could not be stepped: %r" % (e,)
        if item[0] != "en" or len(item[1]) != 1:
            return None, "item %d is outside the domain" % k
        if item[1][0][0] == 0:
            break
        x = ip.deconst(item[1][0][1][0])
        if not (x[0] == "bv" and len(x[1]) == 1):
            return None, "item %d is not a single bit in the domain" % k
        if x[1][0] != ("b", k):
            return False, "item %d of bits_le is %s, expected input bit %d" % (k, x[1][0], k)
        cur = new if new is not None else cur
    if k != 256:
        return False, "bits_le yields %d items, expected 256" % k
    return True, "bits_le yields 256 items, item i = bit (i & 7) of byte (i >> 3)"
