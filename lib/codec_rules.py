"""Byte <-> limb codecs decided in the BITS domain (lib/eng_bits.py): which input bit lands at which weight, for every input at once."""
import re
import eng_bits as B


def one(F, rx):
    fs = [f for f in F.fns.values() if "mir" in f and f["kind"] != "Closure" and re.search(rx, f["path"])]
    return fs[0] if len(fs) == 1 else None


def field_offsets(n):
    if n == 5:
        return [51 * i for i in range(5)]
    offs, o = [], 0
    for i in range(10):
        offs.append(o)
        o += 26 if i % 2 == 0 else 25
    return offs


def expect_value(coef, const, lo, hi, shift=0):
    """coef == {k: 2^(k - shift) for k in [lo, hi)} and const == 0; returns None or a message"""
    if coef is None:
        return "a limb contains bits of unknown provenance (an operation outside shifts / masks / ors / disjoint adds reached the result)"
    if const:
        return "a constant 1 bit is injected"
    want = {k: 1 << (k - shift) for k in range(lo, hi)}
    if coef == want:
        return None
    for k in sorted(set(coef) | set(want)):
        if coef.get(k) != want.get(k):
            return "input bit %d has weight %s, expected %s" % (k, ("2^%d" % (coef[k].bit_length() - 1) if coef.get(k) and coef[k] & (coef[k] - 1) == 0 else coef.get(k)) if k in coef else "none (dropped)",
                                                                    ("2^%d" % (k - shift)) if k in want else "none")
    return "mismatch"


def field_decode(F):
    """yield (instance, fn, ok, msg) for the serial field decoders of the configuration"""
    inp = ("arr", tuple(B.input_byte(k) for k in range(32)))
    for name, rx, nl in (("FieldElement51::from_bytes", r"serial::u64::field::FieldElement51::from_bytes$", 5), ("FieldElement2625::from_bytes", r"serial::u32::field::FieldElement2625::from_bytes$", 10)):
        f = one(F, rx)
        if f is None:
            continue
        try:
            ret, ip, root = B.run(F, f, [inp], watch=r"FieldElement2625::reduce$")
        except Exception as e:
            yield name, f, False, "analysis failed: %r" % (e,)
            continue
        src = ip.models.logged[0][1][0] if ip.models.logged else ret
        lb = B.limb_bits(src)
        if lb is None or len(lb) != nl:
            yield name, f, False, "the limbs left the bit-provenance domain"
            continue
        coef, const = B.positional_value(lb, field_offsets(nl))
        msg = expect_value(coef, const, 0, 255)
        if msg is None and nl == 5 and any(any(s != 0 for s in bits[51:]) for bits in lb):
            msg = "a limb has bits above position 51"
        yield name, f, msg is None, msg or ("sum limb_i 2^(weight_i) = sum_{k<255} b_k 2^k: every input bit below 255 lands at its own weight exactly once, bit 255 is dropped%s" % (
            "" if nl == 5 else " (the value handed to reduce)"))


def scalar_codecs(F):
    """yield (instance, fn, ok, msg) for unpack / pack / wide unpack of the scalar backend of the configuration"""
    for tag, bits, nl in (("52", 52, 5), ("29", 29, 9)):
        S = r"scalar::Scalar%s::" % tag
        offs = [bits * i for i in range(nl)]
        f = one(F, S + r"from_bytes$")
        if f is None:
            continue
        inp = ("arr", tuple(B.input_byte(k) for k in range(32)))
        try:
            ret, ip, root = B.run(F, f, [inp])
            lb = B.limb_bits(ret)
            coef, const = B.positional_value(lb, offs) if lb and len(lb) == nl else (None, None)
            msg = expect_value(coef, const, 0, 256)
            if msg is None and any(any(s != 0 for s in b[bits:]) for b in lb):
                msg = "a limb has bits above its nominal width"
        except Exception as e:
            msg = "analysis failed: %r" % (e,)
        yield "Scalar%s::from_bytes" % tag, f, msg is None, msg or "limb i = input bits [%d i, %d i + %d): sum limb_i 2^(%d i) = sum_{k<256} b_k 2^k" % (bits, bits, bits, bits)
        # pack
        f = one(F, S + r"as_bytes$|" + S + r"to_bytes$")
        if f is not None:
            limbs = []
            for i in range(nl):
                width = min(bits, 256 - bits * i)
                limbs.append(B.bv([("b", bits * i + j) if j < width else 0 for j in range(64 if tag == "52" else 32)]))
            try:
                ret, ip, root = B.run(F, f, [("st", (("arr", tuple(limbs)),))])
                bb = B.limb_bits(ret)
                coef, const = B.positional_value(bb, [8 * m for m in range(32)]) if bb and len(bb) == 32 else (None, None)
                msg = expect_value(coef, const, 0, 256)
            except Exception as e:
                msg = "analysis failed: %r" % (e,)
            yield "Scalar%s::as_bytes" % tag, f, msg is None, msg or "byte m = bits [8m, 8m+8) of sum limb_i 2^(%d i) for limbs within their nominal width" % bits
        # wide unpack: the operands of the two Montgomery multiplications
        f = one(F, S + r"from_bytes_wide$")
        if f is not None:
            inp64 = ("arr", tuple(B.input_byte(k) for k in range(64)))
            rb = bits * nl
            try:
                ret, ip, root = B.run(F, f, [inp64], watch=S + r"montgomery_mul$")
                lg = ip.models.logged
                if len(lg) != 2:
                    msg = "expected two montgomery_mul calls, found %d" % len(lg)
                else:
                    lo, hi = B.limb_bits(lg[0][1][0]), B.limb_bits(lg[1][1][0])
                    c1, k1 = B.positional_value(lo, offs) if lo and len(lo) == nl else (None, None)
                    c2, k2 = B.positional_value(hi, offs) if hi and len(hi) == nl else (None, None)
                    msg = expect_value(c1, k1, 0, rb) or expect_value(c2, k2, rb, 512, rb)
            except Exception as e:
                msg = "analysis failed: %r" % (e,)
            yield "Scalar%s::from_bytes_wide" % tag, f, msg is None, msg or "lo = input bits [0, %d), hi = input bits [%d, 512) (so the value is lo + hi 2^%d = lo + hi R)" % (rb, rb, rb)



def field_encode(F):
    """yield (instance, fn, ok, msg): as_bytes = little-endian bytes of the low 255 bits of V = h + 19 q, q the carry out of h + 19 over all limbs
    (i.e. q = 1 iff h >= p for reduced limbs, so V mod 2^255 is the canonical representative)"""
    for name, rx, nl, red in (("FieldElement51::as_bytes", r"serial::u64::field::FieldElement51::as_bytes$", 5, r"FieldElement51::reduce$"),
                              ("FieldElement2625::as_bytes", r"serial::u32::field::FieldElement2625::as_bytes$", 10, r"FieldElement2625::reduce$")):
        f = one(F, rx)
        if f is None:
            continue
        try:
            ret, ip, root = B.run(F, f, [B.TOP], watch=red, reduce_limbs=nl)
        except Exception as e:
            yield name, f, False, "analysis failed: %r" % (e,)
            continue
        if len(ip.models.logged) != 1:
            yield name, f, False, "expected exactly one reduce() before the encoding, found %d" % len(ip.models.logged)
            continue
        bad = None
        if ret is not None and ret[0] == "arr":
            for x in ret[1]:
                if x[0] == "badtok":
                    bad = x[1]
                    break
                if x[0] in ("lmb", "s1", "cy1", "q19", "e", "cy2"):
                    bad = "a byte is taken from a limb that was not carried and masked first"
                    break
        bb = B.limb_bits(ret) if bad is None else None
        if bad is None and (bb is None or len(bb) != 32):
            bad = "the output bytes left the domain"
        if bad is None:
            coef, const = B.positional_value(bb, [8 * m for m in range(32)])
            bad = expect_value(coef, const, 0, 255)
            if bad:
                bad = "bits of V = h + 19 q: " + bad
        yield name, f, bad is None, bad or ("q = carry out of h + 19 through all %d limbs; h_0 += 19 q; each limb carried into the next and masked to its width; "
                                             "byte m = bits [8m, 8m+8) of the low 255 bits of h + 19 q" % nl)
