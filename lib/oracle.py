"""Independent big-integer oracle: GF(2^255-19), the twisted Edwards curve -x^2+y^2=1+d x^2 y^2,
ristretto255 encoding, the group order l.  Written from the definitions (RFC 7748 / 8032 / 9496),
shares nothing with the repository."""
P = 2**255 - 19
L = 2**252 + 27742317777372353535851937790883648493
D = (-121665 * pow(121666, P - 2, P)) % P
SQRT_M1 = pow(2, (P - 1) // 4, P)
A_MONT = 486662


def inv(x):
    return pow(x % P, P - 2, P)


def is_square(x):
    x %= P
    return x == 0 or pow(x, (P - 1) // 2, P) == 1


def sqrt(x):
    """Some square root of x mod P, or None."""
    x %= P
    r = pow(x, (P + 3) // 8, P)
    if (r * r - x) % P != 0:
        r = r * SQRT_M1 % P
    if (r * r - x) % P != 0:
        return None
    return r


def is_negative(x):
    return (x % P) & 1


def absval(x):
    x %= P
    return P - x if x & 1 else x


def on_curve(x, y):
    return (-x * x + y * y - 1 - D * x * x * y * y) % P == 0


def ed_add(p1, p2):
    x1, y1 = p1
    x2, y2 = p2
    t = D * x1 * x2 * y1 * y2 % P
    x3 = (x1 * y2 + x2 * y1) * inv(1 + t) % P
    y3 = (y1 * y2 + x1 * x2) * inv(1 - t) % P
    return (x3, y3)


def ed_neg(p):
    return ((-p[0]) % P, p[1])


IDENT = (0, 1)


def ed_mul(k, pt):
    # projective (extended) coordinates for speed; independent of the repository's formulas:
    # textbook double-and-add with the affine law evaluated via fractions.
    X, Y, Z = 0, 1, 1
    qx, qy = pt
    for bit in bin(k)[2:] if k > 0 else "":
        X, Y, Z = _padd((X, Y, Z), (X, Y, Z))
        if bit == "1":
            X, Y, Z = _padd((X, Y, Z), (qx, qy, 1))
    zi = inv(Z)
    return (X * zi % P, Y * zi % P)


def _padd(p1, p2):
    # projective twisted Edwards addition (add-2008-bbjlp), a=-1; complete since d is non-square
    X1, Y1, Z1 = p1
    X2, Y2, Z2 = p2
    A = Z1 * Z2 % P
    B = A * A % P
    C = X1 * X2 % P
    Dd = Y1 * Y2 % P
    E = D * C * Dd % P
    F = (B - E) % P
    G = (B + E) % P
    X3 = A * F * ((X1 + Y1) * (X2 + Y2) - C - Dd) % P
    Y3 = A * G * (Dd + C) % P          # a = -1: D - a*C = D + C
    Z3 = F * G % P
    return (X3, Y3, Z3)


def basepoint():
    y = 4 * inv(5) % P
    x2 = (y * y - 1) * inv(D * y * y + 1) % P
    x = sqrt(x2)
    if x & 1:
        x = P - x
    return (x, y)


B = basepoint()


def ed_compress(pt):
    x, y = pt
    v = (y % P) | ((x % P) & 1) << 255
    return v.to_bytes(32, "little")


def ed_decompress(b):
    v = int.from_bytes(bytes(b), "little")
    sign = v >> 255
    y = (v & ((1 << 255) - 1)) % P
    x2 = (y * y - 1) * inv(D * y * y + 1) % P
    x = sqrt(x2)
    if x is None:
        return None
    if (x & 1) != sign:
        x = (P - x) % P
    return (x, y)


def to_montgomery_u(pt):
    x, y = pt
    return (1 + y) * inv(1 - y) % P


# ---- ristretto255 (RFC 9496 section 4.3.2 encode), on affine (x,y) -> extended with z=1
def _sqrt_ratio_m1(u, v):
    u %= P
    v %= P
    v3 = v * v % P * v % P
    v7 = v3 * v3 % P * v % P
    r = u * v3 % P * pow(u * v7 % P, (P - 5) // 8, P) % P
    check = v * r % P * r % P
    correct = check == u
    flipped = check == (-u) % P
    flipped_i = check == (-u * SQRT_M1) % P
    if flipped or flipped_i:
        r = r * SQRT_M1 % P
    r = absval(r)
    return (correct or flipped), r


INVSQRT_A_MINUS_D = _sqrt_ratio_m1(1, (-1 - D) % P)[1]


def ristretto_encode(pt):
    x0, y0 = pt
    z0 = 1
    t0 = x0 * y0 % P
    u1 = (z0 + y0) * (z0 - y0) % P
    u2 = x0 * y0 % P
    _, invsqrt = _sqrt_ratio_m1(1, u1 * u2 % P * u2 % P)
    den1 = invsqrt * u1 % P
    den2 = invsqrt * u2 % P
    z_inv = den1 * den2 % P * t0 % P
    ix0 = x0 * SQRT_M1 % P
    iy0 = y0 * SQRT_M1 % P
    enchanted = den1 * INVSQRT_A_MINUS_D % P
    rotate = is_negative(t0 * z_inv)
    if rotate:
        x, y, den_inv = iy0, ix0, enchanted
    else:
        x, y, den_inv = x0, y0, den2
    if is_negative(x * z_inv):
        y = (-y) % P
    s = absval(den_inv * (z0 - y))
    return s.to_bytes(32, "little")
