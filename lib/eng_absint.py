"""ABSINT driver: type invariants, automatic root selection, obligation collection (used by C11, C15, C04)."""
import re, time
from absint import Interp, I, TOP, join, show_val, Budget, norm_ty
from absint_models import Models
from mirlib import view


class Inv:
    """Type invariants of one backend: type string -> abstract value."""

    def __init__(self, F, backend):
        self.F = F
        self.backend = backend   # 'u64' | 'u32'
        self.cache = {}
        if backend == "u64":
            self.fe_adt = [p for p in F.adts if re.search(r"backend::serial::(u64|fiat_u64)::field::FieldElement51$", p)]
            self.sc_adt = [p for p in F.adts if re.search(r"backend::serial::(u64|fiat_u64)::scalar::Scalar52$", p)]
        else:
            self.fe_adt = [p for p in F.adts if re.search(r"backend::serial::(u32|fiat_u32)::field::FieldElement2625$", p)]
            self.sc_adt = [p for p in F.adts if re.search(r"backend::serial::(u32|fiat_u32)::scalar::Scalar29$", p)]
        # limb excess (bits above nominal width) per owning type
        self.FE_BITS = {
            "param": 3.0 if backend == "u64" else 1.75,          # kernel precondition: < 2^54 / b < 1.75
            "curve25519_dalek::edwards::EdwardsPoint": 1.0 if backend == "u64" else 0.01,
            "curve25519_dalek::backend::serial::curve_models::ProjectivePoint": 1.0 if backend == "u64" else 0.01,
            "curve25519_dalek::montgomery::ProjectivePoint": 1.0 if backend == "u64" else 0.01,
            "curve25519_dalek::backend::serial::curve_models::CompletedPoint": 3.0 if backend == "u64" else 1.75,
            "curve25519_dalek::backend::serial::curve_models::ProjectiveNielsPoint": 2.0 if backend == "u64" else 1.6,
            "curve25519_dalek::backend::serial::curve_models::AffineNielsPoint": 2.0 if backend == "u64" else 1.6,
        }

    def fe(self, excess):
        if self.backend == "u64":
            return ("st", (("arr", (I(0, int(2 ** (51 + excess)) - 1),) * 5),))
        return ("st", (("arr", tuple(I(0, int(2 ** ((26 if i % 2 == 0 else 25) + excess)) - 1) for i in range(10))),))

    def scalar_unpacked(self):
        if self.backend == "u64":
            return ("st", (("arr", (I(0, 2**52 - 1),) * 5),))
        return ("st", (("arr", (I(0, 2**29 - 1),) * 9),))

    def value(self, ty, owner="param", depth=0):
        """abstract value of the invariant of type `ty` (None if the type is not supported as a root parameter)"""
        ty0 = ty.strip()
        ty = norm_ty(ty)
        key = (ty0, owner, depth == 0)
        if key in self.cache:
            return self.cache[key]
        v = self._value(ty, owner, depth, ty0)
        self.cache[key] = v
        return v

    def _value(self, ty, owner, depth, ty0=None):
        from absint import INT_TYPES
        ty0 = ty0 or ty
        if ty in INT_TYPES:
            r = INT_TYPES[ty]
            return I(r[0], r[1])
        if self.F.adt_path(ty) != ty and self.F.adt_of(ty) is not None and "<" not in ty:
            ty = self.F.adt_path(ty)
        if re.search(r"backend::vector::ifma::field::F51x4Reduced$", ty):
            # "reduced": every limb below 2^52, the IFMA multiplicand bound (outputs of the reduction are < 2^51 + 2^13 * 19)
            lane = I(0, 2**52 - 1)
            return ("st", (("arr", (("st", (("st", (("arr", (lane,) * 4),)),)),) * 5),))
        if re.search(r"backend::vector::ifma::field::F51x4Unreduced$", ty):
            return None     # no stated bound: analysed in the contexts that produce it
        if re.search(r"backend::vector::avx2::field::FieldElement2625x4$", ty):
            b = {"curve25519_dalek::backend::vector::avx2::edwards::ExtendedPoint": 0.007,
                 "curve25519_dalek::backend::vector::avx2::edwards::CachedPoint": 1.0,
                 # entries of a lookup table are conversions of ExtendedPoints (mul outputs), never negated in place
                 "curve25519_dalek::backend::vector::avx2::edwards::CachedPoint#table": 0.007}.get(owner)
            if b is None:
                return None     # a bare vector field element has no type invariant (bounds are per operation)
            vecs = []
            for k in range(5):
                bits = [26, 25]      # vector k packs limb 2k (26 bits) in lanes 0,1,4,5 and limb 2k+1 (25 bits) in lanes 2,3,6,7
                lim = [I(0, int(2 ** (bits[0] + b)) - 1), I(0, int(2 ** (bits[1] + b)) - 1)]
                lanes = (lim[0], lim[0], lim[1], lim[1], lim[0], lim[0], lim[1], lim[1])
                vecs.append(("st", (("st", (("arr", lanes),)),)))
            return ("st", (("arr", tuple(vecs)),))
        if ty in self.fe_adt:
            return self.fe(self.FE_BITS.get(owner, self.FE_BITS["param"]))
        if ty in self.sc_adt:
            return self.scalar_unpacked()
        if ty == "curve25519_dalek::scalar::Scalar":
            return ("st", (("arr", (I(0, 255),) * 31 + (I(0, 127),)),))
        if ty == "subtle::Choice":
            return ("st", (I(0, 1),))
        m = re.match(r"^\[(.*); ([\w:]+)\]$", ty)
        if m:
            n = self.F.named_len(m.group(2))
            if n is None or n > 4096 or depth > 6:
                return None
            e = self.value(m.group(1), owner, depth + 1)
            return ("arr", (e,) * n) if e is not None else None
        if ty.startswith("(") and ty.endswith(")"):
            from absint import split_top
            parts = [p.strip() for p in split_top(ty[1:-1])]
            if parts == [""]:
                return ("st", ())
            vs = [self.value(p, owner, depth + 1) for p in parts]
            return ("st", tuple(vs)) if all(v is not None for v in vs) else None
        m = re.match(r"^&(mut )?\[([^;]*)\]$", ty0)
        if m and depth == 0:
            e = self.value(m.group(2), owner, depth + 1)
            return ("__coll_slice", e if (e is not None and e[0] != "__coll_slice") else TOP, 2**20)
        if ty0.startswith("&") and depth > 0:
            return TOP      # references nested inside aggregates: opaque
        base = self.F.adt_path(ty)
        a = self.F.adt_of(ty)
        if a is None and "::" in base and not base.startswith("<") and base.split("::")[0] not in self.F.crates:
            return TOP      # ADT of an external crate (ed25519::Signature, pkcs8 documents, digest states): opaque, only reachable through its own API
        mv = re.match(r"^(?:\w+::)*vec::Vec<(.*)>$", ty)
        if mv:
            from absint import split_top
            e = self.value(split_top(mv.group(1))[0].strip(), owner, depth + 1)
            return ("vec", e, 0, 2**20) if e is not None else None
        if a and a["kind"] == "Enum" and depth < 8 and not a.get("n_generics"):
            vs = []
            for vi, var in enumerate(a["variants"]):
                fs = [self.value(f["ty"], owner, depth + 1) for f in var["fields"]]
                if any(x is None for x in fs):
                    return None
                vs.append((vi, tuple(fs)))
            return ("en", tuple(vs))
        if a and a["kind"] == "Struct" and depth < 8:
            targs = []
            mg = re.match(r"^[^<]*<(.*)>$", ty)
            if mg:
                from absint import split_top
                targs = [x.strip() for x in split_top(mg.group(1)) if not x.strip().startswith("'")]
            fs = []
            for f in a["variants"][0]["fields"]:
                fty = f["ty"]
                if targs:
                    # substitute the ADT's single type parameter T (all generic ADTs here have one)
                    fty = re.sub(r"\bT\b", targs[0], fty)
                own = base if (base in self.FE_BITS or base.endswith("avx2::edwards::ExtendedPoint") or base.endswith("avx2::edwards::CachedPoint")) else owner
                if base.endswith("avx2::edwards::CachedPoint") and owner == "#table":
                    own = base + "#table"
                if re.search(r"window::(Naf)?LookupTable\w*$", base):
                    own = "#table"
                v = self.value(fty, own, depth + 1)
                if v is None:
                    return None
                fs.append(v)
            return ("st", tuple(fs))
        return None


def within(v, inv):
    """is abstract value v contained in invariant value inv?  returns (bool, description of the first excess)"""
    if inv is None or inv[0] == "top":
        return True, ""
    if v is None or v[0] == "top":
        return False, "value unknown (TOP)"
    if v[0] == "cref":
        v = v[1]
    if inv[0] == "i":
        if v[0] != "i":
            return False, "not an integer"
        if v[1] >= inv[1] and v[2] <= inv[2]:
            return True, ""
        return False, "%s not within %s" % (show_val(v), show_val(inv))
    if inv[0] in ("arr", "st"):
        if v[0] != inv[0] or len(v[1]) != len(inv[1]):
            return False, "shape mismatch"
        for i, (x, y) in enumerate(zip(v[1], inv[1])):
            ok, why = within(x, y)
            if not ok:
                return False, "[%d] %s" % (i, why)
        return True, ""
    return True, ""


def excess_bits(v, backend):
    """max log2(limb / nominal) over all field-element-shaped arrays inside v (for evidence)"""
    import math
    best = -99.0

    def walk(x):
        nonlocal best
        if not isinstance(x, tuple) or not x:
            return
        if x[0] == "arr" and all(e[0] == "i" for e in x[1]) and len(x[1]) in (5, 10):
            for i, e in enumerate(x[1]):
                nominal = 51 if len(x[1]) == 5 else (26 if i % 2 == 0 else 25)
                if e[2] > 0:
                    best = max(best, math.log2(e[2] + 1) - nominal)
        elif x[0] in ("arr", "st"):
            for e in x[1]:
                walk(e)
    walk(v)
    return best


class Driver:
    root_time_limit = 900       # seconds of wall clock per analysis root; exceeding it is reported as "analysis did not complete" (fails closed)

    def __init__(self, F, backend, budget=40_000_000):
        self.F = F
        self.backend = backend
        self.inv = Inv(F, backend)
        self.ip = Interp(F, Models(), step_budget=budget)
        self.ip.assumed_post = self.assumed_postconditions()
        self.roots_run = []
        self.ret_obl = []     # (fn, ok, why)
        self.skipped = []
        self.errors = []

    def assumed_postconditions(self):
        """A1: the result of the final conditional subtraction in Scalar52/29::sub is < l (relational fact outside the
        interval domain): its top limb is below l >> (limb_bits * (n-1))."""
        L = 2**252 + 27742317777372353535851937790883648493
        if self.backend == "u64":
            top = L >> 208
            bound = ("st", (("arr", (I(0, 2**52 - 1),) * 4 + (I(0, top),)),))
            rx = r"backend::serial::(u64|fiat_u64)::scalar::Scalar52::sub$"
        else:
            top = L >> (29 * 8)
            bound = ("st", (("arr", (I(0, 2**29 - 1),) * 8 + (I(0, top),)),))
            rx = r"backend::serial::(u32|fiat_u32)::scalar::Scalar29::sub$"
        out = [(re.compile(rx), bound, "A1: Scalar::sub result < l")]
        if self.backend == "u32":
            # A2: the 17 outputs of the Karatsuba Scalar29::mul_internal / square_internal are the true column sums
            # sum_{i+j=k} a_i*b_j (the wrapping intermediates cancel); bounded from the actual argument intervals
            def cols(ip, st, args):
                a = ip.deref_val(st, args[0])
                b = ip.deref_val(st, args[1]) if len(args) > 1 else a
                try:
                    al = [x for x in a[1][0][1]]
                    bl = [x for x in b[1][0][1]]
                    out = []
                    for k in range(17):
                        lo = hi = 0
                        for i in range(9):
                            j = k - i
                            if 0 <= j < 9:
                                lo += al[i][1] * bl[j][1]
                                hi += al[i][2] * bl[j][2]
                        out.append(I(lo, hi))
                    return ("arr", tuple(out))
                except (IndexError, TypeError):
                    return ("arr", tuple(I(0, min(k + 1, 17 - k) * (2**29 - 1) ** 2) for k in range(17)))
            out.append((re.compile(r"backend::serial::(u32|fiat_u32)::scalar::Scalar29::(mul_internal|square_internal)$"), cols,
                        "A2: Scalar29 Karatsuba column sums are the true sums of products of the argument limbs"))
        return out

    def root_candidates(self, module_rx, exclude_rx=None, exported_only=True):
        out = []
        for f in self.F.fns.values():
            if "mir" not in f or f["kind"] == "Closure" or f.get("derived") or f["crate"] != "curve25519_dalek" or (exported_only and not f.get("exported")):
                continue
            if not re.search(module_rx, f["key"]):
                continue
            if exclude_rx and re.search(exclude_rx, f["key"] + "|" + f["path"]):
                continue
            out.append(f)
        return out

    # ------------------------------------------------------------------ abstract collections for generic / slice parameters
    def coll_iter(self, elem, n_hi=2**20):
        """marker value: the driver materialises a vector summary in the root frame and passes a slice iterator over it"""
        return ("__coll_iter", elem, n_hi)

    def coll_slice(self, elem, n_hi=2**20):
        return ("__coll_slice", elem, n_hi)

    def generic_overrides(self, f):
        """parameter values for the generic / slice-taking public functions (A3: abstract collections of invariant-satisfying elements)"""
        p = f["path"]
        inv = self.inv
        EP, RP, SC = "curve25519_dalek::edwards::EdwardsPoint", "curve25519_dalek::ristretto::RistrettoPoint", "curve25519_dalek::scalar::Scalar"
        ep, rp, sc = inv.value(EP), inv.value(RP), inv.value(SC)
        tr = f.get("trait") or ""
        nm = f.get("name")
        st = f.get("self_ty") or ""
        if p.endswith("RistrettoPoint::double_and_compress_batch"):
            return {0: self.coll_iter(rp)}
        if not getattr(self, "all_generic_roots", True):
            if p.endswith("MontgomeryPoint::mul_bits_be"):
                return {1: self.coll_iter(I(0, 1), 300)}
            return None
        if nm == "multiscalar_mul" and tr.endswith("traits::MultiscalarMul"):
            pt = rp if "Ristretto" in st else ep
            return {0: self.coll_iter(sc), 1: self.coll_iter(pt)}
        if nm == "optional_multiscalar_mul" and tr.endswith("traits::VartimeMultiscalarMul"):
            pt = rp if "Ristretto" in st else ep
            opt = ("en", ((0, ()), (1, (pt,))))
            return {0: self.coll_iter(sc), 1: ("__coll_vals", opt, 2**20)}
        if nm == "optional_mixed_multiscalar_mul" and tr.endswith("traits::VartimePrecomputedMultiscalarMul"):
            opt = ("en", ((0, ()), (1, (rp if "Ristretto" in st else ep,))))
            selfv = inv.value(f["mir"]["locals"][1]["ty"])
            return {0: selfv if selfv is not None else TOP, 1: self.coll_iter(sc), 2: self.coll_iter(sc), 3: ("__coll_vals", opt, 2**20)}
        if nm in ("sum", "product") and re.search(r"iter::(Sum|Product)<T>$", tr):
            el = inv.value(st) or (sc if st.endswith("Scalar") else (rp if "Ristretto" in st else ep))
            return {0: self.coll_iter(el)}
        if p.endswith("scalar::Scalar::batch_invert"):
            return {0: self.coll_slice(sc)}
        if p.endswith("MontgomeryPoint::mul_bits_be"):
            return {1: self.coll_iter(I(0, 1), 300)}
        return None

    def run_root(self, f, overrides=None, check_ret=True, tyenv=None):
        fv = view(self.F, f)
        if tyenv is None and f.get("in_trait") and (f.get("generics") or [None])[0] == "Self":
            # provided (default) trait method: analysed once per implementing type
            impls = sorted({norm_ty(i["self_ty"]) for i in self.F.impls if i.get("trait") == f["in_trait"] and i.get("self_ty")})
            r = None
            for T in impls:
                r = self.run_root(f, overrides, check_ret, {"Self": T})
            if impls:
                return r
        if overrides is None:
            overrides = self.generic_overrides(f)
        vals = []
        from absint import subst_ty
        for i in range(fv.nargs):
            ty = subst_ty(fv.locals[i + 1]["ty"], tyenv)
            v = None
            if overrides and i in overrides:
                v = overrides[i]
            else:
                v = self.inv.value(ty)
            if v is None:
                self.skipped.append((f, "parameter %d of type %s has no invariant" % (i + 1, ty)))
                return None
            vals.append(v)
        t0 = time.time()
        self.ip.deadline = t0 + self.root_time_limit
        try:
            ret, root = self.ip.run_root(f, vals, colls=True, tyenv=tyenv)
        except Budget as e:
            self.errors.append((f, "budget: %s" % e))
            return None
        except RecursionError:
            self.errors.append((f, "recursion limit"))
            return None
        for c in getattr(self.ip, "cutoffs", []):
            self.errors.append((f, "call depth cut-off at %s" % c))
        self.ip.cutoffs = []
        self.roots_run.append((f, time.time() - t0))
        # invariant of the returned value and of values written through &mut parameters
        out_ty = f.get("output") or fv.locals[0]["ty"]
        inv = self.inv.value(out_ty, owner="ret") if not re.search(r"\bSelf\b", out_ty) else None
        if not check_ret:
            return ret
        if inv is not None and ret is not None and ret[0] not in ("ref", "sl", "cref"):
            ok, why = within(ret, self.ret_inv(out_ty))
            self.ret_obl.append((f, "return", ok, why, ret))
        for i in range(fv.nargs):
            ty = fv.locals[i + 1]["ty"]
            if ty.startswith("&mut") and i in root:
                iv = self.ret_inv(ty)
                if iv is not None:
                    ok, why = within(root[i], iv)
                    self.ret_obl.append((f, "mut-param-%d" % (i + 1), ok, why, root[i]))
        return ret

    def ret_inv(self, ty):
        """invariant a produced value must satisfy: the type invariant with bare field elements held to the *point* bound
        (a function returning a FieldElement promises a reduced element: < 2^52 / b < 0.5... we use the kernel bound for bare FEs)"""
        return self.inv.value(ty)
