"""ABSINT: interval abstract interpretation of MIR (checked mode).

Path-following executor over one abstract state: determinate branches are followed (loops with concrete trip
counts unroll themselves, with strong updates); an indeterminate branch forks, both arms run to the branch's
immediate post-dominator and are joined there; a loop whose exit test is indeterminate is iterated on its header
with join + widening.  Local callees are executed with the actual abstract arguments (memoised); library callees
use models (absint_models.py); anything else yields TOP and is counted.

Values (immutable tuples):
  ('i', lo, hi)            integer / bool / char
  ('arr', (v0..vn-1))      array with per-element values
  ('st', (f0..fk-1))       struct / tuple (positional fields)
  ('en', ((variant, fields_tuple), ...))   enum: the possible variants with payload
  ('ref', depth, local, path)   reference into frame `depth`; path = tuple of steps ('f',i) | ('i',k) | ('v',variant)
  ('sl', depth, local, path, off_lo, off_hi, len_lo, len_hi)  slice view into an array / vec place
  ('vec', elem, len_lo, len_hi)   growable vector summarised by one element value + length interval
  ('clo', key, captures)   closure
  ('fnp', name)            function item
  ('it', kind, ...)        modelled iterator
  ('top',)                 unknown
"""
import re, os, time, sys
from mirlib import view, cname, cpath
from pathlib2 import lookup_callee

sys.setrecursionlimit(20000)

TOP = ("top",)
WATCH = set((__import__("os").environ.get("ABSINT_WATCH") or "").split(",")) - {""}
INT_TYPES = {
    "u8": (0, 2**8 - 1), "u16": (0, 2**16 - 1), "u32": (0, 2**32 - 1), "u64": (0, 2**64 - 1), "u128": (0, 2**128 - 1), "usize": (0, 2**64 - 1),
    "i8": (-2**7, 2**7 - 1), "i16": (-2**15, 2**15 - 1), "i32": (-2**31, 2**31 - 1), "i64": (-2**63, 2**63 - 1), "i128": (-2**127, 2**127 - 1), "isize": (-2**63, 2**63 - 1),
    "bool": (0, 1), "char": (0, 0x10ffff),
}
BITS = {"u8": 8, "u16": 16, "u32": 32, "u64": 64, "u128": 128, "usize": 64, "i8": 8, "i16": 16, "i32": 32, "i64": 64, "i128": 128, "isize": 64, "bool": 1, "char": 32}


def I(lo, hi=None):
    return ("i", lo, lo if hi is None else hi)


def is_int(v):
    return v[0] == "i"


def ty_range(ty):
    return INT_TYPES.get(ty)


def top_of(ty):
    r = INT_TYPES.get(ty)
    if r:
        return ("i", r[0], r[1])
    return TOP


class Unproved(Exception):
    pass


class Budget(Exception):
    pass


def join(a, b):
    if a == b:
        return a
    if a is None:
        return b
    if b is None:
        return a
    if a[0] != b[0]:
        return TOP
    k = a[0]
    if k == "i":
        return ("i", min(a[1], b[1]), max(a[2], b[2]))
    if k in ("arr", "st"):
        if len(a[1]) != len(b[1]):
            if k == "arr" and {len(a[1]), len(b[1])} == {4, 8}:
                a, b = _lanes8(a), _lanes8(b)       # the two lane views of one 256-bit vector
                if a is None or b is None:
                    return TOP
            else:
                return TOP
        return (k, tuple(join(x, y) for x, y in zip(a[1], b[1])))
    if k == "en":
        d = {}
        for v, fs in a[1] + b[1]:
            if v in d:
                d[v] = tuple(join(x, y) for x, y in zip(d[v], fs)) if len(d[v]) == len(fs) else tuple(TOP for _ in fs)
            else:
                d[v] = fs
        return ("en", tuple(sorted(d.items())))
    if k == "vec":
        return ("vec", join(a[1], b[1]), min(a[2], b[2]), max(a[3], b[3]))
    if k == "sl":
        if a[1:4] == b[1:4]:
            return ("sl",) + a[1:4] + (min(a[4], b[4]), max(a[5], b[5]), min(a[6], b[6]), max(a[7], b[7]))
        return TOP
    if k == "it":
        if a[1] == b[1] and len(a) == len(b):
            return ("it", a[1]) + tuple(join(x, y) if isinstance(x, tuple) and isinstance(y, tuple) and x and isinstance(x[0], str) else (x if x == y else None) for x, y in zip(a[2:], b[2:]))
        return TOP
    if k == "clo":
        if a[1] == b[1] and len(a[2]) == len(b[2]):
            return ("clo", a[1], tuple(join(x, y) for x, y in zip(a[2], b[2])))
        return TOP
    return TOP


def _lanes8(v):
    """u32-lane view of a 256-bit vector held as 4 u64 lanes (or 8 u32 lanes); None if the elements are not integers"""
    if any(x[0] != "i" for x in v[1]):
        return None
    if len(v[1]) == 8:
        return v
    out = []
    for x in v[1]:
        lo, hi = x[1], x[2]
        if lo < 0 or hi >= 1 << 64:
            return None
        if (lo >> 32) == (hi >> 32):
            out += [("i", lo & 0xFFFFFFFF, hi & 0xFFFFFFFF), ("i", lo >> 32, lo >> 32)]
        else:
            out += [("i", 0, 0xFFFFFFFF), ("i", lo >> 32, hi >> 32)]
    return ("arr", tuple(out))


def meet(a, b):
    """greatest lower bound on the integer leaves (shape taken from a)"""
    if a is None or a[0] == "top":
        return b
    if b is None or b[0] == "top":
        return a
    if a[0] == "i" and b[0] == "i":
        lo, hi = max(a[1], b[1]), min(a[2], b[2])
        return ("i", lo, hi) if lo <= hi else a
    if a[0] in ("arr", "st") and b[0] == a[0] and len(a[1]) == len(b[1]):
        return (a[0], tuple(meet(x, y) for x, y in zip(a[1], b[1])))
    return a


def widen(old, new, ty_hint=None):
    """old ⊔ new with jumps to thresholds for integers that are still growing"""
    if old == new or new is None:
        return old
    if old is None:
        return new
    if old[0] != new[0]:
        return TOP
    k = old[0]
    if k == "i":
        lo, hi = old[1], old[2]
        if new[1] < lo:
            lo = _thr_down(new[1])
        if new[2] > hi:
            hi = _thr_up(new[2])
        return ("i", lo, hi)
    if k in ("arr", "st"):
        if len(old[1]) != len(new[1]):
            if k == "arr" and {len(old[1]), len(new[1])} == {4, 8}:
                old, new = _lanes8(old), _lanes8(new)
                if old is None or new is None:
                    return TOP
            else:
                return TOP
        return (k, tuple(widen(x, y) for x, y in zip(old[1], new[1])))
    if k == "it" and old[1] == new[1] and len(old) == len(new):
        out = ["it", old[1]]
        for x, y in zip(old[2:], new[2:]):
            if isinstance(x, tuple) and isinstance(y, tuple) and x and y and isinstance(x[0], str) and isinstance(y[0], str):
                out.append(widen(x, y))
            else:
                out.append(x if x == y else None)
        return tuple(out)
    if k == "en":
        j = join(old, new)
        if j[0] != "en":
            return j
        od = dict(old[1])
        out = []
        for var, fs in j[1]:
            if var in od and len(od[var]) == len(fs):
                out.append((var, tuple(widen(a, b) for a, b in zip(od[var], fs))))
            else:
                out.append((var, fs))
        return ("en", tuple(out))
    if k == "vec":
        j = join(old, new)
        # a vector that is still growing (push in a loop): its length jumps straight to the maximum the summaries use - walking the thresholds
        # one per round can exhaust the round limit together with the element's own widening
        return ("vec", widen(old[1], j[1]) if old[1] is not None and j[1] is not None else j[1], j[2], max(j[3], 2**32) if j[3] > old[3] else j[3])
    return join(old, new)


_THR = [0, 1, 2, 8, 16, 64, 128, 255, 256, 512, 1024, 2**15, 2**16, 2**31, 2**32, 2**63, 2**64, 2**127, 2**128]


def _thr_up(x):
    for t in _THR:
        if x <= t:
            return t
    return x


def _thr_down(x):
    for t in _THR:
        if -t <= x:
            return -t
    return x


class State:
    __slots__ = ("frames",)

    def __init__(self, frames=None):
        self.frames = frames if frames is not None else []

    def copy(self):
        return State([dict(f) for f in self.frames])

    def join_with(self, other):
        out = []
        for fa, fb in zip(self.frames, other.frames):
            d = {}
            for k in fa.keys() | fb.keys():
                if isinstance(k, tuple):
                    # named root-frame slots (materialised parameters, interned constants, fresh referents): present on one side only
                    # means "not created on the other path"; present on both sides with different contents (written through a &mut) joins
                    d[k] = (fa[k] if fa[k] == fb[k] else join(fa[k], fb[k])) if (k in fa and k in fb) else (fa.get(k) if k in fa else fb.get(k))
                elif isinstance(k, str):
                    if k == "__focus":
                        if k in fa and k in fb:
                            keep = tuple(x for x in fa[k] if x in fb[k])
                            if keep:
                                d[k] = keep
                    elif k in ("__ty", "__fv"):
                        d[k] = fa.get(k, fb.get(k))
                    elif k == "__odd":
                        if k in fa and k in fb and (fa[k] & fb[k]):
                            d[k] = fa[k] & fb[k]
                else:
                    d[k] = join(fa.get(k), fb.get(k)) if (k in fa and k in fb) else TOP
            out.append(d)
        return State(out)

    def widen_with(self, other):
        out = []
        for fa, fb in zip(self.frames, other.frames):
            d = {}
            for k in fa.keys() | fb.keys():
                if isinstance(k, tuple):
                    d[k] = fa.get(k) if k in fa else fb.get(k)
                elif isinstance(k, str):
                    if k in ("__ty", "__fv"):
                        d[k] = fa.get(k, fb.get(k))
                else:
                    d[k] = widen(fa.get(k), fb.get(k)) if (k in fa and k in fb) else TOP
            out.append(d)
        return State(out)

    def same(self, other):
        return self.frames == other.frames


class Obligation:
    __slots__ = ("fn", "kind", "detail", "loc", "ok", "why")

    def __init__(self, fn, kind, detail, loc, ok, why=""):
        self.fn, self.kind, self.detail, self.loc, self.ok, self.why = fn, kind, detail, loc, ok, why


class Interp:
    def __init__(self, F, models=None, step_budget=30_000_000):
        self.F = F
        self.models = models
        self.obl = {}            # (fn key, kind, detail) -> Obligation (ok = AND over all evaluations)
        self.memo = {}
        self.steps = 0
        self.budget = step_budget
        self.deadline = None        # optional wall-clock limit (time.time() value) for the current root, set by the drivers
        self.unmodelled = {}
        self.visited = set()      # keys of functions whose body was executed at least once
        self.site_ok = {}         # (fn key, line) -> AND of the obligations recorded at that source line
        self.call_depth = 0
        self.notes = []
        self._ipd = {}
        self._loops = {}

    # ------------------------------------------------------------------ obligations
    def record(self, fv, kind, detail, line, ok, why=""):
        key = (fv.f["key"], kind, detail)
        sk = (fv.f["key"], line)
        self.site_ok[sk] = self.site_ok.get(sk, True) and ok
        o = self.obl.get(key)
        if o is None:
            self.obl[key] = Obligation(fv.f, kind, detail, fv.loc(line), ok, why + ((" [root: %s]" % getattr(self, "current_root", "?")) if not ok else ""))
        elif not ok and o.ok:
            o.ok = False
            o.why = why + " [root: %s]" % getattr(self, "current_root", "?")
            o.loc = fv.loc(line)

    # ------------------------------------------------------------------ type helpers
    def default_value(self, ty, depth=0):
        """most general value of a type (used for TOP materialisation of structured types)"""
        r = INT_TYPES.get(ty)
        if r:
            return ("i", r[0], r[1])
        m = re.match(r"^\[(.*); ([\w:]+)\]$", ty)
        if m and depth < 4:
            n = self.F.named_len(m.group(2))
            if n is not None and n <= 512:
                e = self.default_value(m.group(1), depth + 1)
                return ("arr", (e,) * n)
        if ty.startswith("(") and ty.endswith(")") and depth < 4:
            parts = split_top(ty[1:-1])
            if parts != [""]:
                return ("st", tuple(self.default_value(p.strip(), depth + 1) for p in parts))
        m = re.match(r"^core::(result::Result|option::Option|ops::ControlFlow)<(.*)>$", ty)
        if m and depth < 4:
            parts = [p.strip() for p in split_top(m.group(2))]
            if m.group(1) == "option::Option" and len(parts) == 1:
                return ("en", ((0, ()), (1, (self.default_value(parts[0], depth + 1),))))
            if m.group(1) == "result::Result" and len(parts) == 2:
                return ("en", ((0, (self.default_value(parts[0], depth + 1),)), (1, (self.default_value(parts[1], depth + 1),))))
        m = re.match(r"^(?:\w+::)*generic_array::GenericArray<(.*)>$", ty)
        if m and depth < 4:
            parts = split_top(m.group(1))
            n = typenum_value(parts[1].strip()) if len(parts) == 2 else None
            if n is not None and n <= 512:
                return ("arr", (self.default_value(parts[0].strip(), depth + 1),) * n)
        a = self.F.adt_of(ty)
        if a and a["kind"] == "Struct" and depth < 4 and a.get("n_generics", 0) == 0:
            return ("st", tuple(self.default_value(f["ty"], depth + 1) for f in a["variants"][0]["fields"]))
        return TOP

    # ------------------------------------------------------------------ places
    def read_path(self, v, path, ty_hint=None):
        for step in path:
            if v is None or v[0] == "top":
                return TOP
            if step[0] == "f":
                if v[0] == "st":
                    v = v[1][step[1]] if step[1] < len(v[1]) else TOP
                elif v[0] == "en" and len(v[1]) == 1:
                    fs = v[1][0][1]
                    v = fs[step[1]] if step[1] < len(fs) else TOP
                elif v[0] == "clo":
                    v = v[2][step[1]] if step[1] < len(v[2]) else TOP
                else:
                    return TOP
            elif step[0] == "i":
                if v[0] == "arr":
                    k = step[1]
                    if isinstance(k, int):
                        v = v[1][k] if 0 <= k < len(v[1]) else TOP
                    else:
                        lo, hi = k
                        lo, hi = max(lo, 0), min(hi, len(v[1]) - 1)
                        r = None
                        for j in range(lo, hi + 1):
                            r = join(r, v[1][j])
                        v = r if r is not None else TOP
                elif v[0] == "vec":
                    v = v[1]
                else:
                    return TOP
            elif step[0] == "v":
                if v[0] == "en":
                    c = [fs for var, fs in v[1] if var == step[1]]
                    v = ("st", c[0]) if c else TOP
                else:
                    return TOP
        return v if v is not None else TOP

    def write_path(self, v, path, new, weak=False):
        if not path:
            return join(v, new) if weak and v is not None else new
        step = path[0]
        if v is None or v[0] == "top":
            return TOP
        if step[0] == "f":
            if v[0] == "st" and step[1] < len(v[1]):
                fs = list(v[1])
                fs[step[1]] = self.write_path(fs[step[1]], path[1:], new, weak)
                return ("st", tuple(fs))
            if v[0] == "en" and len(v[1]) == 1:
                var, fs = v[1][0]
                fs = list(fs)
                if step[1] < len(fs):
                    fs[step[1]] = self.write_path(fs[step[1]], path[1:], new, weak)
                return ("en", ((var, tuple(fs)),))
            return TOP
        if step[0] == "i":
            if v[0] == "arr":
                k = step[1]
                es = list(v[1])
                if isinstance(k, int):
                    if 0 <= k < len(es):
                        es[k] = self.write_path(es[k], path[1:], new, weak)
                else:
                    lo, hi = max(k[0], 0), min(k[1], len(es) - 1)
                    for j in range(lo, hi + 1):
                        es[j] = self.write_path(es[j], path[1:], new, weak=(lo != hi) or weak)
                return ("arr", tuple(es))
            if v[0] == "vec":
                return ("vec", self.write_path(v[1], path[1:], new, weak=True), v[2], v[3])
            return TOP
        if step[0] == "v":
            if v[0] == "en":
                out = []
                for var, fs in v[1]:
                    if var == step[1]:
                        st = self.write_path(("st", fs), path[1:], new, weak or len(v[1]) > 1)
                        fs = st[1] if st[0] == "st" else fs
                    out.append((var, fs))
                return ("en", tuple(out))
            return TOP
        return TOP

    def resolve_place(self, st, depth, pl):
        """MIR place -> (depth, local, path) after following derefs; returns None if it goes through TOP"""
        base, proj = pl
        d, l, path = depth, base, ()
        for e in proj:
            if e == "*":
                v = self.read_path(st.frames[d].get(l, TOP), path)
                if v[0] == "ref":
                    d, l, path = v[1], v[2], v[3]
                elif v[0] == "sl":
                    d, l, path = v[1], v[2], v[3] + (("off", v[4], v[5], v[6], v[7]),)
                elif v[0] == "cref":
                    r = self.intern_const(st, v[1])     # a reference to a constant: the constant lives in the root frame
                    d, l, path = r[1], r[2], r[3]
                else:
                    return None
            elif e[0] == "f":
                path = path + (("f", e[1]),)
            elif e[0] == "i":
                iv = st.frames[depth].get(e[1], TOP)
                path = path + (("i", self.idx_of(iv)),)
            elif e[0] == "ci":
                path = path + (("i", e[1]),) if not e[3] else path + (("i", (0, 10**9)),)
            elif e[0] == "dc":
                path = path + (("v", e[1]),)
            elif e[0] == "sub":
                path = path + (("i", (0, 10**9)),)
            else:
                return None
        # fold slice offsets into the following index step
        out = []
        off = None
        for s in path:
            if s[0] == "off":
                off = s
                continue
            if s[0] == "i" and off is not None:
                k = s[1]
                if isinstance(k, int):
                    k = (k, k)
                lo, hi = k[0] + off[1], k[1] + off[2]
                out.append(("i", lo if lo == hi else (lo, hi)))
                off = None
            else:
                out.append(s)
        return d, l, tuple(out)

    def idx_of(self, iv):
        if iv[0] == "i":
            return iv[1] if iv[1] == iv[2] else (iv[1], iv[2])
        return (0, 10**9)

    def copy_source(self, fv, l):
        """the local that `l` is a plain copy of (single definition `l = copy x`), else l"""
        ds = fv.defs.get(l, [])
        if len(ds) == 1 and ds[0].kind == "assign" and not ds[0].proj and ds[0].rv[0] == "use" and ds[0].rv[1][0] in ("c", "m") and not ds[0].rv[1][1][1]:
            return ds[0].rv[1][1][0]
        return l

    def read_place(self, st, depth, pl):
        foc = st.frames[depth].get("__focus")
        if foc:
            key = self.focus_key(st.frames[depth].get("__fv"), pl)
            hit = dict(foc).get(key) if key is not None else None
            if hit is not None:
                return hit
        r = self.resolve_place(st, depth, pl)
        if r is None:
            return TOP
        d, l, path = r
        if getattr(self, "read_log", None) is not None and pl[1]:
            self.log_index(self.read_log, st, depth, pl, path)
            if (d, l) != (depth, pl[0]) and isinstance(l, int):
                # the place goes through a reference (an iterator item `*digit`, a `&digits[..n]` slice): the element read belongs to the array the
                # reference points into, which may live in a caller's frame
                stack = getattr(self, "fn_stack", None) or []
                off = len(st.frames) - len(stack)           # frames below the first function frame hold the root's parameters / interned constants
                fd = stack[d - off] if 0 <= d - off < len(stack) else None
                if fd is not None:
                    for stp in path:
                        if stp[0] == "i":
                            k = stp[1]
                            lo, hi = (k, k) if isinstance(k, int) else k
                            self.read_log.setdefault((fd["key"], l), []).append((lo, hi))
                            break
        return self.read_path(st.frames[d].get(l, TOP), path)

    def focus_key(self, fv, pl):
        """key of an element place `arr[i]` or `(*p)[i]` whose value was narrowed by a comparison (valid until arr / p / i is reassigned)"""
        pr = pl[1]
        cs = (lambda l: self.copy_source(fv, l)) if fv is not None else (lambda l: l)
        if len(pr) == 1 and isinstance(pr[0], list) and pr[0][0] == "i":
            return (pl[0], cs(pr[0][1]))
        if len(pr) == 2 and pr[0] == "*" and isinstance(pr[1], list) and pr[1][0] == "i":
            return (pl[0], "*", cs(pr[1][1]))
        return None

    def log_index(self, log, st, depth, pl, path):
        """may-access log: (function key, base local) -> list of (lo, hi) index intervals of element accesses"""
        if depth != len(st.frames) - 1 or not getattr(self, "fn_stack", None):
            return
        for stp in path:
            if stp[0] == "i":
                k = stp[1]
                lo, hi = (k, k) if isinstance(k, int) else k
                log.setdefault((self.fn_stack[-1]["key"], pl[0]), []).append((lo, hi))
                return

    def write_place(self, st, depth, pl, val):
        r = self.resolve_place(st, depth, pl)
        if r is None:
            return
        d, l, path = r
        if getattr(self, "store_log", None) is not None and pl[1]:
            self.log_index(self.store_log, st, depth, pl, path)
            if (d, l) != (depth, pl[0]) and isinstance(l, int):
                # a store through a reference (`digits[0] = ..` on a chunk, `*digit = ..` on an iter_mut item): the element written belongs to the
                # array the reference points into
                stack = getattr(self, "fn_stack", None) or []
                off = len(st.frames) - len(stack)
                fd = stack[d - off] if 0 <= d - off < len(stack) else None
                if fd is not None:
                    for stp in path:
                        if stp[0] == "i":
                            k = stp[1]
                            lo, hi = (k, k) if isinstance(k, int) else k
                            self.store_log.setdefault((fd["key"], l), []).append((lo, hi))
                            break
        cur = st.frames[d].get(l)
        if path and (cur is None or cur[0] == "top"):
            fv = None
            cur = TOP
        st.frames[d][l] = self.write_path(cur, path, val)

    # ------------------------------------------------------------------ operands / rvalues
    def operand(self, st, depth, fv, o):
        if o[0] == "k":
            if o[1].get("param"):
                # a const generic parameter used as a value: looked up in the frame's type environment ("#<value>")
                env = dict(st.frames[depth].get("__ty", ()))
                g = env.get(str(o[1]["param"]).split("::")[-1], "")
                if isinstance(g, str) and g.startswith("#") and g[1:].lstrip("-").isdigit():
                    return I(int(g[1:]))
                return top_of(o[1].get("ty", ""))
            v = self.constant(o[1])
            if v[0] == "cref":
                return self.intern_const(st, v[1])
            return v
        v = self.read_place(st, depth, o[1])
        if v[0] == "top":
            # materialise by type when the place is a bare local of integer type
            if not o[1][1]:
                t = top_of(fv.locals[o[1][0]]["ty"])
                return t
        elif v[0] in ("ref", "sl") and not o[1][1] and fv.locals[o[1][0]]["ty"] in INT_TYPES:
            # a scalar-typed local that holds a reference (an abstract collection handed out `&item` where the item type is the scalar itself): the value
            # is the referent if it is a scalar, else any value of the type
            tv = self.deref_val(st, v) if v[0] == "ref" else TOP
            return tv if tv[0] == "i" else top_of(fv.locals[o[1][0]]["ty"])
        return v

    def intern_const(self, st, val):
        """constants that are taken by reference live in the root frame under a key derived from their value"""
        if val[0] == "cref":
            val = self.intern_const(st, val[1])     # a reference to a reference (`&&T` constants): the inner referent is interned first
        key = ("k", hash(val))
        if key not in st.frames[0]:
            st.frames[0][key] = val
        return ("ref", 0, key, ())

    def constant(self, k):
        if "fn" in k:
            return ("fnp", k["fn"], k.get("fn_resolved_key") or k.get("fn_key"))
        v = k.get("v")
        if v is None and k.get("def") and k["def"] in self.F.const_by_path:
            v = self.F.const_by_path[k["def"]][0].get("value")
        return self.from_json(v, k.get("ty", ""))

    def wrap_for_type(self, val, have_ty, want_ty, depth=0):
        """a static reinterpreted through a pointer cast as a single-field newtype around its own type"""
        if depth > 3 or not have_ty or not want_ty:
            return val
        have_ty, want_ty = norm_ty(have_ty), norm_ty(want_ty)
        if have_ty == want_ty:
            return val
        a = self.F.adt_of(want_ty)
        if a and a["kind"] == "Struct" and len(a["variants"][0]["fields"]) == 1:
            inner = self.wrap_for_type(val, have_ty, a["variants"][0]["fields"][0]["ty"], depth + 1)
            return ("st", (inner,))
        return val

    def from_json(self, v, ty=""):
        if isinstance(v, bool):
            return I(int(v))
        if isinstance(v, int):
            return I(v)
        if isinstance(v, list):
            return ("arr", tuple(self.from_json(x) for x in v))
        if isinstance(v, dict):
            if "adt" in v:
                if v["adt"] == "core::arch::x86_64::__m256i":
                    # vector constants are decoded as 4 u64 words: keep them in the exact u32-lane view (joins of packed words lose the lanes)
                    ws = list(v["f"].values())[0]
                    if isinstance(ws, list) and len(ws) == 4 and all(isinstance(w, int) for w in ws):
                        lanes = []
                        for w in ws:
                            w &= (1 << 64) - 1
                            lanes += [I(w & 0xFFFFFFFF), I(w >> 32)]
                        return ("st", (("arr", tuple(lanes)),))
                return ("st", tuple(self.from_json(x) for x in v["f"].values()))
            if "ref" in v:
                # reference to constant data: keep the value (reads through refs to consts are by value)
                return ("cref", self.from_json(v["ref"]))
            if "ref_slice" in v:
                return ("cref", ("arr", tuple(self.from_json(x) for x in v["ref_slice"])))
            if "zst" in v:
                return ("st", ())
            if "static" in v:
                c = self.F.const_by_path.get(v["static"])
                if c and "value" in c[0]:
                    inner = self.from_json(c[0]["value"], c[0].get("ty", ""))
                    want = re.sub(r"^&('\w+ )?(mut )?", "", ty) if ty.startswith("&") else None
                    if want:
                        inner = self.wrap_for_type(inner, c[0].get("ty"), want)
                    return ("cref", inner)
            if "enum" in v and "variant" in v:
                return TOP
        return TOP

    # ------------------------------------------------------------------ arithmetic
    def binop(self, op, a, b, ty, fv=None, line=0):
        """returns value; for *WithOverflow returns ('st', (value, flag))"""
        if a[0] != "i" or b[0] != "i":
            if op in ("Eq", "Ne", "Lt", "Le", "Gt", "Ge"):
                return I(0, 1)
            if op.endswith("WithOverflow"):
                return ("st", (top_of(ty), I(0, 1)))
            return top_of(ty)
        rng = INT_TYPES.get(ty) or (-(2**200), 2**200)
        bits = BITS.get(ty, 64)
        alo, ahi, blo, bhi = a[1], a[2], b[1], b[2]
        with_of = op.endswith("WithOverflow")
        base = op.replace("WithOverflow", "").replace("Unchecked", "")
        if base in ("Add", "Sub", "Mul"):
            if base == "Add":
                lo, hi = alo + blo, ahi + bhi
            elif base == "Sub":
                lo, hi = alo - bhi, ahi - blo
            else:
                c = (alo * blo, alo * bhi, ahi * blo, ahi * bhi)
                lo, hi = min(c), max(c)
            fits = rng[0] <= lo and hi <= rng[1]
            never = hi < rng[0] or lo > rng[1]
            if with_of:
                flag = I(0) if fits else (I(1) if never else I(0, 1))
                val = I(max(lo, rng[0]), min(hi, rng[1])) if not never else top_of(ty)
                if not fits and not never:
                    # value on the non-overflowing continuation
                    val = I(max(lo, rng[0]), min(hi, rng[1]))
                return ("st", (val, flag))
            if fits:
                return I(lo, hi)
            return I(rng[0], rng[1])   # wraps (release semantics / explicit wrapping op)
        if base == "Shr":
            if blo == bhi and 0 <= blo < 256:
                if alo >= 0:
                    return I(alo >> blo, ahi >> blo)
                return I(alo >> blo, ahi >> blo)
            if alo >= 0:
                return I(0, ahi)
            return I(rng[0], rng[1])
        if base == "Shl":
            if blo == bhi and 0 <= blo < 256 and alo >= 0:
                lo, hi = alo << blo, ahi << blo
                if hi <= rng[1]:
                    return I(lo, hi)
                if rng[0] == 0:
                    # bits shifted out are dropped
                    return I(0, rng[1])
            return I(rng[0], rng[1])
        if base == "BitAnd":
            if alo >= 0 and blo >= 0:
                if alo == ahi and blo == bhi:
                    return I(alo & blo)
                pa = alo if alo == ahi else (1 << ahi.bit_length()) - 1
                pb = blo if blo == bhi else (1 << bhi.bit_length()) - 1
                return I(0, min(ahi, bhi, pa & pb))
            if blo == bhi and blo >= 0:
                return I(0, blo)
            if alo == ahi and alo >= 0:
                return I(0, alo)
            return I(rng[0], rng[1])
        if base in ("BitOr", "BitXor"):
            if alo >= 0 and blo >= 0:
                if alo == ahi and blo == bhi:
                    return I(alo | blo) if base == "BitOr" else I(alo ^ blo)
                m = (1 << max(ahi.bit_length(), bhi.bit_length())) - 1
                return I(max(alo, blo) if base == "BitOr" else 0, m)
            if rng[0] < 0:
                # signed: xor with a sign mask etc.
                m = max(abs(alo), abs(ahi), abs(blo), abs(bhi))
                m = (1 << m.bit_length()) - 1
                return I(max(rng[0], -m - 1), min(rng[1], m))
            return I(rng[0], rng[1])
        if base in ("Div", "Rem"):
            if blo > 0 and alo >= 0:
                if base == "Div":
                    return I(alo // bhi, ahi // blo)
                if ahi < blo:
                    return I(alo, ahi)
                if alo == ahi and blo == bhi:
                    return I(alo % blo)
                if blo == bhi and (alo // blo) == (ahi // blo):
                    return I(alo % blo, ahi % blo)
                return I(0, bhi - 1)
            return I(rng[0], rng[1])
        if base in ("Eq", "Ne", "Lt", "Le", "Gt", "Ge"):
            t = f = False
            if base == "Eq":
                t = not (ahi < blo or bhi < alo)
                f = not (alo == ahi == blo == bhi)
            elif base == "Ne":
                f = not (ahi < blo or bhi < alo)
                t = not (alo == ahi == blo == bhi)
            elif base == "Lt":
                t, f = alo < bhi, ahi >= blo
            elif base == "Le":
                t, f = alo <= bhi, ahi > blo
            elif base == "Gt":
                t, f = ahi > blo, alo <= bhi
            elif base == "Ge":
                t, f = ahi >= blo, alo < bhi
            return I(0 if f else 1, 1 if t else 0)
        if base == "Offset":
            return TOP
        return top_of(ty)

    def cast(self, v, kind, ty):
        if v[0] == "i":
            r = INT_TYPES.get(ty)
            if r is None:
                return v
            if r[0] <= v[1] and v[2] <= r[1]:
                return v
            bits = BITS[ty]
            # truncation / sign reinterpretation
            if v[1] == v[2]:
                x = v[1] & ((1 << bits) - 1)
                if r[0] < 0 and x >= (1 << (bits - 1)):
                    x -= 1 << bits
                return I(x)
            if v[1] >= 0 and r[0] == 0:
                # unsigned truncation of a non-negative range that does not fit: low bits arbitrary
                if (v[1] >> bits) == (v[2] >> bits):
                    return I(v[1] & ((1 << bits) - 1), v[2] & ((1 << bits) - 1))
                return I(0, r[1])
            if r[0] == 0 and v[2] < 0 and False:
                pass
            # general wrap-around: the range is shorter than the modulus and does not straddle a wrap point
            m = 1 << bits
            if v[2] - v[1] < m:
                lo_, hi_ = v[1] % m, v[2] % m
                if lo_ <= hi_:
                    if r[0] == 0:
                        return I(lo_, hi_)
                    if hi_ < m // 2:
                        return I(lo_, hi_)
                    if lo_ >= m // 2:
                        return I(lo_ - m, hi_ - m)
            return I(r[0], r[1])
        if kind.startswith("PointerCoercion") or kind in ("Transmute", "PtrToPtr", "PointerExposeProvenance"):
            return v
        return v if v[0] != "top" else TOP

    # ------------------------------------------------------------------ rvalue
    def rvalue(self, st, depth, fv, rv, dst_ty, line):
        k = rv[0]
        if k == "use":
            v = self.operand(st, depth, fv, rv[1])
            return v
        if k == "bin":
            a = self.operand(st, depth, fv, rv[2])
            b = self.operand(st, depth, fv, rv[3])
            a, b = self.deconst(a), self.deconst(b)
            op = rv[1]
            ty = dst_ty
            if op == "BitAnd" and getattr(self, "trunc_log", None) is not None and a[0] == "i" and b[0] == "i":
                # a low-bit mask applied to a value that can exceed it: bits are dropped here (logged for the carry-companion rule)
                for val, msk, oper in ((a, b, rv[2]), (b, a, rv[3])):
                    m_ = msk[1]
                    if msk[1] == msk[2] and m_ >= 255 and (m_ & (m_ + 1)) == 0 and val[2] > m_:
                        self.trunc_log.setdefault((fv.f["key"], line, m_.bit_length()), (oper, val))
            if op.endswith("WithOverflow"):
                m = re.match(r"^\((.*), bool\)$", dst_ty)
                ty = m.group(1) if m else "u64"
            elif op in ("Eq", "Ne", "Lt", "Le", "Gt", "Ge"):
                ty = "bool"
            return self.binop(op, a, b, ty, fv, line)
        if k == "un":
            a = self.deconst(self.operand(st, depth, fv, rv[2]))
            if rv[1] == "Not":
                if a[0] == "i":
                    if dst_ty == "bool":
                        return I(1 - a[2], 1 - a[1])
                    r = INT_TYPES.get(dst_ty)
                    if r and r[0] == 0:
                        return I(r[1] - a[2], r[1] - a[1])
                    if r:
                        return I(-a[2] - 1, -a[1] - 1)
                return top_of(dst_ty)
            if rv[1] == "Neg" and a[0] == "dig":
                return ("dig", a[1], a[2], -a[3])      # symbolic digit token (LINCOMB domain): -d_i
            if rv[1] == "Neg":
                if a[0] == "i":
                    r = INT_TYPES.get(dst_ty)
                    lo, hi = -a[2], -a[1]
                    if r and (lo < r[0] or hi > r[1]):
                        return I(r[0], r[1])
                    return I(lo, hi)
                return top_of(dst_ty)
            if rv[1] == "PtrMetadata":
                return self.length_of(st, a)
            return top_of(dst_ty)
        if k == "cast":
            a = self.operand(st, depth, fv, rv[2])
            if rv[1].startswith("PointerCoercion(Unsize") and a[0] in ("ref", "cref"):
                return self.unsize(st, a)
            return self.cast(self.deconst(a) if rv[1] == "IntToInt" else a, rv[1], rv[3])
        if k in ("ref", "rawptr"):
            pl = rv[2]
            if pl[1] == ["*"]:
                # reborrow of a reference / slice: same pointer value
                inner = st.frames[depth].get(pl[0], TOP)
                if inner[0] in ("sl", "ref", "cref"):
                    return inner
                if inner[0] not in ("top", "i", "st", "arr", "en", "vec") and str(fv.locals[pl[0]].get("ty", "")).startswith(("&", "*const", "*mut")):
                    return inner        # a domain token that stands for the pointer itself (a message, a context, a digest view): `&*p` is p
            r = self.resolve_place(st, depth, rv[2])
            if r is None:
                # reference into constant data or unknown
                v = self.read_place(st, depth, rv[2])
                return ("cref", v) if v[0] != "top" else TOP
            return ("ref", r[0], r[1], r[2])
        if k == "agg":
            kind = rv[1]
            ops = tuple(self.operand(st, depth, fv, o) for o in rv[2])
            if kind[0] == "array":
                return ("arr", ops)
            if kind[0] == "tuple":
                return ("st", ops)
            if kind[0] == "adt":
                a = self.F.adts.get(kind[1])
                is_enum = (a and a["kind"] == "Enum") or kind[1] in ("core::option::Option", "core::result::Result", "core::ops::ControlFlow")
                if is_enum:
                    return ("en", ((kind[2], ops),))
                return ("st", ops)
            if kind[0] == "closure":
                return ("clo", kind[1], ops)
            return TOP
        if k == "repeat":
            v = self.operand(st, depth, fv, rv[1])
            n = rv[2]
            if isinstance(n, int) and n <= 4096:
                return ("arr", (v,) * n)
            return TOP
        if k == "disc":
            v = self.read_place(st, depth, rv[1])
            if v[0] == "en":
                vs = sorted(var for var, _ in v[1])
                return I(vs[0], vs[-1])
            if v[0] == "ord":
                # core::cmp::Ordering: discriminants -1 (seen as 255 by SwitchInt), 0, 1
                vals = sorted(255 if x < 0 else x for x in v[1])
                if len(vals) == 1:
                    return I(vals[0])
                return I(0, 255)
            return top_of(dst_ty)
        if k == "len":
            return self.length_of(st, self.read_place(st, depth, rv[1]))
        return TOP

    def structural_bounds(self, fv, t):
        """fallback for an index bound the interval domain cannot exclude: the `for i in 0..xs.len()` idiom, decided on def-use chains (lib/relbounds.py)"""
        key = (fv.f["key"], t["line"], str(t.get("msg_ops")))
        memo = self.__dict__.setdefault("_relb", {})
        if key not in memo:
            import relbounds
            memo[key] = relbounds.proves_assert(self.F, fv.f, t)
            if memo[key]:
                self.used_relational = getattr(self, "used_relational", 0) + 1
        return memo[key]

    def deconst(self, v):
        if v[0] == "cref":
            return v[1]
        return v

    def unsize(self, st, a):
        """&[T;N] -> &[T]"""
        if a[0] == "ref":
            tgt = self.read_path(st.frames[a[1]].get(a[2], TOP), a[3])
            if tgt[0] == "arr":
                n = len(tgt[1])
                return ("sl", a[1], a[2], a[3], 0, 0, n, n)
            if tgt[0] == "vec":
                return ("sl", a[1], a[2], a[3], 0, 0, tgt[2], tgt[3])
            return a
        if a[0] == "cref":
            return a
        return a

    def length_of(self, st, v):
        if v[0] == "sl":
            return I(v[6], v[7])
        if v[0] == "arr":
            return I(len(v[1]))
        if v[0] == "cref" and v[1][0] == "arr":
            return I(len(v[1][1]))
        if v[0] == "ref":
            t = self.read_path(st.frames[v[1]].get(v[2], TOP), v[3])
            return self.length_of(st, t)
        if v[0] == "vec":
            return I(v[2], v[3])
        return I(0, 2**64 - 1)

    # ------------------------------------------------------------------ CFG helpers
    def ipdom(self, fv):
        k = fv.f["key"]
        if k in self._ipd:
            return self._ipd[k]
        n = fv.nb
        dead_end = {b for b in range(n) if (fv.blocks[b].get("t") or {}).get("k") == "unreachable" and not fv.blocks[b]["s"]}
        # `otherwise -> unreachable` arms of exhaustive matches are not paths: ignoring them keeps the join point of a match at the end
        # of the match instead of the function exit
        succ = {b: [t for t, _ in fv.succ(b) if t not in dead_end] for b in range(n)}
        exits = [b for b in range(n) if not succ[b]]
        EXIT = n
        pred = {b: [] for b in range(n + 1)}
        for b in range(n):
            for t in succ[b]:
                pred[t].append(b)
        for e in exits:
            pred[EXIT].append(e)
        # iterative post-dominator sets (small CFGs)
        full = set(range(n + 1))
        pd = {b: set(full) for b in range(n)}
        pd[EXIT] = {EXIT}
        changed = True
        while changed:
            changed = False
            for b in range(n - 1, -1, -1):
                ss = succ[b] if succ[b] else [EXIT]
                new = set(full)
                for s in ss:
                    new &= pd[s]
                new |= {b}
                if new != pd[b]:
                    pd[b] = new
                    changed = True
        ip = {}
        for b in range(n):
            cands = pd[b] - {b}
            # immediate: the candidate that is post-dominated by all other candidates
            best = None
            for c in cands:
                if all(o in pd[c] for o in cands):
                    best = c
                    break
            ip[b] = best if best is not None else EXIT
        self._ipd[k] = ip
        return ip

    def loops(self, fv):
        """header -> set of blocks of the natural loop(s) with that header"""
        k = fv.f["key"]
        if k in self._loops:
            return self._loops[k]
        n = fv.nb
        # dominators
        succ = {b: [t for t, _ in fv.succ(b)] for b in range(n)}
        pred = {b: [] for b in range(n)}
        for b in range(n):
            for t in succ[b]:
                pred[t].append(b)
        reach = fv.reach()
        dom = {b: set(reach) for b in reach}
        dom[0] = {0}
        changed = True
        while changed:
            changed = False
            for b in sorted(reach):
                if b == 0:
                    continue
                ps = [p for p in pred[b] if p in reach]
                new = set(reach)
                for p in ps:
                    new &= dom[p]
                new |= {b}
                if new != dom[b]:
                    dom[b] = new
                    changed = True
        L = {}
        for b in reach:
            for t in succ[b]:
                if t in dom.get(b, ()):
                    body = {t, b}
                    stack = [b]
                    while stack:
                        x = stack.pop()
                        if x == t:
                            continue
                        for p in pred[x]:
                            if p in reach and p not in body:
                                body.add(p)
                                stack.append(p)
                    L.setdefault(t, set()).update(body)
        self._loops[k] = L
        return L

    # ------------------------------------------------------------------ execution
    def call_fn(self, f, args, st, depth_caller, tyenv=None):
        """execute local function f with abstract args; returns (ret value, state)"""
        fv = view(self.F, f)
        self.visited.add(f["key"])
        self.call_depth += 1
        if self.call_depth > 60:
            self.call_depth -= 1
            self.cutoffs = getattr(self, "cutoffs", [])
            self.cutoffs.append(f["path"])     # reported by the driver as an analysis error (the body was not analysed in this context)
            return TOP
        frame = {}
        n = fv.nargs
        spread = fv.m.get("spread_arg")
        for i in range(n):
            pi = i + 1
            if spread is not None and pi >= spread:
                tup = args[spread - 1] if spread - 1 < len(args) else TOP
                j = pi - spread
                frame[pi] = tup[1][j] if tup[0] == "st" and j < len(tup[1]) else TOP
            else:
                frame[pi] = args[i] if i < len(args) else TOP
        if tyenv:
            frame["__ty"] = tuple(sorted(tyenv.items()))
        st.frames.append(frame)
        depth = len(st.frames) - 1
        self.fn_stack = getattr(self, "fn_stack", [])
        self.fn_stack.append(f)
        for pi in range(1, n + 1):
            # a parameter whose (pointee) value is unknown is at least a value of its declared type
            v = frame.get(pi, TOP)
            pty = fv.locals[pi]["ty"]
            if v[0] == "top" or (v[0] == "ref" and self.deref_val(st, v)[0] == "top"):
                mref = re.match(r"^&('\w+ )?(mut )?(.*)$", pty)
                if mref is None:
                    d = self.default_value(subst_ty(pty, tyenv) if tyenv else pty)
                    if d[0] != "top":
                        frame[pi] = d
                elif not re.match(r"^\[[^;]*\]$", mref.group(3)):
                    d = self.default_value(subst_ty(mref.group(3), tyenv) if tyenv else mref.group(3))
                    if d[0] != "top":
                        # the referent lives in the root frame: the callee may return a reference derived from it
                        st.frames[0][("p", f["key"], pi)] = d
                        frame[pi] = ("ref", 0, ("p", f["key"], pi), ())
        self.ret_outer = getattr(self, "ret_outer", [])
        self.ret_outer.append(None)
        try:
            ret = self.run_region(fv, st, depth, 0, None, {})
        finally:
            self.fn_stack.pop()
            outer = self.ret_outer.pop()
        if outer is not None:
            # the caller-visible state (everything below this frame) is the join over all paths that returned; arms of a fork run on
            # copies of the state, so without this the effects of an arm that returns (writes through &mut, root-frame slots) would be lost
            for i in range(depth):
                st.frames[i] = outer.frames[i]
        st.frames.pop()
        self.call_depth -= 1
        return ret

    def note_return(self, s, depth):
        """a path of the function executing at `depth` returns in state s: accumulate the frames below it"""
        ro = getattr(self, "ret_outer", None)
        if not ro:
            return
        snap = State([dict(f) for f in s.frames[:depth]])
        ro[-1] = snap if ro[-1] is None else ro[-1].join_with(snap)

    def run_region(self, fv, st, depth, start, stop, loopctx, start_idx=0, skip_first_stop=False):
        """Run from block `start` until `stop` (exclusive) or return.  Returns the joined return value if the region
        contains returns (for the function-level call: stop=None) else None.  The state `st` is updated in place to the
        state at `stop` (joined over all paths reaching it); st.frames[depth]['dead']=True if no path reaches stop."""
        ret = None
        cur = start
        frame = st.frames[depth]
        visits = {}
        L = self.loops(fv)
        first_iter = True
        while True:
            if cur == stop and not (first_iter and skip_first_stop):
                return ret
            self.steps += 1
            if self.steps > self.budget:
                raise Budget("step budget exhausted")
            if self.deadline is not None and (self.steps & 2047) == 0 and time.time() > self.deadline:
                raise Budget("time budget exhausted")
            # loop header handling: count visits; switch to fixpoint mode when too many
            if cur in L and not (first_iter and start_idx):
                c = visits.get(cur, 0) + 1
                visits[cur] = c
                if c > 1200:
                    r = self.fix_loop(fv, st, depth, cur, L[cur], stop)
                    ret = join(ret, r[0]) if r[0] is not None else ret
                    frame = st.frames[depth]          # fix_loop installs the joined exit state: the frame object changed
                    if r[1] is None:
                        frame["__dead"] = True
                        return ret
                    cur = r[1]
                    continue
            b = fv.blocks[cur]
            stmts = b["s"]
            si = start_idx if first_iter else 0
            first_iter = False
            partitioned = False
            while si < len(stmts):
                s = stmts[si]
                if s[0] == "=":
                    if s[2][0] == "bin" and s[2][1] == "Shr" and not loopctx.get("in_fix"):
                        part = self.partition_plan(fv, st, depth, s, loopctx, cur, si)
                        if part is not None:
                            r = self.run_partitions(fv, st, depth, cur, si, part, stop, loopctx, L)
                            ret = join(ret, r[0]) if r[0] is not None else ret
                            if r[1] is None:
                                frame = st.frames[depth]
                                frame["__dead"] = True
                                return ret
                            frame = st.frames[depth]
                            cur = r[1]
                            partitioned = True
                            break
                    dst = s[1]
                    dty = fv.locals[dst[0]]["ty"] if not dst[1] else self.place_ty(fv, dst)
                    v = self.rvalue(st, depth, fv, s[2], dty, s[3])
                    self.side_facts_on_assign(frame, s)
                    if WATCH and fv.locals[dst[0]].get("name") in WATCH:
                        print("WATCH", fv.f["path"][-30:], fv.locals[dst[0]].get("name"), dst[1], "=", show_val(v, 2)[:100], "L%s" % s[3])
                    if not dst[1]:
                        frame[dst[0]] = v
                    else:
                        self.write_place(st, depth, dst, v)
                si += 1
            if partitioned:
                if cur == stop:
                    return ret
                continue
            t = b.get("t")
            if not t:
                frame["__dead"] = True
                return ret
            k = t["k"]
            if k == "goto":
                cur = t["target"]
            elif k == "return":
                rv = frame.get(0, ("st", ()))
                ret = join(ret, rv) if ret is not None else rv
                self.note_return(st, depth)
                frame["__dead"] = True
                return ret
            elif k in ("unreachable", "resume", "terminate"):
                frame["__dead"] = True
                return ret
            elif k == "drop":
                cur = t["target"]
            elif k == "assert":
                cond = self.deconst(self.operand(st, depth, fv, t["cond"]))
                exp = 1 if t["expected"] else 0
                kind = "assert:" + t["msg"] + (":" + t["op"] if t.get("op") else "")
                detail = self.assert_detail(fv, t)
                if cond[0] == "i" and cond[1] == cond[2] == exp:
                    self.record(fv, kind, detail, t["line"], True)
                elif cond[0] == "i" and cond[1] == cond[2] != exp:
                    self.record(fv, kind, detail, t["line"], False, "always fails: %s" % self.ops_text(st, depth, fv, t["msg_ops"]))
                    frame["__dead"] = True
                    return ret
                elif t["msg"] == "bounds" and self.structural_bounds(fv, t):
                    self.record(fv, kind, detail, t["line"], True)
                    self.refine_assert(st, depth, fv, t)
                else:
                    self.record(fv, kind, detail, t["line"], False, "cannot exclude failure: %s" % self.ops_text(st, depth, fv, t["msg_ops"]))
                    self.refine_assert(st, depth, fv, t)
                cur = t["target"]
            elif k == "switch":
                feas = self.feasible_arms(st, depth, fv, t)
                if len(feas) == 1:
                    self.refine_switch(st, depth, fv, t, feas[0][0])
                    cur = feas[0][1]
                    continue
                # distinct targets only
                ip = self.ipdom(fv)[cur]
                join_at = ip if ip != fv.nb else None
                # a fork whose arms leave the enclosing region / loop: handled by running each arm to the join point
                outs = []
                rets = ret
                base = st.copy()
                seen_t = set()
                # early-return arms inside a loop (`?`, `return Err(..)`): run each such arm to the function's return and keep following the
                # single staying arm, instead of sending the whole loop to the fixpoint engine
                inloop0 = [h for h, body in L.items() if cur in body]
                if inloop0 and not loopctx.get("in_fix") and len(feas) >= 2:
                    body0 = L[max(inloop0, key=lambda h: -len(L[h]))]
                    exits_ = [(v, tb) for v, tb in feas if self.cheap_return_arm(fv, tb, body0)]
                    stays = [(v, tb) for v, tb in feas if (v, tb) not in exits_]
                    if exits_ and len({tb for _, tb in stays}) == 1:
                        for v, tb in exits_:
                            s2 = base.copy()
                            self.refine_switch(s2, depth, fv, t, v)
                            r = self.run_region(fv, s2, depth, tb, None, loopctx)
                            if r is not None:
                                ret = join(ret, r) if ret is not None else r
                        for v, tb in stays:
                            self.refine_switch(st, depth, fv, t, v)
                        cur = stays[0][1]
                        continue
                for v, tb in feas:
                    if tb in seen_t and v != "otherwise":
                        continue
                    seen_t.add(tb)
                    s2 = base.copy()
                    self.refine_switch(s2, depth, fv, t, v)
                    # loop exit decision inside a loop: let fix_loop handle it
                    inloop = [h for h, body in L.items() if cur in body]
                    if inloop and (join_at is None or any(join_at not in L[h] for h in inloop)) and not loopctx.get("in_fix"):
                        h = max(inloop, key=lambda h: -len(L[h]))  # innermost
                        r = self.fix_loop(fv, st, depth, h, L[h], stop, restart_state=base, restart_block=cur)
                        ret = join(ret, r[0]) if r[0] is not None else ret
                        if r[1] is None:
                            frame = st.frames[depth]
                            frame["__dead"] = True
                            return ret
                        cur = r[1]
                        frame = st.frames[depth]
                        outs = None
                        break
                    r = self.run_region(fv, s2, depth, tb, join_at if join_at is not None else stop, loopctx)
                    if r is not None:
                        rets = join(rets, r) if rets is not None else r
                    if not s2.frames[depth].get("__dead"):
                        outs.append(s2)
                if outs is None:
                    continue
                ret = rets
                if not outs:
                    frame["__dead"] = True
                    return ret
                if join_at is not None and 1 < len(outs) <= 4 and not loopctx.get("in_fix") and loopctx.get("splits", 0) < 2:
                    # trace partitioning: the arms assigned distinct constants to a user variable (`let w = if .. {6} else if .. {7} else {8}`):
                    # analyse the continuation once per arm instead of joining the constants into an interval
                    def small(o, l):
                        v = o.frames[depth].get(l)
                        return (v[1], v[2]) if v is not None and v[0] == "i" and v[2] - v[1] < 4 else None
                    cand = []
                    for l in outs[0].frames[depth]:
                        if isinstance(l, int) and fv.locals[l].get("name") and all(small(o, l) is not None for o in outs):
                            rs = [small(o, l) for o in outs]
                            vals = set()
                            for a_, b_ in rs:
                                vals |= set(range(a_, b_ + 1))
                            if len(set(rs)) > 1 and len(vals) <= 8:
                                cand.append(l)
                    if cand and join_at == stop:
                        cand = []       # the join point is the end of this (arm) region: there is no continuation inside it to partition
                    if cand:
                        l0 = cand[0]
                        split = []
                        for o in outs:
                            a_, b_ = small(o, l0)
                            for v_ in range(a_, b_ + 1):
                                o2 = o.copy() if a_ != b_ else o
                                o2.frames[depth][l0] = I(v_)
                                split.append(o2)
                        outs = split
                    if cand:
                        inner = [h for h, body in L.items() if join_at in body]
                        H = min(inner, key=lambda h: len(L[h])) if inner else None
                        target = H if H is not None else stop
                        if stop is not None and stop != join_at and (H is None or stop in L[H]):
                            # this region is itself an arm of an enclosing fork: its stop (the enclosing join point, which post-dominates
                            # everything in the arm) comes before the loop header - the continuation must not run past it into the next iteration
                            target = stop
                        if os.environ.get("ABSINT_DEBUG_SPLIT"):
                            print("SPLIT", fv.f["path"][-30:], "at", cur, "join", join_at, "H", H, "target", target, "stop", stop, "local", fv.locals[l0].get("name"), [small(o, l0) for o in outs][:6], "splits", loopctx.get("splits", 0), "named", {fv.locals[l].get("name"): show_val(v, 1)[:24] for l, v in outs[0].frames[depth].items() if isinstance(l, int) and fv.locals[l].get("name") in ("pos", "carry", "u64_idx", "bit_idx")})
                        ctx = dict(loopctx)
                        ctx["splits"] = loopctx.get("splits", 0) + 1
                        outs2 = []
                        for o in outs:
                            r = self.run_region(fv, o, depth, join_at, target, ctx)
                            if r is not None:
                                ret = join(ret, r) if ret is not None else r
                            if not o.frames[depth].get("__dead"):
                                outs2.append(o)
                        if not outs2:
                            frame["__dead"] = True
                            return ret
                        js = outs2[0]
                        for o in outs2[1:]:
                            js = js.join_with(o)
                        st.frames[:] = js.frames
                        frame = st.frames[depth]
                        if target == stop:
                            return ret
                        cur = target
                        continue
                js = outs[0]
                for o in outs[1:]:
                    js = js.join_with(o)
                st.frames[:] = js.frames
                frame = st.frames[depth]
                if join_at is None:
                    # arms ran to `stop`
                    return ret
                cur = join_at
            elif k == "call":
                nxt = self.do_call(fv, st, depth, t)
                frame = st.frames[depth]
                if nxt is None:
                    frame["__dead"] = True
                    return ret
                cur = nxt
            else:
                frame["__dead"] = True
                return ret

    def cheap_return_arm(self, fv, tb, body, limit=10):
        """does every path from block tb reach the function's return within `limit` blocks, never re-entering the loop body, through
        straight-line code (drops, gotos, calls to non-local or tiny functions)?"""
        seen, todo = set(), [tb]
        while todo:
            b = todo.pop()
            if b in seen:
                continue
            seen.add(b)
            if b in body or len(seen) > limit:
                return False
            t = fv.blocks[b].get("t")
            if not t:
                return False
            if t["k"] == "return":
                continue
            if t["k"] in ("unreachable", "resume", "terminate"):
                continue
            for nb, _ in fv.succ(b):
                todo.append(nb)
        return True

    def feasible_arms(self, st, depth, fv, t):
        """[(value | 'otherwise', target block)] of a SwitchInt that the abstract discriminant allows"""
        d = self.deconst(self.operand(st, depth, fv, t["discr"]))
        targets = t["targets"]
        feas = []
        if d[0] == "i":
            covered = set()
            for v, tb in targets:
                if d[1] <= v <= d[2]:
                    feas.append((v, tb))
                covered.add(v)
            if (d[2] - d[1] + 1) > sum(1 for v in covered if d[1] <= v <= d[2]):
                feas.append(("otherwise", t["otherwise"]))
        else:
            feas = [(v, tb) for v, tb in targets] + [("otherwise", t["otherwise"])]
        if t["discr"][0] in ("c", "m") and not t["discr"][1][1]:
            dds = fv.defs.get(t["discr"][1][0], [])
            if len(dds) == 1 and dds[0].kind == "assign" and dds[0].rv[0] == "disc":
                ev = self.read_place(st, depth, dds[0].rv[1])
                if ev[0] == "ord":
                    # Ordering: only the outcomes the comparison can produce
                    allowed = {255 if x < 0 else x for x in ev[1]}
                    listed = {v for v, _ in targets}
                    feas = [(v, tb) for v, tb in targets if v in allowed]
                    if allowed - listed:
                        feas.append(("otherwise", t["otherwise"]))
        return feas

    def side_facts_on_assign(self, frame, s):
        dst = s[1]
        if "__focus" in frame:
            frame["__focus"] = tuple((k, v_) for k, v_ in frame["__focus"] if dst[0] not in k)
            if not frame["__focus"]:
                del frame["__focus"]
        if "__odd" in frame:
            odd = frame["__odd"]
            rv = s[2]
            src_odd = (not dst[1]) and rv[0] == "use" and rv[1][0] in ("c", "m") and not rv[1][1][1] and rv[1][1][0] in odd
            if dst[0] in odd and not src_odd:
                odd = odd - {dst[0]}
            elif src_odd:
                odd = odd | {dst[0]}
            if odd:
                frame["__odd"] = odd
            else:
                del frame["__odd"]

    # ------------------------------------------------------------------ value partitioning (small ranges feeding a lossy shift)
    def partition_plan(self, fv, st, depth, stmt, loopctx, cur, si):
        """For `_c = Shr(_b, k)`: if _b derives (through +/- constants, casts, copies of single-definition temporaries) from a
        read of a memory place / user variable whose current range is small, return (place, chain) to re-evaluate per value."""
        done = loopctx.setdefault("partitioned", set())
        if (cur, si) in done or len(done) > 3:
            return None
        o = stmt[2][2]
        chain = []
        seen = 0
        while o[0] in ("c", "m") and seen < 8:
            seen += 1
            pl = o[1]
            l = pl[0]
            if pl[1] and not (len(pl[1]) == 1 and isinstance(pl[1][0], list) and pl[1][0][0] == "f"):
                break
            ds = [d for d in fv.defs.get(l, []) if not d.via_mutref]
            named = fv.locals[l].get("name")
            if len(ds) != 1 or ds[0].kind != "assign" or ds[0].proj or named:
                # a user variable or multiply-defined local: partition on it directly if small
                src = [l, []]
                v = st.frames[depth].get(l, TOP)
                if v[0] == "i" and 1 < v[2] - v[1] + 1 <= 300 and not pl[1]:
                    return (src, list(reversed(chain)))
                return None
            rv = ds[0].rv
            chain.append((l, rv, fv.locals[l]["ty"], ds[0]))
            if rv[0] == "use" and rv[1][0] in ("c", "m"):
                src = rv[1][1]
                if src[1] and any(isinstance(e, list) and e[0] in ("i", "ci") for e in src[1]):
                    v = self.read_place(st, depth, src)
                    if v[0] == "i" and 1 < v[2] - v[1] + 1 <= 300:
                        return (src, list(reversed(chain)))
                    return None
                o = rv[1]
            elif rv[0] == "bin" and rv[1] in ("Add", "Sub", "AddWithOverflow", "SubWithOverflow", "AddUnchecked", "SubUnchecked"):
                va = self.deconst(self.operand(st, depth, fv, rv[2]))
                vb = self.deconst(self.operand(st, depth, fv, rv[3]))
                if vb[0] == "i" and vb[1] == vb[2]:
                    o = rv[2]
                elif va[0] == "i" and va[1] == va[2]:
                    o = rv[3]
                else:
                    return None
            elif rv[0] == "cast" and rv[1] == "IntToInt":
                o = rv[2]
            else:
                return None
        return None

    def run_partitions(self, fv, st, depth, cur, si, part, stop, loopctx, L):
        """returns (ret value, block to continue at or None); st updated to the join over all partitions"""
        src, chain = part
        inner = [h for h, body in L.items() if cur in body]
        H = min(inner, key=lambda h: len(L[h])) if inner else None
        target = H if H is not None else stop
        v = self.read_place(st, depth, src)
        ctx = dict(loopctx)
        ctx["partitioned"] = set(loopctx.get("partitioned", ())) | {(cur, si)}
        outs = []
        ret = None
        base = st
        for val in range(v[1], v[2] + 1):
            s2 = base.copy()
            self.write_place(s2, depth, src, I(val))
            fr = s2.frames[depth]
            for (l, rv, ty, d) in chain:
                fr[l] = self.rvalue(s2, depth, fv, rv, ty, 0)
            r = self.run_region(fv, s2, depth, cur, target, ctx, start_idx=si, skip_first_stop=True)
            if r is not None:
                ret = join(ret, r) if ret is not None else r
            if not s2.frames[depth].get("__dead"):
                outs.append(s2)
        if not outs:
            return ret, None
        js = outs[0]
        for o in outs[1:]:
            js = js.join_with(o)
        st.frames[:] = js.frames
        return ret, target

    def fix_loop(self, fv, st, depth, header, body, stop, restart_state=None, restart_block=None):
        """Fixpoint iteration of a loop whose exit decision is indeterminate.  Returns (ret value, block to continue at or None);
        st is updated to the joined exit state."""
        inv = (restart_state or st).copy() if restart_block is None else None
        # When called from the middle of the loop (restart_block), first bring the state back to the header by joining
        # over one pass from restart_block.
        exits = {}
        rets = [None]

        def run_body(s0, start):
            """run from `start` inside the loop until header reached again; collect exit states; return state at header (or None)"""
            back = []
            work = [(start, s0)]
            guard = 0
            while work:
                guard += 1
                if guard > 4000:
                    raise Budget("loop body exploration too large")
                blk, s = work.pop()
                r = self.run_until(fv, s, depth, blk, header, body, exits, rets)
                if r is not None:
                    back.append(r)
            if not back:
                return None
            js = back[0]
            for o in back[1:]:
                js = js.join_with(o)
            return js

        if restart_block is not None:
            s0 = restart_state.copy()
            at_header = run_body(s0, restart_block)
            if at_header is None:
                inv = None
            else:
                inv = at_header
        rounds = 0
        while inv is not None:
            rounds += 1
            if rounds > 60:
                raise Budget("loop did not stabilise (%s, header bb%d)" % (fv.f["path"][-60:], header))
            if rounds > 12 and __import__("os").environ.get("ABSINT_DEBUG"):
                pass
            s = inv.copy()
            nxt = run_body(s, header) if rounds > 1 or restart_block is not None else run_body(s, header)
            if nxt is None:
                break
            new = inv.join_with(nxt)
            if new.same(inv):
                break
            if rounds > 12 and __import__("os").environ.get("ABSINT_DEBUG"):
                for di, (fa, fb) in enumerate(zip(inv.frames, new.frames)):
                    for kk in fa.keys() | fb.keys():
                        if fa.get(kk) != fb.get(kk):
                            print("  round", rounds, "frame", di, "local", kk, show_val(fa.get(kk), 3)[:150], "->", show_val(fb.get(kk), 3)[:150])
            inv = inv.widen_with(new) if rounds >= 3 else new
        # continue after the loop
        if __import__("os").environ.get("ABSINT_DEBUG"):
            print("  fix_loop", fv.f["path"][-40:], "header", header, "rounds", rounds, "exits", [k for k in exits], "restart", restart_block)
        exits = {k: v for k, v in exits.items() if not isinstance(k, tuple)
                 and fv.blocks[k].get("t", {}).get("k") not in ("unreachable", "resume", "terminate")}
        if not exits:
            return rets[0], None
        if len(exits) == 1:
            tgt, s = next(iter(exits.items()))
            st.frames[:] = s.frames
            return rets[0], tgt
        # several exit targets: run each to their common post-dominator = approximate by joining at the ipdom of header
        ip = self.ipdom(fv)
        # find a common block: follow ipdom chain of the first exit until it post-dominates all
        chains = []
        for tgt in exits:
            ch = [tgt]
            x = tgt
            while ip.get(x) is not None and ip[x] != fv.nb and len(ch) < fv.nb:
                x = ip[x]
                ch.append(x)
            chains.append(ch)
        common = None
        for x in chains[0]:
            if all(x in ch for ch in chains[1:]):
                common = x
                break
        if common is None:
            # no common continuation: run every exit to the end of the function
            for tgt, s in exits.items():
                r = self.run_region(fv, s, depth, tgt, stop, {})
                if r is not None:
                    rets[0] = join(rets[0], r) if rets[0] is not None else r
            return rets[0], None
        outs = []
        for tgt, s in exits.items():
            if common is not None and tgt != common:
                r = self.run_region(fv, s, depth, tgt, common, {})
                if r is not None:
                    rets[0] = join(rets[0], r) if rets[0] is not None else r
                if s.frames[depth].get("__dead"):
                    continue
            outs.append(s)
        if not outs:
            return rets[0], None
        js = outs[0]
        for o in outs[1:]:
            js = js.join_with(o)
        st.frames[:] = js.frames
        return rets[0], common

    def run_until(self, fv, s, depth, start, header, body, exits, rets):
        """run from `start` (inside loop `body`) following the CFG with forks joined at post-dominators *inside* the loop;
        paths leaving the loop are recorded in `exits`; returns the state when `header` is reached again (or None)."""
        cur = start
        first = True
        ip = self.ipdom(fv)
        while True:
            if cur == header and not first:
                return s
            first = False
            if cur not in body:
                if cur in exits:
                    exits[cur] = exits[cur].join_with(s)
                else:
                    exits[cur] = s
                return None
            self.steps += 1
            if self.steps > self.budget:
                raise Budget("step budget exhausted")
            if self.deadline is not None and (self.steps & 2047) == 0 and time.time() > self.deadline:
                raise Budget("time budget exhausted")
            frame = s.frames[depth]
            b = fv.blocks[cur]
            for stmt in b["s"]:
                if stmt[0] == "=":
                    dst = stmt[1]
                    dty = fv.locals[dst[0]]["ty"] if not dst[1] else self.place_ty(fv, dst)
                    v = self.rvalue(s, depth, fv, stmt[2], dty, stmt[3])
                    self.side_facts_on_assign(frame, stmt)
                    if not dst[1]:
                        frame[dst[0]] = v
                    else:
                        self.write_place(s, depth, dst, v)
            t = b.get("t")
            if not t:
                return None
            k = t["k"]
            if k == "goto":
                cur = t["target"]
            elif k == "return":
                rv = frame.get(0, ("st", ()))
                rets[0] = join(rets[0], rv) if rets[0] is not None else rv
                self.note_return(s, depth)
                return None
            elif k in ("unreachable", "resume", "terminate"):
                return None
            elif k == "drop":
                cur = t["target"]
            elif k == "assert":
                cond = self.deconst(self.operand(s, depth, fv, t["cond"]))
                exp = 1 if t["expected"] else 0
                kind = "assert:" + t["msg"] + (":" + t["op"] if t.get("op") else "")
                detail = self.assert_detail(fv, t)
                if cond[0] == "i" and cond[1] == cond[2] == exp:
                    self.record(fv, kind, detail, t["line"], True)
                elif cond[0] == "i" and cond[1] == cond[2] != exp:
                    self.record(fv, kind, detail, t["line"], False, "always fails: %s" % self.ops_text(s, depth, fv, t["msg_ops"]))
                    return None
                elif t["msg"] == "bounds" and self.structural_bounds(fv, t):
                    self.record(fv, kind, detail, t["line"], True)
                    self.refine_assert(s, depth, fv, t)
                else:
                    self.record(fv, kind, detail, t["line"], False, "cannot exclude failure: %s" % self.ops_text(s, depth, fv, t["msg_ops"]))
                    self.refine_assert(s, depth, fv, t)
                cur = t["target"]
            elif k == "call":
                nxt = self.do_call(fv, s, depth, t)
                if nxt is None:
                    return None
                cur = nxt
            elif k == "switch":
                feas = self.feasible_arms(s, depth, fv, t)
                if len(feas) == 1:
                    self.refine_switch(s, depth, fv, t, feas[0][0])
                    cur = feas[0][1]
                    continue
                j = ip[cur]
                join_in = j if (j != fv.nb and j in body) else None
                outs = []
                base = s
                seen_t = set()
                for v, tb in feas:
                    if tb in seen_t and v != "otherwise":
                        continue
                    seen_t.add(tb)
                    s2 = base.copy()
                    self.refine_switch(s2, depth, fv, t, v)
                    if join_in is not None:
                        r = self.run_until_stop(fv, s2, depth, tb, join_in, header, body, exits, rets)
                        if r is not None:
                            outs.append(r)
                    else:
                        r = self.run_until(fv, s2, depth, tb, header, body, exits, rets) if tb != header else s2
                        if r is not None:
                            outs.append(("hdr", r))
                if join_in is None:
                    hs = [o[1] for o in outs]
                    if not hs:
                        return None
                    js = hs[0]
                    for o in hs[1:]:
                        js = js.join_with(o)
                    return js
                if not outs:
                    return None
                js = outs[0]
                for o in outs[1:]:
                    js = js.join_with(o)
                s = js
                cur = join_in
            else:
                return None

    def run_until_stop(self, fv, s, depth, start, stop, header, body, exits, rets):
        """like run_until but stops at `stop` (a post-dominator inside the loop); reaching the header counts as reaching stop==header"""
        if start == stop:
            return s
        # temporarily treat `stop` as the header for the purpose of run_until
        sub_exits = exits
        r = self._run_to(fv, s, depth, start, stop, header, body, sub_exits, rets)
        return r

    def _run_to(self, fv, s, depth, start, stop, header, body, exits, rets):
        cur = start
        ip = self.ipdom(fv)
        while True:
            if cur == stop:
                return s
            if cur == header:
                # reached the loop header before the join point: treat as back edge contribution via exits bookkeeping
                key = ("__back", header)
                exits[key] = exits[key].join_with(s) if key in exits else s
                return None
            if cur not in body:
                exits[cur] = exits[cur].join_with(s) if cur in exits else s
                return None
            # single step using run_until machinery on a one-block horizon: emulate by executing the block here
            self.steps += 1
            if self.steps > self.budget:
                raise Budget("step budget exhausted")
            if self.deadline is not None and (self.steps & 2047) == 0 and time.time() > self.deadline:
                raise Budget("time budget exhausted")
            frame = s.frames[depth]
            b = fv.blocks[cur]
            for stmt in b["s"]:
                if stmt[0] == "=":
                    dst = stmt[1]
                    dty = fv.locals[dst[0]]["ty"] if not dst[1] else self.place_ty(fv, dst)
                    v = self.rvalue(s, depth, fv, stmt[2], dty, stmt[3])
                    self.side_facts_on_assign(frame, stmt)
                    if not dst[1]:
                        frame[dst[0]] = v
                    else:
                        self.write_place(s, depth, dst, v)
            t = b.get("t")
            if not t:
                return None
            k = t["k"]
            if k == "goto":
                cur = t["target"]
            elif k == "return":
                rv = frame.get(0, ("st", ()))
                rets[0] = join(rets[0], rv) if rets[0] is not None else rv
                self.note_return(s, depth)
                return None
            elif k in ("unreachable", "resume", "terminate"):
                return None
            elif k == "drop":
                cur = t["target"]
            elif k == "assert":
                cond = self.deconst(self.operand(s, depth, fv, t["cond"]))
                exp = 1 if t["expected"] else 0
                kind = "assert:" + t["msg"] + (":" + t["op"] if t.get("op") else "")
                detail = self.assert_detail(fv, t)
                if cond[0] == "i" and cond[1] == cond[2] == exp:
                    self.record(fv, kind, detail, t["line"], True)
                elif cond[0] == "i" and cond[1] == cond[2] != exp:
                    self.record(fv, kind, detail, t["line"], False, "always fails")
                    return None
                elif t["msg"] == "bounds" and self.structural_bounds(fv, t):
                    self.record(fv, kind, detail, t["line"], True)
                    self.refine_assert(s, depth, fv, t)
                else:
                    self.record(fv, kind, detail, t["line"], False, "cannot exclude failure: %s" % self.ops_text(s, depth, fv, t["msg_ops"]))
                    self.refine_assert(s, depth, fv, t)
                cur = t["target"]
            elif k == "call":
                nxt = self.do_call(fv, s, depth, t)
                if nxt is None:
                    return None
                cur = nxt
            elif k == "switch":
                feas = self.feasible_arms(s, depth, fv, t)
                if len(feas) == 1:
                    self.refine_switch(s, depth, fv, t, feas[0][0])
                    cur = feas[0][1]
                    continue
                j = ip[cur]
                inner = j if (j != fv.nb and j in body) else stop
                outs = []
                seen_t = set()
                for v, tb in feas:
                    if tb in seen_t and v != "otherwise":
                        continue
                    seen_t.add(tb)
                    s2 = s.copy()
                    self.refine_switch(s2, depth, fv, t, v)
                    r = self._run_to(fv, s2, depth, tb, inner, header, body, exits, rets)
                    if r is not None:
                        outs.append(r)
                if not outs:
                    return None
                js = outs[0]
                for o in outs[1:]:
                    js = js.join_with(o)
                s = js
                cur = inner
            else:
                return None

    # ------------------------------------------------------------------ refinement
    def cond_def(self, fv, local, depth_=0):
        """the comparison defining a bool local: (op, operandA, operandB) or None"""
        ds = fv.defs.get(local, [])
        if len(ds) == 1 and ds[0].kind == "assign" and not ds[0].proj and ds[0].rv[0] == "bin" and ds[0].rv[1] in ("Eq", "Ne", "Lt", "Le", "Gt", "Ge"):
            return ds[0].rv[1], ds[0].rv[2], ds[0].rv[3]
        if len(ds) == 1 and ds[0].kind == "assign" and not ds[0].proj and ds[0].rv[0] == "un" and ds[0].rv[1] == "Not":
            inner = ds[0].rv[2]
            if inner[0] in ("c", "m") and not inner[1][1]:
                c = self.cond_def(fv, inner[1][0])
                if c:
                    neg = {"Eq": "Ne", "Ne": "Eq", "Lt": "Ge", "Ge": "Lt", "Le": "Gt", "Gt": "Le"}
                    return neg[c[0]], c[1], c[2]
        if len(ds) == 1 and ds[0].kind == "assign" and not ds[0].proj and ds[0].rv[0] == "use" and ds[0].rv[1][0] in ("c", "m") and not ds[0].rv[1][1][1] and depth_ < 4:
            # a copy of a named bool (`let small = x < k; ... if small {..}`): the comparison still describes its operands at the test only if they
            # cannot have changed in between - required: every local operand of the comparison has a single definition
            c = self.cond_def(fv, ds[0].rv[1][1][0], depth_ + 1)
            if c:
                for o in (c[1], c[2]):
                    if o[0] in ("c", "m"):
                        if o[1][1] or len([d for d in fv.defs.get(o[1][0], [])]) != 1:
                            return None
                return c
        return None

    def refine_cmp(self, st, depth, fv, op, oa, ob, truth):
        if not truth:
            op = {"Eq": "Ne", "Ne": "Eq", "Lt": "Ge", "Ge": "Lt", "Le": "Gt", "Gt": "Le"}[op]
        a = self.deconst(self.operand(st, depth, fv, oa))
        b = self.deconst(self.operand(st, depth, fv, ob))
        if a[0] != "i" or b[0] != "i":
            return
        # parity test: (y & 1) ==/!= const  ->  tighten y's bounds to the matching parity
        if op in ("Eq", "Ne") and b[1] == b[2] and b[1] in (0, 1) and oa[0] in ("c", "m") and not oa[1][1]:
            ds = fv.defs.get(oa[1][0], [])
            if len(ds) == 1 and ds[0].kind == "assign" and ds[0].rv[0] == "bin" and ds[0].rv[1] == "BitAnd":
                y_o, m_o = ds[0].rv[2], ds[0].rv[3]
                m = self.deconst(self.operand(st, depth, fv, m_o))
                if m[0] == "i" and m[1] == m[2] == 1 and y_o[0] in ("c", "m") and not y_o[1][1]:
                    want = b[1] if op == "Eq" else 1 - b[1]
                    yl = y_o[1][0]
                    # follow one copy back to the user variable
                    targets = [yl]
                    yd = fv.defs.get(yl, [])
                    if len(yd) == 1 and yd[0].kind == "assign" and yd[0].rv[0] == "use" and yd[0].rv[1][0] in ("c", "m") and not yd[0].rv[1][1][1]:
                        targets.append(yd[0].rv[1][1][0])
                    for tl in targets:
                        cur = st.frames[depth].get(tl)
                        if cur is not None and cur[0] == "i":
                            lo, hi = cur[1], cur[2]
                            if lo % 2 != want:
                                lo += 1
                            if hi % 2 != want:
                                hi -= 1
                            if lo <= hi:
                                st.frames[depth][tl] = ("i", lo, hi)
                                if want == 1:
                                    st.frames[depth]["__odd"] = frozenset(st.frames[depth].get("__odd", frozenset())) | {tl}

        # (y >> k) ==/!= c : narrow y (a local, a copy of a local, or an array element with constant / focused index)
        if op in ("Eq", "Ne") and b[1] == b[2] and oa[0] in ("c", "m") and not oa[1][1]:
            ds = fv.defs.get(oa[1][0], [])
            if len(ds) == 1 and ds[0].kind == "assign" and ds[0].rv[0] == "bin" and ds[0].rv[1] == "Shr":
                y_o, k_o = ds[0].rv[2], ds[0].rv[3]
                kk = self.deconst(self.operand(st, depth, fv, k_o))
                if kk[0] == "i" and kk[1] == kk[2] and y_o[0] in ("c", "m") and not y_o[1][1]:
                    sh = kk[1]
                    c = b[1]
                    yl = y_o[1][0]
                    yv = st.frames[depth].get(yl)
                    if yv is not None and yv[0] == "i" and yv[1] >= 0:
                        if op == "Eq":
                            nlo, nhi = max(yv[1], c << sh), min(yv[2], ((c + 1) << sh) - 1)
                        else:
                            nlo, nhi = yv[1], yv[2]
                            if (yv[1] >> sh) == c:
                                nlo = max(nlo, (c + 1) << sh)
                            if (yv[2] >> sh) == c:
                                nhi = min(nhi, (c << sh) - 1)
                        if nlo <= nhi:
                            st.frames[depth][yl] = ("i", nlo, nhi)
                            # write back to the place the temporary was copied from
                            yd = fv.defs.get(yl, [])
                            if len(yd) == 1 and yd[0].kind == "assign" and yd[0].rv[0] == "use" and yd[0].rv[1][0] in ("c", "m"):
                                src = yd[0].rv[1][1]
                                if not src[1]:
                                    st.frames[depth][src[0]] = ("i", nlo, nhi)
                                elif len(src[1]) == 1 and isinstance(src[1][0], list) and src[1][0][0] == "i":
                                    iv = st.frames[depth].get(src[1][0][1])
                                    if iv is not None and iv[0] == "i" and iv[1] == iv[2]:
                                        self.write_place(st, depth, src, ("i", nlo, nhi))

        def odd_tighten(l):
            odd = st.frames[depth].get("__odd")
            if odd and l in odd:
                cur = st.frames[depth].get(l)
                if cur is not None and cur[0] == "i":
                    lo, hi = cur[1], cur[2]
                    if lo % 2 == 0:
                        lo += 1
                    if hi % 2 == 0:
                        hi -= 1
                    if lo <= hi:
                        st.frames[depth][l] = ("i", lo, hi)

        def setv(o, lo, hi):
            if o[0] in ("c", "m") and not o[1][1] and lo <= hi:
                st.frames[depth][o[1][0]] = ("i", lo, hi)
                # propagate to the single copy source (temporaries copied from user variables)
                ds = fv.defs.get(o[1][0], [])
                if len(ds) == 1 and ds[0].kind == "assign" and ds[0].rv[0] == "use" and ds[0].rv[1][0] in ("c", "m") and not ds[0].rv[1][1][1]:
                    src = ds[0].rv[1][1][0]
                    cur = st.frames[depth].get(src)
                    if cur is not None and cur[0] == "i":
                        st.frames[depth][src] = ("i", max(cur[1], lo), min(cur[2], hi))
                        odd_tighten(src)
                odd_tighten(o[1][0])
        if op == "Lt":
            setv(oa, a[1], min(a[2], b[2] - 1)); setv(ob, max(b[1], a[1] + 1), b[2])
        elif op == "Le":
            setv(oa, a[1], min(a[2], b[2])); setv(ob, max(b[1], a[1]), b[2])
        elif op == "Gt":
            setv(oa, max(a[1], b[1] + 1), a[2]); setv(ob, b[1], min(b[2], a[2] - 1))
        elif op == "Ge":
            setv(oa, max(a[1], b[1]), a[2]); setv(ob, b[1], min(b[2], a[2]))
        elif op == "Eq":
            lo, hi = max(a[1], b[1]), min(a[2], b[2])
            setv(oa, lo, hi); setv(ob, lo, hi)
        elif op == "Ne":
            if b[1] == b[2]:
                if a[1] == b[1]:
                    setv(oa, a[1] + 1, a[2])
                elif a[2] == b[1]:
                    setv(oa, a[1], a[2] - 1)
            if a[1] == a[2]:
                if b[1] == a[1]:
                    setv(ob, b[1] + 1, b[2])
                elif b[2] == a[1]:
                    setv(ob, b[1], b[2] - 1)

    def refine_switch(self, st, depth, fv, t, value):
        o = t["discr"]
        if o[0] not in ("c", "m") or o[1][1]:
            return
        l = o[1][0]
        frame = st.frames[depth]
        ty = fv.locals[l]["ty"]
        if value != "otherwise":
            frame[l] = I(value)
        else:
            cur = frame.get(l)
            listed = sorted(v for v, _ in t["targets"])
            if cur is not None and cur[0] == "i":
                lo, hi = cur[1], cur[2]
                while lo in listed and lo <= hi:
                    lo += 1
                while hi in listed and hi >= lo:
                    hi -= 1
                if lo <= hi:
                    frame[l] = ("i", lo, hi)
        if ty == "bool":
            c = self.cond_def(fv, l)
            if c:
                truth = (value != 0) if value != "otherwise" else True
                self.refine_cmp(st, depth, fv, c[0], c[1], c[2], truth)
        else:
            # discriminant of an enum local: narrow the enum value
            ds = fv.defs.get(l, [])
            if len(ds) == 1 and ds[0].kind == "assign" and ds[0].rv[0] == "disc":
                pl = ds[0].rv[1]
                ev = self.read_place(st, depth, pl)
                if ev[0] == "ord" and not pl[1] and value != "otherwise":
                    self.refine_ord(st, depth, fv, pl[0], {255: -1, 0: 0, 1: 1}.get(value))
                if ev[0] == "en":
                    if value != "otherwise":
                        keep = tuple((var, fs) for var, fs in ev[1] if var == value)
                    else:
                        listed = {v for v, _ in t["targets"]}
                        keep = tuple((var, fs) for var, fs in ev[1] if var not in listed)
                    if keep:
                        self.write_place(st, depth, pl, ("en", keep))

    def refine_ord(self, st, depth, fv, ord_local, outcome):
        """the Ordering in ord_local came from Ord::cmp(&x, &y); narrow x when y is a constant"""
        if outcome is None:
            return
        ds = fv.defs.get(ord_local, [])
        if len(ds) != 1 or ds[0].kind != "call" or not re.search(r"core::cmp::Ord.*::cmp$", cname(ds[0].term)):
            return
        t = ds[0].term
        y = self.deref_val(st, self.operand(st, depth, fv, t["args"][1]))
        y = self.deconst(y)
        if y[0] != "i" or y[1] != y[2]:
            return
        # x: a reference `&arr[idx]` or `&local`
        xo = t["args"][0]
        if xo[0] not in ("c", "m") or xo[1][1]:
            return
        rds = fv.defs.get(xo[1][0], [])
        if len(rds) != 1 or rds[0].kind != "assign" or rds[0].rv[0] != "ref":
            return
        pl = rds[0].rv[2]
        cur = self.read_place(st, depth, pl)
        if cur[0] != "i":
            return
        c = y[1]
        if outcome < 0:
            new = ("i", cur[1], min(cur[2], c - 1))
        elif outcome > 0:
            new = ("i", max(cur[1], c + 1), cur[2])
        else:
            new = ("i", c, c)
        if new[1] > new[2]:
            return
        if not pl[1]:
            st.frames[depth][pl[0]] = new
        elif self.focus_key(fv, pl) is not None:
            foc = dict(st.frames[depth].get("__focus", ()))
            foc[self.focus_key(fv, pl)] = new
            st.frames[depth]["__focus"] = tuple(sorted(foc.items(), key=repr))
            st.frames[depth]["__fv"] = fv

    def refine_assert(self, st, depth, fv, t):
        o = t["cond"]
        if o[0] in ("c", "m") and not o[1][1]:
            l = o[1][0]
            c = self.cond_def(fv, l)
            if c:
                self.refine_cmp(st, depth, fv, c[0], c[1], c[2], bool(t["expected"]))
            st.frames[depth][l] = I(1 if t["expected"] else 0)
        elif o[0] in ("c", "m"):
            # assert(!move _7.1): overflow flag field; clamp handled in binop
            pass

    # ------------------------------------------------------------------ misc
    def place_ty(self, fv, pl):
        # only needed for integer destination types of element / field writes
        ty = fv.locals[pl[0]]["ty"]
        for e in pl[1]:
            if e == "*":
                ty = re.sub(r"^&(mut )?|^\*(mut|const) ", "", ty)
            elif isinstance(e, list) and e[0] in ("i", "ci"):
                m = re.match(r"^\[(.*); [^;\]]+\]$|^\[(.*)\]$", ty)
                ty = (m.group(1) or m.group(2)) if m else "?"
            elif isinstance(e, list) and e[0] == "f":
                ty = e[2]
            elif isinstance(e, list) and e[0] == "dc":
                pass
        return ty

    def assert_detail(self, fv, t):
        try:
            import ex
            from mirlib import expr_of
            from eng_panic import _named
            return ex.show(_named(fv, expr_of(fv, t["cond"], 5)), 4)[:70]
        except Exception:
            return "?"

    def assert_detail_call(self, fv, t):
        try:
            import ex
            from mirlib import expr_of
            from eng_panic import _named
            return ", ".join(ex.show(_named(fv, expr_of(fv, a, 4)), 3) for a in t["args"][:2])[:80]
        except Exception:
            return "?"

    def run_root(self, f, values, colls=False, tyenv=None):
        """values: list of abstract values, one per parameter; parameters of reference type receive a reference to a
        root-frame slot holding the value.  Returns (ret, root frame after the call)."""
        fv = view(self.F, f)
        st = State([{}])
        args = []
        for i, v in enumerate(values):
            ty = fv.locals[i + 1]["ty"]
            if v[0] == "__coll_vals_nonempty":
                args.append(("it", "vecvals", ("vec", v[1], 1, v[2])))
                continue
            if v[0] == "__coll_vals":
                # an abstract owning iterator: any number of items, each satisfying the element invariant
                args.append(("it", "vecvals", ("vec", v[1], 0, v[2])))
                continue
            if v[0] in ("__coll_iter", "__coll_slice", "__coll_iter_nonempty"):
                # an abstract collection: elements live in a vector summary in the root frame
                elem, nhi = v[1], v[2]
                byref = True
                st.frames[0][(1000 + i)] = ("vec", elem, 0, nhi)
                r = ("ref", 0, (1000 + i), ())
                if v[0] == "__coll_slice":
                    args.append(("sl", 0, (1000 + i), (), 0, 0, 0, nhi))
                else:
                    # iterator yielding references (Borrow<T>) to the elements
                    args.append(("it", "slice", r, I(0), I(1 if v[0] == "__coll_iter_nonempty" else 0, nhi), 0))
                continue
            if ty.startswith("&") and v[0] not in ("ref", "sl", "cref"):
                st.frames[0][i] = v
                r = ("ref", 0, i, ())
                if re.match(r"^&(mut )?\[[^;]*\]$", ty):
                    r = self.unsize(st, r)
                args.append(r)
            else:
                args.append(v)
        self.call_depth = 0
        self.current_root = f["path"].replace("curve25519_dalek::", "")[-60:]
        own_deadline = self.deadline is None
        if own_deadline:
            # every root has a wall-clock limit (the drivers set their own); exceeding it is an analysis failure, never a pass
            self.deadline = time.time() + float(os.environ.get("VERIF_ROOT_SECONDS", "900"))
        try:
            ret = self.call_fn(f, args, st, 0, tyenv)
        finally:
            if own_deadline:
                self.deadline = None
        return ret, st.frames[0]

    def ops_text(self, st, depth, fv, ops):
        out = []
        for o in ops:
            v = self.deconst(self.operand(st, depth, fv, o))
            out.append(show_val(v))
        return ", ".join(out)

    # ------------------------------------------------------------------ calls
    def do_call(self, fv, st, depth, t):
        F = self.F
        n = cname(t)
        args = [self.operand(st, depth, fv, a) for a in t["args"]]
        dst = t["dest"]
        dty = fv.locals[dst[0]]["ty"] if not dst[1] else self.place_ty(fv, dst)
        g = lookup_callee(F, t)
        res = None
        diverges = t.get("target") is None
        handled = False
        env = dict(st.frames[depth].get("__ty", ()))
        def garg(x):
            # const generic arguments travel through the type environment as "#<value>"
            if isinstance(x, str):
                return subst_ty(x, env)
            if isinstance(x, (list, tuple)) and len(x) == 2 and x[0] == "const":
                return "#%d" % x[1]
            if isinstance(x, (list, tuple)) and len(x) == 2 and x[0] == "constparam":
                return env.get(x[1], "#?")
            return x
        gargs = [garg(x) for x in (t.get("gargs") or [])]
        self.cur_gargs = gargs
        rgargs = None
        if t.get("resolved") and t["resolved"].get("gargs") is not None:
            rgargs = [garg(x) for x in t["resolved"]["gargs"]]
        callee_env = None
        if g is None and t.get("resolved") is None and t.get("callee_trait") and gargs and isinstance(gargs[0], str) and env:
            # trait method on a type parameter: resolve through the caller's type environment
            g = self.find_impl(t["callee_trait"], (t.get("callee") or "").split("::")[-1], gargs[0])
            if g is not None:
                n = g["path"]
        if g is not None and g.get("generics"):
            gnames = g["generics"]
            if t.get("resolved") is not None or True:
                # align: trait-method calls carry Self first; inherent/generic fns carry their own params
                vals = rgargs if rgargs is not None else gargs
                if len(vals) == len(gnames):
                    callee_env = {a: b for a, b in zip(gnames, vals) if isinstance(b, str)}
                elif len(vals) > len(gnames):
                    callee_env = {a: b for a, b in zip(gnames, vals[-len(gnames):]) if isinstance(b, str)}
            if callee_env is None and env:
                callee_env = {k: v for k, v in env.items() if k in gnames}
        if self.models is not None:
            r = self.models.call(self, fv, st, depth, t, n, args, dty)
            if r is not NotImplemented:
                res = r
                handled = True
        if not handled and g is not None and "mir" in g:
            if g["kind"] == "Closure" and len(args) == 2 and args[1][0] == "st" and view(F, g).m.get("spread_arg") is None \
                    and len(args[1][1]) == view(F, g).nargs - 1:
                # "rust-call" ABI: (env, (a, b, ..)) -> env, a, b, ..
                args = [args[0]] + list(args[1][1])
            res = self.call_local(g, args, st, depth, callee_env)
            handled = True
        if not handled:
            # closure call through Fn traits
            if re.search(r"core::ops::(Fn|FnMut|FnOnce)<.*>>::call(_mut|_once)?$", n) and args:
                c = self.deref_val(st, args[0])
                if c[0] == "clo":
                    cf = F.fns.get(c[1])
                    if cf and "mir" in cf:
                        cargs = [args[0]] + args[1:]
                        cn = view(F, cf).nargs
                        if view(F, cf).m.get("spread_arg") is None and len(cargs) == 2 and cargs[1][0] == "st" and len(cargs[1][1]) == cn - 1:
                            # "rust-call" ABI: (env, (a, b, ..)) -> env, a, b, ..
                            cargs = [cargs[0]] + list(cargs[1][1])
                        res = self.call_local(cf, cargs, st, depth)
                        handled = True
        if not handled:
            self.unmodelled[n] = self.unmodelled.get(n, 0) + 1
            res = self.default_value(dty)
            mref = re.match(r"^&('\w+ )?(mut )?(.*)$", dty)
            if res[0] == "top" and mref and not re.match(r"^\[[^;]*\]$", mref.group(3)):
                # reference returned by an unknown callee: a fresh referent (one per call site, in the root frame) of the most general value of its type
                pv = self.default_value(mref.group(3))
                if pv[0] != "top":
                    slot = ("x", fv.f["key"], t["line"], dst[0])
                    st.frames[0][slot] = pv
                    res = ("ref", 0, slot, ())
            # unknown callee may write through &mut arguments
            atys = t.get("arg_tys") or []
            for ai, a in enumerate(args):
                shared = ai < len(atys) and re.match(r"^&('\w+ )?(?!mut )", atys[ai]) and not re.search(r"Cell|Mutex|Atomic", atys[ai])
                if a[0] in ("ref", "sl") and not shared:
                    self.havoc(st, ("ref", a[1], a[2], a[3]))
        rx = getattr(self, "must_record_rx", None)
        if rx is not None and g is None and (fv.f["key"], t["line"]) not in self.site_ok and (rx.search(n) or rx.search(t.get("callee_full") or "")):
            # a panic-capable library call was executed but no model recorded an obligation for it: not discharged
            self.record(fv, "call:" + n.split("::")[-1][:40], self.assert_detail_call(fv, t), t["line"], False, "panic-capable library call without a model obligation")
        if diverges:
            return None
        if res is None:
            res = TOP
        if not dst[1]:
            st.frames[depth][dst[0]] = res
        else:
            self.write_place(st, depth, dst, res)
        return t["target"]

    def havoc(self, st, ref):
        d, l, path = ref[1], ref[2], ref[3]
        cur = st.frames[d].get(l, TOP)
        old = self.read_path(cur, path)
        st.frames[d][l] = self.write_path(cur, path, generalise(old))

    def deref_val(self, st, v):
        if v[0] in ("ref", "sl"):
            return self.read_path(st.frames[v[1]].get(v[2], TOP), v[3])
        if v[0] == "cref":
            return v[1]
        return v

    def find_impl(self, trait_path, name, self_ty):
        key = (trait_path, name, self_ty)
        c = self.__dict__.setdefault("_impl_cache", {})
        if key not in c:
            last = trait_path.split("::")[-1]
            want = norm_ty(self_ty)
            hit = None
            for g in self.F.fns.values():
                if "mir" in g and g.get("name") == name and g.get("trait") and re.sub(r"<.*", "", g["trait"]).split("::")[-1] == last \
                        and norm_ty(g.get("self_ty") or "") == want:
                    hit = g
                    break
            c[key] = hit
        return c[key]

    def call_local(self, g, args, st, depth, tyenv=None):
        """value partitioning on a small-range integer argument (window width, radix): the callee is analysed once per value"""
        if getattr(self, "_split_depth", 0) < 2 and view(self.F, g).nb > 8:
            for i, a in enumerate(args):
                if a[0] == "i" and 0 < a[2] - a[1] < 8:
                    self._split_depth = getattr(self, "_split_depth", 0) + 1
                    try:
                        base = st.copy()
                        outs, ret = [], None
                        for v in range(a[1], a[2] + 1):
                            s2 = base.copy()
                            r = self.call_local1(g, args[:i] + [I(v)] + args[i + 1:], s2, depth, tyenv)
                            ret = r if ret is None else join(ret, r)
                            outs.append(s2)
                        js = outs[0]
                        for o in outs[1:]:
                            js = js.join_with(o)
                        st.frames[:] = js.frames
                        return ret
                    finally:
                        self._split_depth -= 1
        return self.call_local1(g, args, st, depth, tyenv)

    def call_local1(self, g, args, st, depth, tyenv=None):
        """execute a local callee; memoised on the abstract arguments (with pointee values for references)"""
        tr = __import__("os").environ.get("ABSINT_TRACE")
        if tr and re.search(tr, g["path"]):
            print("TRACE call", g["path"][-60:], "tyenv", tyenv, "args", [show_val(self.deref_val(st, a), 3)[:120] for a in args], "RAW", [a[:4] if a[0] in ("ref", "sl") else a[0] for a in args])
        for rx, hook in getattr(self, "call_contracts", ()):
            if rx.search(g["path"]):
                hook(self, g, args, st)
        key_args = []
        refs = []
        for a in args:
            if a[0] == "ref":
                pv = self.read_path(st.frames[a[1]].get(a[2], TOP), a[3])
                key_args.append(("R", pv))
                refs.append(a)
            elif a[0] == "sl":
                pv = self.read_path(st.frames[a[1]].get(a[2], TOP), a[3])
                key_args.append(("S", pv, a[4:]))
                refs.append(a)
            else:
                key_args.append(a)
        pure = not any(self.contains_ref(x) for x in key_args if x and x[0] not in ("R", "S")) \
            and not any(self.contains_ref(x[1]) for x in key_args if x and x[0] in ("R", "S"))
        key = (g["key"], tuple(key_args), tuple(sorted(tyenv.items())) if tyenv else None)
        if pure:
            try:
                hit = self.memo.get(key)
            except TypeError:
                hit = None
                pure = False
            if hit is not None:
                ret, writes = hit
                for r, newv in zip(refs, writes):
                    if newv is not None:
                        cur = st.frames[r[1]].get(r[2], TOP)
                        st.frames[r[1]][r[2]] = self.write_path(cur, r[3], newv)
                for rx, hook in getattr(self, "ret_hooks", ()):
                    if rx.search(g["path"]) and ret is not None:
                        hook(self, g, args, st, ret)
                return ret
        before = [self.read_path(st.frames[r[1]].get(r[2], TOP), r[3]) for r in refs]
        ret = self.call_fn(g, args, st, depth, tyenv)
        if tr and re.search(tr, g["path"]):
            print("TRACE ret ", g["path"][-60:], show_val(ret, 3)[:200] if ret is not None else None, "| args after:", [show_val(self.deref_val(st, a), 3)[:200] for a in args])
        for rx, hook in getattr(self, "ret_hooks", ()):
            if rx.search(g["path"]) and ret is not None:
                hook(self, g, args, st, ret)
        for rx, bound, name in getattr(self, "assumed_post", ()):
            if rx.search(g["path"]) and ret is not None:
                ret = meet(ret, bound(self, st, args) if callable(bound) else bound)
                self.used_assumptions = getattr(self, "used_assumptions", set()) | {name}
        if pure:
            after = [self.read_path(st.frames[r[1]].get(r[2], TOP), r[3]) for r in refs]
            writes = [a if a != b else None for a, b in zip(after, before)]
            if not self.contains_ref(ret) and not any(self.contains_ref(w) for w in writes if w is not None):
                self.memo[key] = (ret, writes)
        return ret if ret is not None else TOP

    def contains_ref(self, v):
        if not isinstance(v, tuple) or not v:
            return False
        if v[0] in ("ref", "sl"):
            return True
        if v[0] in ("arr", "st"):
            return any(self.contains_ref(x) for x in v[1])
        if v[0] == "en":
            return any(self.contains_ref(x) for _, fs in v[1] for x in fs)
        if v[0] in ("clo",):
            return any(self.contains_ref(x) for x in v[2])
        if v[0] in ("R", "S"):
            return self.contains_ref(v[1])
        if v[0] == "it":
            return any(self.contains_ref(x) for x in v[2:] if isinstance(x, tuple))
        if v[0] == "vec":
            return self.contains_ref(v[1])
        return False


def typenum_value(t):
    """decode typenum's binary type-level integers: UInt<UInt<UTerm, B1>, B0> = 2"""
    t = re.sub(r"\b\w+::", "", t.replace(" ", ""))
    if t == "UTerm":
        return 0
    m = re.match(r"^UInt<(.*),B([01])>$", t)
    if m:
        hi = typenum_value(m.group(1))
        return None if hi is None else 2 * hi + int(m.group(2))
    m = re.match(r"^U(\d+)$", t)
    return int(m.group(1)) if m else None


def norm_ty(t):
    t = re.sub(r"^&('\w+ )?(mut )?", "", t.strip())
    return re.sub(r"'\w+ ", "", t)


def subst_ty(t, env):
    if not env or not isinstance(t, str):
        return t
    return re.sub(r"\b(%s)\b" % "|".join(re.escape(k) for k in env), lambda m: env[m.group(1)], t)


def generalise(v):
    """forget the values but keep the shape"""
    if v is None or v[0] == "top":
        return TOP
    if v[0] == "i":
        return TOP
    if v[0] in ("arr", "st"):
        return (v[0], tuple(generalise(x) for x in v[1]))
    return TOP


def split_top(s):
    out, depth, cur = [], 0, ""
    for ch in s:
        if ch in "<([":
            depth += 1
        elif ch in ">)]":
            depth -= 1
        if ch == "," and depth == 0:
            out.append(cur)
            cur = ""
        else:
            cur += ch
    out.append(cur)
    return out


def show_val(v, depth=2):
    if v is None:
        return "none"
    if v[0] == "i":
        if v[1] == v[2]:
            return str(v[1]) if abs(v[1]) < 10**6 else "2^%.2f" % (log2(v[1]))
        return "[%s, %s]" % (fmt(v[1]), fmt(v[2]))
    if v[0] in ("arr", "st") and depth > 0:
        return v[0] + "(" + ", ".join(show_val(x, depth - 1) for x in v[1][:10]) + ")"
    if v[0] == "vec" and depth > 0:
        return "vec<%s; %s..%s>" % (show_val(v[1], depth - 1), v[2], v[3])
    return v[0]


def log2(x):
    import math
    return math.log2(x) if x > 0 else float("-inf")


def fmt(x):
    if abs(x) < 10**6:
        return str(x)
    return ("-" if x < 0 else "") + "2^%.3f" % log2(abs(x))
