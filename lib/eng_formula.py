"""FORMULA: the curve formulas in the abstract domain of *rational functions over the integers* in symbolic coordinates.

A field element is a fraction num/den of integer polynomials in symbols (x1, y1, Z1, ... and the curve constant d).  The field kernels
get their ring transfer function and nothing else (their limb arithmetic is C01 / C11's business and is never entered):
    a + b, a - b, a * b, -a, square, square2 (= 2 a^2), invert (= 1/a), negate, clone; conditional_select / _assign / _negate with a concrete Choice
Constants are recognised by value (their numerical correctness is C12's): EDWARDS_D -> d, EDWARDS_D2 -> 2 d, small integers, anything else an
opaque symbol.  The formulas are straight-line code; the generic MIR interpreter (lib/absint.py) follows them, local helper functions included.
An identity  E == 0  is decided by normalising the numerator of E (integer polynomial arithmetic); for identities that hold only on the curve
the numerator is first reduced modulo the curve equation  d x^2 y^2 = y^2 - x^2 - 1  of the one point involved (a principal ideal: division
by its leading term d x^2 y^2 is a complete test).  Identities over Z hold in every field, in particular mod p."""
import re
from absint import Interp, I, TOP, view
from absint_models import Models

P = 2 ** 255 - 19
D_VAL = (-121665 * pow(121666, P - 2, P)) % P


# ---------------------------------------------------------------- integer polynomials: dict monomial -> coefficient; monomial = tuple of (var, exp)
def pnorm(d):
    return tuple(sorted(((m, c) for m, c in d.items() if c), key=repr))


def pconst(n):
    return pnorm({(): n})


def pvar(v):
    return pnorm({((v, 1),): 1})


def padd(a, b, s=1):
    d = dict(a)
    for m, c in b:
        d[m] = d.get(m, 0) + s * c
    return pnorm(d)


def mmul(m1, m2):
    d = dict(m1)
    for v, e in m2:
        d[v] = d.get(v, 0) + e
    return tuple(sorted((v, e) for v, e in d.items() if e))


def pmul(a, b):
    d = {}
    for m1, c1 in a:
        for m2, c2 in b:
            m = mmul(m1, m2)
            d[m] = d.get(m, 0) + c1 * c2
    if len(d) > 20000:
        raise OverflowError("polynomial too large")
    return pnorm(d)


ONE = pconst(1)
ZERO = pconst(0)


def mono_gcd(ms):
    it = iter(ms)
    g = dict(next(it))
    for m in it:
        dm = dict(m)
        g = {v: min(e, dm[v]) for v, e in g.items() if v in dm}
    return tuple(sorted(g.items()))


def mdiv(m, g):
    d = dict(m)
    for v, e in g:
        d[v] -= e
    return tuple(sorted((v, e) for v, e in d.items() if e))


def frac(num, den=ONE):
    """normalised fraction value: cancels the common monomial / integer content when the denominator is a single term"""
    if not num:
        return ("fe", ZERO, ONE)
    if len(den) == 1 and den != ONE:
        (dm, dc), = den
        g = mono_gcd([m for m, _ in num] + [dm])
        from math import gcd
        cg = 0
        for _, c in num:
            cg = gcd(cg, abs(c))
        cg = gcd(cg, abs(dc))
        if dc < 0:
            cg = -cg
        num = pnorm({mdiv(m, g): c // cg for m, c in num})
        den = pnorm({mdiv(dm, g): dc // cg})
    return ("fe", num, den)


def fvar(v):
    return frac(pvar(v))


def fconst(n):
    return frac(pconst(n))


def fadd(a, b, s=1):
    if a[2] == b[2]:
        return frac(padd(a[1], b[1], s), a[2])
    return frac(padd(pmul(a[1], b[2]), pmul(b[1], a[2]), s), pmul(a[2], b[2]))


def fmul(a, b):
    return frac(pmul(a[1], b[1]), pmul(a[2], b[2]))


def finv(a):
    return frac(a[2], a[1])


def fneg(a):
    return frac(pmul(a[1], pconst(-1)), a[2])


def reduce_curve(p, pts):
    """normal form of an integer polynomial modulo d x^2 y^2 - y^2 + x^2 + 1 for the (x, y) symbol pairs in pts (at most one pair has a
    complete test; see module doc)"""
    for (x, y) in pts:
        changed = True
        while changed:
            changed = False
            out = {}
            for m, c in p:
                dm = dict(m)
                if dm.get("d", 0) >= 1 and dm.get(x, 0) >= 2 and dm.get(y, 0) >= 2:
                    base = dict(dm)
                    base["d"] -= 1
                    base[x] -= 2
                    base[y] -= 2
                    bm = tuple(sorted((v, e) for v, e in base.items() if e))
                    for rm, rc in ((((y, 2),), 1), (((x, 2),), -1), ((), -1)):
                        mm = mmul(bm, rm)
                        out[mm] = out.get(mm, 0) + c * rc
                    changed = True
                else:
                    out[m] = out.get(m, 0) + c
            p = pnorm(out)
    return p


def is_zero(a, curve_pts=()):
    n = a[1]
    if curve_pts:
        n = reduce_curve(n, curve_pts)
    return not n


def show(a, limit=5):
    def sm(m):
        return "*".join(v if e == 1 else "%s^%d" % (v, e) for v, e in m) or "1"

    def sp(p):
        if not p:
            return "0"
        return " + ".join(("%d*%s" % (c, sm(m))) if (c != 1 or not m) else sm(m) for m, c in p[:limit]) + (" + ..." if len(p) > limit else "")
    if a is None or a[0] != "fe":
        return "?"
    return sp(a[1]) if a[2] == ONE else "(%s)/(%s)" % (sp(a[1]), sp(a[2]))


FE = r"field::FieldElement(?:51|2625)\b"


def _named():
    """ristretto255 constants by value (their numerical correctness is C12's): value -> fraction"""
    import oracle
    import eng_consts
    out = {}
    i = oracle.SQRT_M1 % P
    out[i] = lambda: fvar("i")
    out[P - i] = lambda: fneg(fvar("i"))
    isad = oracle.INVSQRT_A_MINUS_D % P
    out[isad] = lambda: fvar("isad")
    sad = eng_consts.RFC9496["SQRT_AD_MINUS_ONE"] % P
    out[sad] = lambda: fvar("sadm1")
    dd = fmul(fvar("d"), fvar("d"))
    out[(1 - D_VAL * D_VAL) % P] = lambda: fadd(fconst(1), dd, -1)
    out[((D_VAL - 1) * (D_VAL - 1)) % P] = lambda: fmul(fadd(fvar("d"), fconst(1), -1), fadd(fvar("d"), fconst(1), -1))
    return out


NAMED = {}


class FmModels(Models):
    def __init__(self, radix):
        super().__init__()
        self.radix = radix          # limb weights (bit offsets) of the backend's FieldElement
        self.ops = 0
        self.logged = []            # (callee, [values]) of the watched calls
        self.watch = None
        self.choices = {}           # scenario: forced value of Choice-producing calls, by callee regex
        self.neg_seq = []           # scenario: outcomes of successive is_negative calls
        self.from_bytes = None      # symbol returned by FieldElement::from_bytes (the decoded coordinate), or None

    def const_fe(self, v):
        """a concrete FieldElement constant -> fraction (d, 2d, a small integer, or an opaque symbol)"""
        try:
            while v[0] == "st" and len(v[1]) == 1 and v[1][0][0] == "st":
                v = v[1][0]             # fiat: FieldElement51(fiat_25519_tight_field_element([u64; 5]))
            limbs = v[1][0][1]
            if v[0] != "st" or len(v[1]) != 1 or v[1][0][0] != "arr" or len(limbs) != len(self.radix):
                return None
            n = 0
            for x, off in zip(limbs, self.radix):
                if x[0] != "i" or x[1] != x[2]:
                    return None
                n += x[1] << off
        except (IndexError, TypeError):
            return None
        n %= P
        if n in NAMED:
            return NAMED[n]()
        if n == D_VAL:
            return fvar("d")
        if n == (2 * D_VAL) % P:
            return fmul(fconst(2), fvar("d"))
        if n < 2 ** 40:
            return fconst(n)
        if P - n < 2 ** 40:
            return fconst(-(P - n))
        return fvar("c%x" % (n % 2 ** 32))

    def fe(self, ip, st, a):
        v = ip.deconst(ip.deref_val(st, a))
        if v[0] == "fe":
            return v
        return self.const_fe(v)

    def call(self, ip, fv, st, depth, t, n, args, dty):
        names = [x for x in (n, t.get("callee_full") or "", (t.get("resolved") or {}).get("path") or "") if x]
        S = lambda rx: any(re.search(rx, nm) for nm in names)
        A = lambda i: self.fe(ip, st, args[i]) if i < len(args) else None

        def store(i, val):
            r = args[i]
            if r[0] != "ref":
                return
            cur = st.frames[r[1]].get(r[2], TOP)
            st.frames[r[1]][r[2]] = ip.write_path(cur, r[3], val if val is not None else TOP)
        if self.from_bytes is not None and S(FE + r"::from_bytes$"):
            return fvar(self.from_bytes)
        if self.watch is not None and S(self.watch):
            self.logged.append((names[0], [A(i) for i in range(len(args))]))
        m = None
        for nm in names:
            m = m or re.search(FE + r" as core::ops::(Add|Sub|Mul)<.*>>::(add|sub|mul)$", nm)
        if m and len(args) == 2:
            a, b = A(0), A(1)
            self.ops += 1
            if a is None or b is None:
                return TOP
            return fmul(a, b) if m.group(1) == "Mul" else fadd(a, b, -1 if m.group(1) == "Sub" else 1)
        m = None
        for nm in names:
            m = m or re.search(FE + r" as core::ops::(Add|Sub|Mul)Assign<.*>>::(add|sub|mul)_assign$", nm)
        if m and len(args) == 2:
            a, b = A(0), A(1)
            self.ops += 1
            r = None
            if a is not None and b is not None:
                r = fmul(a, b) if m.group(1) == "Mul" else fadd(a, b, -1 if m.group(1) == "Sub" else 1)
            store(0, r)
            return ("st", ())
        if S(FE + r" as core::ops::Neg>::neg$") and args:
            a = A(0)
            self.ops += 1
            return fneg(a) if a is not None else TOP
        if S(FE + r"::negate$") and args:
            a = A(0)
            self.ops += 1
            store(0, fneg(a) if a is not None else None)
            return ("st", ())
        if S(FE + r"::square$|" + FE + r">::square$") and args:
            a = A(0)
            self.ops += 1
            return fmul(a, a) if a is not None else TOP
        if S(FE + r"::square2$") and args:
            a = A(0)
            self.ops += 1
            return fmul(fconst(2), fmul(a, a)) if a is not None else TOP
        if S(r"field::<impl .*" + FE + r">::invert$|" + FE + r"::invert$") and args:
            a = A(0)
            self.ops += 1
            return finv(a) if a is not None and a[1] else TOP
        if S(r"::clone$") and args and A(0) is not None and ip.deconst(ip.deref_val(st, args[0]))[0] == "fe":
            return A(0)
        if S(r"zeroize::Zeroize>::zeroize$"):
            return ("st", ())
        # selection with a concrete (scenario) Choice
        if S(FE + r" as subtle::ConditionallySelectable>::conditional_(select|assign)$|" + FE + r" as subtle::ConditionallyNegatable>::conditional_negate$|subtle::ConditionallyNegatable>::conditional_negate$") and args:
            c = ip.deconst(ip.deref_val(st, args[-1]))
            cv = None
            if c[0] == "st" and len(c[1]) == 1 and c[1][0][0] == "i" and c[1][0][1] == c[1][0][2]:
                cv = c[1][0][1]
            if c[0] == "i" and c[1] == c[2]:
                cv = c[1]
            if cv is not None:
                if S(r"conditional_select$"):
                    return A(1) if cv else A(0)
                if S(r"conditional_assign$"):
                    if cv:
                        store(0, A(1))
                    return ("st", ())
                if S(r"conditional_negate$"):
                    a = A(0)
                    if cv and a is not None:
                        store(0, fneg(a))
                    elif cv:
                        store(0, None)
                    return ("st", ())
        def choice_of(v):
            v = ip.deconst(v)
            if v[0] == "st" and len(v[1]) == 1 and v[1][0][0] == "i" and v[1][0][1] == v[1][0][2]:
                return v[1][0][1]
            return None
        if S(r"field::<impl .*" + FE + r">::is_zero$|" + FE + r"::is_zero$") and args and A(0) is not None:
            # symbols are generic (non-zero) values: a fraction is zero iff its numerator is the zero polynomial
            return ("st", (I(0 if A(0)[1] else 1),))
        if S(r"subtle::Choice as core::ops::Not>::not$") and args and choice_of(ip.deref_val(st, args[0])) is not None:
            return ("st", (I(1 - choice_of(ip.deref_val(st, args[0]))),))
        if S(r"bool as core::convert::From<subtle::Choice>>::from$|subtle::Choice as core::convert::Into<bool>>::into$|impl core::convert::From<subtle::Choice> for bool>::from$") and args \
                and choice_of(ip.deref_val(st, args[0])) is not None:
            return I(choice_of(ip.deref_val(st, args[0])))
        if S(r"impl core::cmp::PartialEq for .*" + FE + r">::(eq|ne)$|" + FE + r" as core::cmp::PartialEq>::(eq|ne)$") and len(args) == 2 and A(0) is not None and A(1) is not None:
            same = is_zero(fadd(A(0), A(1), -1))
            ne = S(r"::ne$")
            return I(0 if ne else 1) if same else I(0, 1)
        if S(r"impl subtle::ConstantTimeEq for .*" + FE + r">::ct_eq$|" + FE + r" as subtle::ConstantTimeEq>::ct_eq$") and len(args) == 2 and A(0) is not None and A(1) is not None:
            same = is_zero(fadd(A(0), A(1), -1))
            return ("st", (I(1) if same else I(0, 1),))
        def forced(default):
            for rx, val in self.choices.items():
                if S(rx):
                    return I(val)
            return default
        if S(r"field::<impl .*" + FE + r">::is_negative$") and args and A(0) is not None:
            if self.neg_seq:
                return ("st", (I(self.neg_seq.pop(0)),))      # scenario: outcomes of the successive sign tests
            return ("st", (forced(I(0, 1)),))
        if S(r"field::<impl .*" + FE + r">::sqrt_ratio_i$") and len(args) == 2 and A(0) is not None and A(1) is not None:
            # (was_square, r): r is an opaque symbol; its defining relation is C01's (sqrt_ratio_i exponent chain) business
            self.sqrt_calls = getattr(self, "sqrt_calls", 0) + 1
            return ("st", (("st", (forced(I(0, 1)),)), fvar("r%d" % self.sqrt_calls)))
        for rx, val in self.choices.items():
            if S(rx):
                return ("st", (I(val),)) if "Choice" in dty else I(val)
        r = self.vector_call(ip, st, S, args, dty)
        if r is not NotImplemented:
            return r
        if S(r"(Point|Compressed\w+) as subtle::ConstantTimeEq>::ct_eq$|impl subtle::ConstantTimeEq for [\w:]*(Point|Compressed\w+)>::ct_eq$"):
            return NotImplemented       # the repository's own point comparisons are interpreted, not summarised by the generic ct_eq model
        return super().call(ip, fv, st, depth, t, n, args, dty)

    # ------------------------------------------------------------------ AVX2: FieldElement2625x4 = four field elements (lanes A, B, C, D)
    VEC = r"vector::avx2::field::FieldElement2625x4"

    def enum_name(self, ip, adt_rx, v):
        v = ip.deconst(v)
        if v[0] != "en" or len(v[1]) != 1:
            return None
        for path, a in ip.F.adts.items():
            if re.search(adt_rx, path):
                vs = a["variants"]
                return vs[v[1][0][0]]["name"] if v[1][0][0] < len(vs) else None
        return None

    def int_of_limbs(self, limbs):
        n, o = 0, 0
        for i, x in enumerate(limbs):
            n += x << o
            o += 26 if i % 2 == 0 else 25
        return n % P

    def small_const(self, n):
        if n < 2 ** 40:
            return fconst(n)
        if P - n < 2 ** 40:
            return fconst(-(P - n))
        return fvar("c%x" % (n % 2 ** 32))

    def v4(self, ip, st, a, kind="avx2"):
        v = ip.deconst(ip.deref_val(st, a))
        if v[0] == "v4":
            return v
        if kind == "ifma":
            return self.v4_ifma(v)
        # a constant FieldElement2625x4([u32x8; 5]): vector k holds (a_2k, b_2k, a_2k+1, b_2k+1, c_2k, d_2k, c_2k+1, d_2k+1)
        leaves = []

        def walk(x):
            if x[0] == "i":
                leaves.append(x)
            elif x[0] in ("st", "arr"):
                for y in x[1]:
                    walk(y)
            else:
                leaves.append(None)
        walk(v)
        if len(leaves) == 20 and all(x is not None and x[1] == x[2] for x in leaves):
            # four u64 words per vector: split into u32 lanes (little endian)
            l2 = []
            for x in leaves:
                l2 += [I(x[1] & 0xFFFFFFFF), I(x[1] >> 32)]
            leaves = l2
        if len(leaves) != 40 or any(x is None or x[1] != x[2] for x in leaves):
            return None
        lanes = [[0] * 10 for _ in range(4)]
        for k in range(5):
            w = [x[1] for x in leaves[8 * k:8 * k + 8]]
            lanes[0][2 * k], lanes[1][2 * k], lanes[0][2 * k + 1], lanes[1][2 * k + 1] = w[0], w[1], w[2], w[3]
            lanes[2][2 * k], lanes[3][2 * k], lanes[2][2 * k + 1], lanes[3][2 * k + 1] = w[4], w[5], w[6], w[7]
        return ("v4", tuple(self.small_const(self.int_of_limbs(l)) for l in lanes))

    def v4_ifma(self, v):
        """a constant F51x4([u64x4; 5]): vector k holds limb k (radix 2^51) of the lanes A, B, C, D"""
        leaves = []

        def walk(x):
            if x[0] == "i":
                leaves.append(x)
            elif x[0] in ("st", "arr"):
                for y in x[1]:
                    walk(y)
            else:
                leaves.append(None)
        walk(v)
        if any(x is None or x[1] != x[2] for x in leaves):
            return None
        if len(leaves) == 40:
            leaves = [I(leaves[2 * j][1] | (leaves[2 * j + 1][1] << 32)) for j in range(20)]
        if len(leaves) != 20:
            return None
        out = []
        for lane in range(4):
            n = sum(leaves[4 * k + lane][1] << (51 * k) for k in range(5)) % P
            out.append(self.small_const(n))
        return ("v4", tuple(out))

    IFMA = r"vector::ifma::field::F51x4(?:Unreduced|Reduced)"

    def vector_call(self, ip, st, S, args, dty):
        kind = "ifma" if S(self.IFMA) else "avx2"
        VEC = self.IFMA if kind == "ifma" else self.VEC
        if not S(VEC):
            return NotImplemented
        V = lambda i: self.v4(ip, st, args[i], kind) if i < len(args) else None
        if kind == "ifma":
            if S(r"core::convert::From<[\w:]*F51x4(Unreduced|Reduced)>>::from$|impl core::convert::From<[\w:]*F51x4(Unreduced|Reduced)> for [\w:]*F51x4(Unreduced|Reduced)>::from$") and len(args) == 1:
                return V(0) or TOP            # reduction / widening: the same four field elements
            if S(r"F51x4Reduced::square$") and args:
                v = V(0)
                self.ops += 1
                return ("v4", tuple(fmul(x, x) for x in v[1])) if v is not None else TOP
        L = "ABCD"
        if S(VEC + r"::new$") and len(args) == 4:
            fs = [self.fe(ip, st, a) for a in args]
            self.ops += 1
            return ("v4", tuple(fs)) if None not in fs else TOP
        if S(VEC + r"::splat$") and args:
            f = self.fe(ip, st, args[0])
            return ("v4", (f,) * 4) if f is not None else TOP
        if S(VEC + r"::split$") and args:
            v = V(0)
            return ("arr", v[1]) if v is not None else TOP
        if S(VEC + r"::shuffle$") and len(args) == 2:
            v, name = V(0), self.enum_name(ip, r"vector::%s::field::Shuffle$" % kind, args[1])
            if v is None or not name or len(name) != 4 or any(c not in L for c in name):
                return TOP
            return ("v4", tuple(v[1][L.index(c)] for c in name))
        if S(VEC + r"::blend$") and len(args) == 3:
            v, o, name = V(0), V(1), self.enum_name(ip, r"vector::%s::field::Lanes$" % kind, args[2])
            if v is None or o is None or not name or any(c not in L for c in name):
                return TOP
            return ("v4", tuple(o[1][i] if L[i] in name else v[1][i] for i in range(4)))
        if S(VEC + r"::diff_sum$") and args:
            v = V(0)
            if v is None:
                return TOP
            a, b, c, d_ = v[1]
            self.ops += 1
            return ("v4", (fadd(b, a, -1), fadd(b, a), fadd(d_, c, -1), fadd(d_, c)))
        if S(VEC + r"::negate_lazy$|" + VEC + r" as core::ops::Neg>::neg$") and args:
            v = V(0)
            self.ops += 1
            return ("v4", tuple(fneg(x) for x in v[1])) if v is not None else TOP
        if S(VEC + r"::reduce$") and args:
            return V(0) or TOP
        if S(VEC + r"::square_and_negate_D$") and args:
            v = V(0)
            if v is None:
                return TOP
            self.ops += 1
            sq = [fmul(x, x) for x in v[1]]
            return ("v4", (sq[0], sq[1], sq[2], fneg(sq[3])))
        if S(VEC + r" as core::ops::Add>::add$") and len(args) == 2:
            a, b = V(0), V(1)
            self.ops += 1
            return ("v4", tuple(fadd(x, y) for x, y in zip(a[1], b[1]))) if a is not None and b is not None else TOP
        if S(VEC + r" as core::ops::Mul(<&[^()]*>)?>::mul$") and len(args) == 2:
            a, b = V(0), V(1)
            self.ops += 1
            return ("v4", tuple(fmul(x, y) for x, y in zip(a[1], b[1]))) if a is not None and b is not None else TOP
        if S(VEC + r" as core::ops::Mul<\(u32, u32, u32, u32\)>>::mul$") and len(args) == 2:
            a, k = V(0), ip.deconst(args[1])
            if a is None or k[0] != "st" or len(k[1]) != 4 or any(x[0] != "i" or x[1] != x[2] for x in k[1]):
                return TOP
            self.ops += 1
            out = []
            for x, c in zip(a[1], k[1]):
                c = c[1]
                # d = -121665/121666: a multiple of 121665 stands for -d * 121666 (so that the curve constant stays the symbol d)
                if c and c % 121665 == 0:
                    out.append(fmul(x, fmul(fconst(-(c // 121665) * 121666), fvar("d"))))
                else:
                    out.append(fmul(x, fconst(c)))
            return ("v4", tuple(out))
        if S(r"::clone$") and args and V(0) is not None:
            return V(0)
        return NotImplemented


def radix_for(F, fe_ty):
    """bit offsets of the limbs of the backend's field element type (serial and fiat wrappers alike)"""
    if fe_ty.endswith("FieldElement51"):
        return [51 * i for i in range(5)]
    if fe_ty.endswith("FieldElement2625"):
        offs, o = [], 0
        for i in range(10):
            offs.append(o)
            o += 26 if i % 2 == 0 else 25
        return offs
    return None


def run(F, f, values, radix, watch=None, choices=None, from_bytes=None, neg_seq=None):
    if not NAMED:
        NAMED.update(_named())
    ip = Interp(F, FmModels(radix), step_budget=2_000_000)
    ip.exact_small_vecs = True
    ip.models.watch = watch
    ip.models.from_bytes = from_bytes
    ip.models.neg_seq = list(neg_seq or [])
    ip.models.choices = dict(choices or {})
    ret, root = ip.run_root(f, values)
    return ret, ip, root
