"""Verdict collection, known-findings handling, evidence writing (one instance per check run)."""
import json, os, sys, time

VERIF = os.path.dirname(os.path.dirname(os.path.abspath(__file__)))
# scratch runs (mutants, seeds) write their evidence elsewhere: VERIF_EVIDENCE=<dir>; registered commands never set it
EVD = os.environ.get("VERIF_EVIDENCE") or os.path.join(VERIF, "evidence")


class Report:
    def __init__(self, pid, tier, level, technique):
        self.pid = pid
        self.tier = tier
        self.level = level
        self.technique = technique
        self.t0 = time.time()
        self.violations = []     # dict(rule, instance, msg, loc, detail)
        self.passed = []         # (rule, instance, detail)
        self.notes = []
        self.assumptions = []
        self.trusted = []
        self.extra = {}
        self.configs = []
        self.rule_counts = {}
        try:
            self.seed = int(os.environ.get("VERIF_SEED", "0"))
        except ValueError:
            self.seed = 0

    # ---------------------------------------------------------------- recording
    def ok(self, rule, instance, detail=""):
        self.passed.append((rule, instance, detail))
        self.rule_counts[rule] = self.rule_counts.get(rule, 0) + 1

    def viol(self, rule, instance, msg, loc="", detail=None):
        """A violation; `instance` must be stable (no line numbers)."""
        self.violations.append({"rule": rule, "instance": instance, "msg": msg, "loc": loc, "detail": detail})

    def anchor_missing(self, rule, what, why=""):
        self.viol(rule, "anchor:" + what, "anchor missing: rule %s cannot be evaluated (%s)" % (rule, why or what))

    def floor(self, rule, name, count, minimum):
        """Fail closed if fewer instances than were confirmed by hand were evaluated."""
        self.extra.setdefault("floors", {})["%s/%s" % (rule, name)] = {"count": count, "min": minimum}
        if count < minimum:
            self.viol(rule, "floor:" + name, "only %d instances of %s evaluated, expected >= %d (vacuous pass refused)" % (count, name, minimum))

    def note(self, s):
        self.notes.append(s)

    def assume(self, s):
        if s not in self.assumptions:
            self.assumptions.append(s)

    def trust(self, s):
        if s not in self.trusted:
            self.trusted.append(s)

    # ---------------------------------------------------------------- finishing
    def _known(self):
        p = os.path.join(VERIF, "known_findings.json")
        try:
            with open(p) as fh:
                k = json.load(fh)
        except OSError:
            return []
        return [f for f in k.get("findings", []) if f.get("property") == self.pid and f.get("status") == "open"]

    def finish(self, extra_coverage=None):
        wall = time.time() - self.t0
        known = self._known()
        known_keys = {(k["rule"], k["instance"]): k for k in known}
        real, kf = [], []
        seen = set()
        for v in self.violations:
            key = (v["rule"], v["instance"])
            if key in seen:
                continue
            seen.add(key)
            if key in known_keys:
                kf.append(v)
            else:
                real.append(v)
        os.makedirs(os.path.join(EVD, "replay"), exist_ok=True)
        for old in os.listdir(os.path.join(EVD, "replay")):
            if old.startswith(self.pid + "-"):
                os.remove(os.path.join(EVD, "replay", old))     # replay files of earlier runs of this property
        for v in kf:
            print("KNOWN-FINDING: property=%s rule=%s instance=%s %s" % (self.pid, v["rule"], v["instance"], v["msg"]))
        for i, v in enumerate(real):
            rp = os.path.join(EVD, "replay", "%s-%d.json" % (self.pid, i))
            with open(rp, "w") as fh:
                json.dump({"property": self.pid, "tier": self.tier, **v}, fh, indent=1)
            print("%s rule=%s instance=%s %s" % (v["loc"] or "-", v["rule"], v["instance"], v["msg"]))
            print("VIOLATION property=%s replay=%s" % (self.pid, rp))
        n_obl = len(self.passed) + len(real) + len(kf)
        distinct = len({(r, i) for (r, i, _) in self.passed})
        samples = []
        per_rule = {}
        for (r, i, d) in self.passed:
            if per_rule.get(r, 0) < 3:
                per_rule[r] = per_rule.get(r, 0) + 1
                samples.append({"rule": r, "instance": i, "detail": d})
        samples = samples[:60]
        cov = {
            "evaluations": n_obl,
            "distinct_nontrivial": distinct,
            "rule": "each evaluation is one rule instance (rule, instance-key) decided on the facts extracted from /repo's current tree; distinct = distinct (rule, instance) keys that were decided 'holds'",
            "samples": samples or [{"note": "no instance evaluated"}],
            "obligations": n_obl,
            "discharged": len(self.passed),
            "checker_cmd": "./check %s --tier %s" % (self.pid, self.tier),
            "trusted_base": self.trusted,
            "explanation": self.technique,
            "configs": self.configs,
            "rule_instance_counts": self.rule_counts,
            "known_findings_reported": len(kf),
            "notes": self.notes[:80],
        }
        cov.update(self.extra)
        if extra_coverage:
            cov.update(extra_coverage)
        ev = {
            "property_id": self.pid,
            "tier": self.tier,
            "seed": self.seed,
            "level": self.level,
            "coverage": cov,
            "assumptions": self.assumptions,
            "wall_s": round(wall, 2),
            "violations": len(real),
        }
        with open(os.path.join(EVD, self.pid + ".json"), "w") as fh:
            json.dump(ev, fh, indent=1)
        print("%s: %d rule instances evaluated, %d hold, %d violations, %d known findings, %.1fs [%s]" % (
            self.pid, n_obl, len(self.passed), len(real), len(kf), wall, self.tier))
        return 1 if real else 0
