"""Limb kernels decided in the LIMBPOLY domain (lib/eng_limbpoly.py): value-exactness modulo p (field) resp. exactness (scalar products)."""
import re
import eng_limbpoly as LP
from eng_formula import pmul, padd, pconst, pvar
from absint import I


def one(F, rx):
    fs = [f for f in F.fns.values() if "mir" in f and f["kind"] != "Closure" and re.search(rx, f["path"])]
    return fs[0] if len(fs) == 1 else None


def show_mono(m):
    return "*".join(v if e == 1 else "%s^%d" % (v, e) for v, e in m) or "1"


def field_kernels(F):
    """yield (instance, fn, ok, msg) for the serial field backend(s) of the configuration"""
    for n, FE in ((5, r"serial::u64::field::FieldElement51"), (10, r"serial::u32::field::FieldElement2625")):
        T = FE.split("::")[-1]
        if one(F, FE + r"::square$") is None:
            continue
        A, B = LP.limbs("a", n), LP.limbs("b", n)
        va, vb = LP.value(A, n), LP.value(B, n)
        cases = [("mul", r"<&'a [\w:]*%s as core::ops::Mul<&'b [\w:]*>>::mul$" % T, [A, B], pmul(va, vb), "a b"),
                 ("square", FE + r"::square$", [A], pmul(va, va), "a^2"),
                 ("square2", FE + r"::square2$", [A], pmul(pconst(2), pmul(va, va)), "2 a^2"),
                 ("pow2k(1)", FE + r"::pow2k$", [A, I(1)], pmul(va, va), "a^2"),
                 ("pow2k(2)", FE + r"::pow2k$", [A, I(2)], pmul(pmul(va, va), pmul(va, va)), "a^4"),
                 ("negate", FE + r"::negate$", [A], pmul(pconst(-1), va), "-a (in place)"),
                 ("neg", r"<&'a [\w:]*%s as core::ops::Neg>::neg$" % T, [A], pmul(pconst(-1), va), "-a"),
                 ("sub", r"<&'a [\w:]*%s as core::ops::Sub<&'b [\w:]*>>::sub$" % T, [A, B], padd(va, vb, -1), "a - b"),
                 ("add", r"<&'a [\w:]*%s as core::ops::Add<&'b [\w:]*>>::add$" % T, [A, B], padd(va, vb), "a + b")]
        for nm, rx, args, want, desc in cases:
            inst = "%s::%s" % (T, nm)
            f = one(F, rx)
            if f is None:
                yield inst, None, False, "kernel not found"
                continue
            try:
                ret, ip, root = LP.run(F, f, args)
            except Exception as e:
                yield inst, f, False, "analysis failed: %r" % (e,)
                continue
            out = root.get(0) if nm == "negate" else ret
            v = LP.value(out, n)
            if v is None:
                yield inst, f, False, "the result limbs left the polynomial domain (an operation other than + - * << >> & mask reached them)"
                continue
            ok, bad = LP.congruent(v, want)
            if ok:
                yield inst, f, True, "sum out_k 2^(weight_k) = %s (mod p) identically in the input limbs and in every carry (%d opaque quotients cancel)" % (desc, len(ip.quot))
            else:
                m, c = bad[0]
                yield inst, f, False, "the value is not %s modulo p: the coefficient of %s in (result - expected) is %d, not a multiple of p" % (desc, show_mono(m), c % LP.P if abs(c) > LP.P else c)


def scalar_products(F):
    """yield (instance, fn, ok, msg): mul_internal / square_internal of the scalar backend are exact polynomial products"""
    for tag, ns, bits in (("52", 5, 52), ("29", 9, 29)):
        S = r"scalar::Scalar%s" % tag
        if one(F, S + r"::mul_internal$") is None:
            continue

        def sl(sym):
            return ("st", (("arr", tuple(LP.lp(pvar("%s%d" % (sym, i))) for i in range(ns))),))

        def sval(v, cnt):
            while v is not None and v[0] == "st" and len(v[1]) == 1:
                v = v[1][0]
            if v is None or v[0] != "arr" or len(v[1]) != cnt:
                return None
            tot = pconst(0)
            for k, x in enumerate(v[1]):
                p = LP.as_poly(x)
                if p is None:
                    return None
                tot = padd(tot, pmul(p, pconst(1 << (bits * k))))
            return tot
        SA, SB = sl("a"), sl("b")
        for nm, rx, args, want, desc in (("mul_internal", S + r"::mul_internal$", [SA, SB], pmul(sval(SA, ns), sval(SB, ns)), "a b"),
                                         ("square_internal", S + r"::square_internal$", [SA], pmul(sval(SA, ns), sval(SA, ns)), "a^2")):
            inst = "Scalar%s::%s" % (tag, nm)
            f = one(F, rx)
            if f is None:
                yield inst, None, False, "kernel not found"
                continue
            try:
                ret, ip, root = LP.run(F, f, args)
            except Exception as e:
                yield inst, f, False, "analysis failed: %r" % (e,)
                continue
            v = sval(ret, 2 * ns - 1)
            if v is None:
                yield inst, f, False, "the product limbs left the polynomial domain"
                continue
            d = padd(v, want, -1)
            if not d:
                yield inst, f, True, "sum z_k 2^(%d k) = %s exactly, as a polynomial identity in the %d input limbs%s" % (bits, desc, ns * (2 if nm == "mul_internal" else 1), " (Karatsuba: the wrapping subtractions cancel)" if tag == "29" else "")
            else:
                m, c = d[0]
                yield inst, f, False, "the column sums are not the product: the coefficient of %s differs by %d" % (show_mono(m), c)



def montgomery_reduce(F):
    """yield (instance, fn, ok, msg): R * (value handed to the final conditional subtraction) = input + n l for an integer polynomial n, i.e.
    the reduction divides by R modulo l.  The carries of the first half are exact divisions: p_i = (sum_i LFACTOR) mod 2^w and
    1 + LFACTOR l_0 = 0 mod 2^w make every coefficient of sum_i + p_i l_0 a multiple of 2^w (decided on the polynomial, with the constants' values)."""
    Lnum = 2 ** 252 + 27742317777372353535851937790883648493
    for tag, ns, bits in (("52", 5, 52), ("29", 9, 29)):
        S = r"scalar::Scalar%s" % tag
        f = one(F, S + r"::montgomery_reduce$")
        if f is None:
            continue
        inst = "Scalar%s::montgomery_reduce" % tag
        limbs_in = ("arr", tuple(LP.lp(pvar("t%d" % i)) for i in range(2 * ns - 1)))
        try:
            ret, ip, root = LP.run(F, f, [limbs_in], watch=S + r"::sub$")
        except Exception as e:
            yield inst, f, False, "analysis failed: %r" % (e,)
            continue
        lg = getattr(ip.models, "logged", [])
        if len(lg) != 1:
            yield inst, f, False, "expected one final conditional subtraction, found %d" % len(lg)
            continue

        def sval(v, cnt):
            while v is not None and v[0] == "st" and len(v[1]) == 1:
                v = v[1][0]
            if v is None or v[0] != "arr" or len(v[1]) != cnt:
                return None
            tot = pconst(0)
            for k, x in enumerate(v[1]):
                p = LP.as_poly(x)
                if p is None:
                    return None
                tot = padd(tot, pmul(p, pconst(1 << (bits * k))))
            return tot
        r, sub2 = sval(lg[0][0], ns), sval(lg[0][1], ns)
        tin = sval(limbs_in, 2 * ns - 1)
        if r is None:
            yield inst, f, False, "the value handed to the final subtraction left the polynomial domain"
            continue
        if sub2 is None or sub2 != pconst(Lnum):
            yield inst, f, False, "the final conditional subtraction does not subtract l"
            continue
        d = padd(pmul(r, pconst(1 << (bits * ns))), tin, -1)
        bad = [(m, c) for m, c in d if c % Lnum]
        if bad:
            m, c = bad[0]
            yield inst, f, False, "R * result - input is not a multiple of l: the coefficient of %s is %d mod l" % (show_mono(m), c % Lnum)
        else:
            yield inst, f, True, "R r = input + n l identically (n an integer polynomial in the input limbs and %d opaque quotients; %d carries are exact divisions by LFACTOR's defining property); r then goes through the conditional subtraction of l" % (
                len(ip.quot), getattr(ip, "exact_divisions", 0))


# ---- AVX2 vector field kernels (LANEPOLY)
SHUFFLES = {"AAAA": "AAAA", "BBBB": "BBBB", "CACA": "CACA", "DBBD": "DBBD", "ADDA": "ADDA", "CBCB": "CBCB", "ABAB": "ABAB", "BADC": "BADC",
            "BACD": "BACD", "ABDC": "ABDC"}
LANESETS = {"C": "C", "D": "D", "AB": "AB", "AC": "AC", "CD": "CD", "AD": "AD", "BC": "BC", "ABCD": "ABCD"}


def enum_variants(F, rx):
    for name, a in F.adts.items():
        if re.search(rx, name) and a["kind"] == "Enum":
            return [v["name"].split("::")[-1] for v in a["variants"]]
    return None


def vector_kernels(F):
    """yield (instance, fn, ok, msg) for the AVX2 vector field: every kernel's four results are congruent mod p to the specification on
    symbolic limbs, shuffle / blend are decided lane-exact for every variant of their control enums"""
    import eng_lanepoly as LN
    FE = r"vector::avx2::field::FieldElement2625x4"
    if one(F, r"^curve25519_dalek::backend::" + FE + r"::reduce$") is None:
        return
    E = "ABCD"

    def fn(rx):
        return one(F, rx)

    def run(f, mkargs):
        ip = LN.new_interp(F)
        args = mkargs(ip)
        ret, root = ip.run_root(f, args)
        return ip.deconst(ret) if ret is not None else None, ip

    def decide(inst, f, mkargs, spec, exact=False):
        """spec(e) -> polynomial the value of element e must be congruent to"""
        if f is None:
            yield inst, None, False, "kernel not found"
            return
        try:
            ret, ip = run(f, mkargs)
        except Exception as e:
            yield inst, f, False, "analysis failed: %r" % (e,)
            return
        bad = None
        for e in E:
            got = LN.elem_value(ret, e)
            if got is None:
                bad = "element %s left the polynomial lane domain" % e
                break
            ok, w = LP.congruent(got, spec(e))
            if not ok:
                bad = "element %s is not congruent to the specification modulo p: the coefficient of %s differs by %d mod p" % (e, show_mono(w[0][0]), w[0][1] % LP.P)
                break
        if bad:
            if ip.inexact_splits:
                bad += " (%d 64-bit lane values that need not fit 32 bits were read as 32-bit lanes)" % ip.inexact_splits
            yield inst, f, False, bad
        else:
            yield inst, f, True, "all four elements congruent to the specification mod p on symbolic limbs (%d opaque quotients, %d 64->32-bit lane reads all within their bound)" % (len(ip.quot), ip.splits)

    S = LN.elem_sym
    base = r"^curve25519_dalek::backend::" + FE
    # mul: self b < 2.5, rhs b < 1.75
    yield from decide("avx2:mul", fn(r"^<&'?\w* ?curve25519_dalek::backend::" + FE + r" as core::ops::Mul<&'?\w* ?curve25519_dalek::backend::" + FE + r">>::mul$"),
                      lambda ip: [LN.fe4(ip, "x", 2.5), LN.fe4(ip, "y", 1.75)], lambda e: pmul(S("x", e), S("y", e)))
    yield from decide("avx2:square_and_negate_D", fn(base + r"::square_and_negate_D$"), lambda ip: [LN.fe4(ip, "x", 1.5)],
                      lambda e: pmul(pmul(S("x", e), S("x", e)), pconst(-1 if e == "D" else 1)))
    yield from decide("avx2:reduce", fn(base + r"::reduce$"), lambda ip: [LN.fe4(ip, "x", 6.0)], lambda e: S("x", e))
    yield from decide("avx2:negate_lazy", fn(base + r"::negate_lazy$"), lambda ip: [LN.fe4(ip, "x", 0.999)], lambda e: pmul(S("x", e), pconst(-1)))
    yield from decide("avx2:neg", fn(r"^<curve25519_dalek::backend::" + FE + r" as core::ops::Neg>::neg$"), lambda ip: [LN.fe4(ip, "x", 4.0)], lambda e: pmul(S("x", e), pconst(-1)))
    yield from decide("avx2:add", fn(r"^<curve25519_dalek::backend::" + FE + r" as core::ops::Add>::add$"), lambda ip: [LN.fe4(ip, "x", 1.0), LN.fe4(ip, "y", 1.0)],
                      lambda e: padd(S("x", e), S("y", e)))
    ds = {"A": ("B", "A", -1), "B": ("B", "A", 1), "C": ("D", "C", -1), "D": ("D", "C", 1)}
    yield from decide("avx2:diff_sum", fn(base + r"::diff_sum$"), lambda ip: [LN.fe4(ip, "x", 0.01)], lambda e: padd(S("x", ds[e][0]), S("x", ds[e][1]), ds[e][2]))

    def small(ip):
        for k in range(4):
            ip.symbound["s%d" % k] = 1 << 20
        return [LN.fe4(ip, "x", 1.0), ("st", tuple(LP.lp(pvar("s%d" % k)) for k in range(4)))]
    yield from decide("avx2:mul_small", fn(r"^<curve25519_dalek::backend::" + FE + r" as core::ops::Mul<\(u32, u32, u32, u32\)>>::mul$"), small,
                      lambda e: pmul(S("x", e), pvar("s%d" % E.index(e))))

    # new: four serial elements in, element k congruent to x_k; split: the inverse
    def fe51(ip, sym):
        for i in range(5):
            ip.symbound["%s%d" % (sym, i)] = 1 << 54
        return LP.limbs(sym, 5)

    def v51(sym):
        tot = pconst(0)
        for i in range(5):
            tot = padd(tot, pmul(pvar("%s%d" % (sym, i)), pconst(1 << (51 * i))))
        return tot
    yield from decide("avx2:new", fn(base + r"::new$"), lambda ip: [fe51(ip, "p"), fe51(ip, "q"), fe51(ip, "r"), fe51(ip, "s")],
                      lambda e: v51("pqrs"[E.index(e)]))
    f = fn(base + r"::split$")
    if f is None:
        yield "avx2:split", None, False, "kernel not found"
    else:
        try:
            ret, ip = run(f, lambda ip: [LN.fe4(ip, "x", 1.0)])
            bad = None
            if ret is None or ret[0] != "arr" or len(ret[1]) != 4:
                bad = "the result is not an array of four field elements"
            else:
                for k, e in enumerate(E):
                    got = LP.value(ret[1][k], 5)
                    if got is None:
                        bad = "element %s left the polynomial domain" % e
                        break
                    ok, w = LP.congruent(got, S("x", e))
                    if not ok:
                        bad = "output %d is not the value of element %s: the coefficient of %s differs" % (k, e, show_mono(w[0][0]))
                        break
            yield "avx2:split", f, not bad, bad or "the four outputs are the values of elements A, B, C, D"
        except Exception as e:
            yield "avx2:split", f, False, "analysis failed: %r" % (e,)

    # shuffle / blend: lane-exact for every control value
    for kind, rx, table in (("shuffle", r"avx2::field::Shuffle$", SHUFFLES), ("blend", r"avx2::field::Lanes$", LANESETS)):
        f = fn(base + r"::" + kind + "$")
        vs = enum_variants(F, rx)
        if f is None or not vs:
            yield "avx2:" + kind, f, False, "kernel or its control enum not found"
            continue
        for vi, vn in enumerate(vs):
            inst = "avx2:%s(%s)" % (kind, vn)
            if vn not in table:
                yield inst, f, False, "control value %s has no entry in the checker's table: its meaning must be confirmed" % vn
                continue
            try:
                ctl = ("en", ((vi, ()),))
                if kind == "shuffle":
                    ret, ip = run(f, lambda ip: [LN.fe4(ip, "x", 1.0), ctl])
                    want = {(e, j): pvar("x%s%d" % (table[vn][k], j)) for k, e in enumerate(E) for j in range(10)}
                else:
                    ret, ip = run(f, lambda ip: [LN.fe4(ip, "x", 1.0), LN.fe4(ip, "y", 1.0), ctl])
                    want = {(e, j): pvar("%s%s%d" % ("y" if e in table[vn] else "x", e, j)) for e in E for j in range(10)}
                got = LN.lanes_of(ret)
                if got is None:
                    yield inst, f, False, "the result left the lane domain"
                    continue
                bad = [k for k in want if got.get(k) != want[k]]
                if bad:
                    e, j = sorted(bad)[0]
                    yield inst, f, False, "limb %d of element %s is %s, expected %s" % (j, e, "?" if got[(e, j)] is None else " + ".join(show_mono(m) for m, c in got[(e, j)]) or "0", show_mono(want[(e, j)][0][0]))
                else:
                    yield inst, f, True, "every limb of every element comes from the element the control names"
            except Exception as e:
                yield inst, f, False, "analysis failed: %r" % (e,)
