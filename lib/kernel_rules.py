"""Limb kernels decided in the LIMBPOLY domain (lib/eng_limbpoly.py): value-exactness modulo p (field) resp. exactness (scalar products)."""
import re
import eng_limbpoly as LP
from eng_formula import pmul, padd, pconst, pvar
from absint import I


def one(F, rx):
    fs = [f for f in F.fns.values() if "mir" in f and f["kind"] != "Closure" and re.search(rx, f["path"])]
    return fs[0] if len(fs) == 1 else None


def show_mono(m):
    return "*".join(v if e == 1 else "%s^%d" % (v, e) for v, e in m) or "1"


def field_kernels(F):
    """yield (instance, fn, ok, msg) for the serial field backend(s) of the configuration"""
    for n, FE in ((5, r"serial::u64::field::FieldElement51"), (10, r"serial::u32::field::FieldElement2625")):
        T = FE.split("::")[-1]
        if one(F, FE + r"::square$") is None:
            continue
        A, B = LP.limbs("a", n), LP.limbs("b", n)
        va, vb = LP.value(A, n), LP.value(B, n)
        cases = [("mul", r"<&'a [\w:]*%s as core::ops::Mul<&'b [\w:]*>>::mul$" % T, [A, B], pmul(va, vb), "a b"),
                 ("square", FE + r"::square$", [A], pmul(va, va), "a^2"),
                 ("square2", FE + r"::square2$", [A], pmul(pconst(2), pmul(va, va)), "2 a^2"),
                 ("pow2k(1)", FE + r"::pow2k$", [A, I(1)], pmul(va, va), "a^2"),
                 ("pow2k(2)", FE + r"::pow2k$", [A, I(2)], pmul(pmul(va, va), pmul(va, va)), "a^4"),
                 ("negate", FE + r"::negate$", [A], pmul(pconst(-1), va), "-a (in place)"),
                 ("neg", r"<&'a [\w:]*%s as core::ops::Neg>::neg$" % T, [A], pmul(pconst(-1), va), "-a"),
                 ("sub", r"<&'a [\w:]*%s as core::ops::Sub<&'b [\w:]*>>::sub$" % T, [A, B], padd(va, vb, -1), "a - b"),
                 ("add", r"<&'a [\w:]*%s as core::ops::Add<&'b [\w:]*>>::add$" % T, [A, B], padd(va, vb), "a + b")]
        for nm, rx, args, want, desc in cases:
            inst = "%s::%s" % (T, nm)
            f = one(F, rx)
            if f is None:
                yield inst, None, False, "kernel not found"
                continue
            try:
                ret, ip, root = LP.run(F, f, args)
            except Exception as e:
                yield inst, f, False, "analysis failed: %r" % (e,)
                continue
            out = root.get(0) if nm == "negate" else ret
            v = LP.value(out, n)
            if v is None:
                yield inst, f, False, "the result limbs left the polynomial domain (an operation other than + - * << >> & mask reached them)"
                continue
            ok, bad = LP.congruent(v, want)
            if ok:
                yield inst, f, True, "sum out_k 2^(weight_k) = %s (mod p) identically in the input limbs and in every carry (%d opaque quotients cancel)" % (desc, len(ip.quot))
            else:
                m, c = bad[0]
                yield inst, f, False, "the value is not %s modulo p: the coefficient of %s in (result - expected) is %d, not a multiple of p" % (desc, show_mono(m), c % LP.P if abs(c) > LP.P else c)


def scalar_products(F):
    """yield (instance, fn, ok, msg): mul_internal / square_internal of the scalar backend are exact polynomial products"""
    for tag, ns, bits in (("52", 5, 52), ("29", 9, 29)):
        S = r"scalar::Scalar%s" % tag
        if one(F, S + r"::mul_internal$") is None:
            continue

        def sl(sym):
            return ("st", (("arr", tuple(LP.lp(pvar("%s%d" % (sym, i))) for i in range(ns))),))

        def sval(v, cnt):
            while v is not None and v[0] == "st" and len(v[1]) == 1:
                v = v[1][0]
            if v is None or v[0] != "arr" or len(v[1]) != cnt:
                return None
            tot = pconst(0)
            for k, x in enumerate(v[1]):
                p = LP.as_poly(x)
                if p is None:
                    return None
                tot = padd(tot, pmul(p, pconst(1 << (bits * k))))
            return tot
        SA, SB = sl("a"), sl("b")
        for nm, rx, args, want, desc in (("mul_internal", S + r"::mul_internal$", [SA, SB], pmul(sval(SA, ns), sval(SB, ns)), "a b"),
                                         ("square_internal", S + r"::square_internal$", [SA], pmul(sval(SA, ns), sval(SA, ns)), "a^2")):
            inst = "Scalar%s::%s" % (tag, nm)
            f = one(F, rx)
            if f is None:
                yield inst, None, False, "kernel not found"
                continue
            try:
                ret, ip, root = LP.run(F, f, args)
            except Exception as e:
                yield inst, f, False, "analysis failed: %r" % (e,)
                continue
            v = sval(ret, 2 * ns - 1)
            if v is None:
                yield inst, f, False, "the product limbs left the polynomial domain"
                continue
            d = padd(v, want, -1)
            if not d:
                yield inst, f, True, "sum z_k 2^(%d k) = %s exactly, as a polynomial identity in the %d input limbs%s" % (bits, desc, ns * (2 if nm == "mul_internal" else 1), " (Karatsuba: the wrapping subtractions cancel)" if tag == "29" else "")
            else:
                m, c = d[0]
                yield inst, f, False, "the column sums are not the product: the coefficient of %s differs by %d" % (show_mono(m), c)
