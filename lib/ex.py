"""Small matchers over the expression trees produced by mirlib.expr_of."""
import re

_TRANSPARENT = re.compile(r"(core::ops::Deref>::deref$|core::borrow::Borrow<.*>>::borrow$|core::convert::AsRef<.*>>::as_ref$|"
                          r"core::clone::Clone>::clone$|core::convert::Into<.*>>::into$|core::convert::From<.*>>::from$)")


def strip(e, through_calls=True):
    """remove refs, casts, copies and transparent adapter calls around an expression"""
    while True:
        if not isinstance(e, tuple):
            return e
        if e[0] == "ref":
            e = e[1]
        elif e[0] == "cast":
            e = e[1]
        elif through_calls and e[0] == "call" and _TRANSPARENT.search(e[1]) and len(e[2]) == 1:
            e = e[2][0]
        elif e[0] == "proj" and e[2].replace("*", "") == "":
            e = e[1]
        else:
            return e


def is_call(e, pat):
    e = strip(e, through_calls=False)
    return isinstance(e, tuple) and e[0] == "call" and re.search(pat, e[1]) is not None


def call_args(e):
    e = strip(e, through_calls=False)
    return e[2]


def is_arg(e, i, proj_pat=None):
    """expression is (a projection of) argument i; proj_pat is a regex on the projection key with derefs removed"""
    e = strip(e)
    if not (isinstance(e, tuple) and e[0] == "arg" and e[1] == i):
        return False
    if proj_pat is None:
        return True
    return re.fullmatch(proj_pat, e[2].replace("*", "")) is not None


def is_const(e, v=None):
    e = strip(e)
    if not (isinstance(e, tuple) and e[0] == "const"):
        return False
    return v is None or e[1] == v


def const_bytes(e):
    """bytes of a byte-string / array constant expression, else None"""
    e = strip(e)
    if isinstance(e, tuple) and e[0] == "const":
        v = e[1]
        if isinstance(v, dict) and "ref" in v:
            v = v["ref"]
        if isinstance(v, dict) and "ref_slice" in v:
            v = v["ref_slice"]
        if isinstance(v, list) and all(isinstance(x, int) for x in v):
            return bytes(x & 0xff for x in v)
    if isinstance(e, tuple) and e[0] == "agg" and e[1][0] == "array":
        out = []
        for x in e[2]:
            x = strip(x)
            if isinstance(x, tuple) and x[0] == "const" and isinstance(x[1], int):
                out.append(x[1] & 0xff)
            else:
                return None
        return bytes(out)
    return None


def find(e, pred):
    """all sub-expressions satisfying pred"""
    out = []

    def walk(x):
        if isinstance(x, tuple):
            if pred(x):
                out.append(x)
            for y in x[1:]:
                walk(y)
        elif isinstance(x, list):
            for y in x:
                walk(y)
    walk(e)
    return out


def mentions_arg(e, i, proj_pat=None):
    return bool(find(e, lambda x: x[0] == "arg" and x[1] == i and (proj_pat is None or re.fullmatch(proj_pat, x[2].replace("*", "")))))


def mentions_call(e, pat):
    return bool(find(e, lambda x: x[0] == "call" and re.search(pat, x[1])))


def show(e, depth=4):
    if not isinstance(e, tuple):
        return str(e)[:40]
    if depth <= 0:
        return "..."
    k = e[0]
    if k == "const":
        b = const_bytes(e)
        if b is not None and len(b) > 4:
            return "b%r" % b[:40]
        return "%s" % (e[3] if e[3] else e[1],)
    if k == "arg":
        return "arg%d%s" % (e[1], e[2])
    if k == "local":
        return ("_%d%s" % (e[1], e[2])) if isinstance(e[1], int) else ("%s%s" % (e[1], e[2]))
    if k == "call":
        return "%s(%s)" % (re.sub(r"<[^<>]*>", "", e[1]).split("::")[-1] if "::" in e[1] else e[1], ", ".join(show(a, depth - 1) for a in e[2]))
    if k == "bin":
        return "%s(%s, %s)" % (e[1], show(e[2], depth - 1), show(e[3], depth - 1))
    if k == "un":
        return "%s(%s)" % (e[1], show(e[2], depth - 1))
    if k == "ref":
        return "&" + show(e[1], depth)
    if k == "cast":
        return "(%s as %s)" % (show(e[1], depth - 1), e[2])
    if k == "idx":
        return "%s[%s]" % (show(e[1], depth - 1), show(e[2], depth - 1))
    if k == "agg":
        return "%s{%s}" % (e[1][0], ", ".join(show(a, depth - 1) for a in e[2]))
    if k == "proj":
        return "(%s)%s" % (show(e[1], depth - 1), e[2])
    return k


# ---------------------------------------------------------------------------- boolean structure of Choice / bool expressions

_NOT = re.compile(r"(<subtle::Choice as core::ops::Not>::not$|<bool as core::ops::Not>::not$)")
_AND = re.compile(r"(<subtle::Choice as core::ops::BitAnd>::bitand$|<bool as core::ops::BitAnd>::bitand$)")
_OR = re.compile(r"(<subtle::Choice as core::ops::BitOr>::bitor$|<bool as core::ops::BitOr>::bitor$)")
_SAME = re.compile(r"(<bool as core::convert::From<subtle::Choice>>::from$|<subtle::Choice as core::convert::Into<bool>>::into$|"
                   r"subtle::Choice::unwrap_u8$|<subtle::Choice as core::convert::From<u8>>::from$|core::hint::black_box)")


def implications(e, val):
    """Atoms (sub-expressions that are not Choice/bool connectives) whose value is forced when the
    boolean expression `e` evaluates to `val` (True/False).  Returns list of (atom_expr, bool)."""
    e = strip(e)
    if not isinstance(e, tuple):
        return []
    if e[0] == "call":
        n = e[1]
        if _NOT.search(n):
            return implications(e[2][0], not val)
        if _SAME.search(n):
            return implications(e[2][0], val)
        if _AND.search(n):
            return implications(e[2][0], True) + implications(e[2][1], True) if val else []
        if _OR.search(n):
            return implications(e[2][0], False) + implications(e[2][1], False) if not val else []
        return [(e, val)]
    if e[0] == "un" and e[1] == "Not":
        return implications(e[2], not val)
    if e[0] == "bin" and e[1] == "BitAnd":
        return implications(e[2], True) + implications(e[3], True) if val else []
    if e[0] == "bin" and e[1] == "BitOr":
        return implications(e[2], False) + implications(e[3], False) if not val else []
    if e[0] == "bin" and e[1] in ("Eq", "Ne"):
        a, b = strip(e[2]), strip(e[3])
        for x, k in ((a, b), (b, a)):
            if k[0] == "const" and k[1] in (0, 1):
                same = (k[1] == 1) == (e[1] == "Eq")
                return implications(x, val if same else not val)
    return [(e, val)]
