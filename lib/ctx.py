"""Shared helper: obtain Facts objects for a list of (cfg, mode); type-check failures are violations."""
import extract
from facts import Facts

_cache = {}


def facts_for(R, wanted):
    dirs, failed, th = extract.ensure(wanted)
    R.extra["tree_hash"] = th
    out = {}
    for f in failed:
        R.viol("build", "%s/%s" % (f["key"], f["mode"]),
               "configuration %s does not type-check: %s" % (f["key"], f.get("output_tail", "")[-600:].replace("\n", " | ")))
    for km, d in dirs.items():
        if any(f["key"] == km[0] and f["mode"] == km[1] for f in failed):
            continue
        if d not in _cache:
            _cache[d] = Facts(d)
        out[km] = _cache[d]
        R.configs.append("%s/%s" % km)
    return out
