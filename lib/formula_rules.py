"""Rules decided in the FORMULA domain (lib/eng_formula.py) for the Edwards curve models: every conversion between the four coordinate
systems, doubling, the four mixed additions / subtractions, negation, identity elements, and the public EdwardsPoint add / sub / double /
neg, each against the twisted Edwards addition law  (x1,y1)+(x2,y2) = ((x1 y2 + y1 x2)/(1 + d x1 x2 y1 y2), (y1 y2 + x1 x2)/(1 - d x1 x2 y1 y2))
for a = -1.  Used by props/C03.py."""
import re
import eng_formula as FM
from absint import I
from eng_formula import fvar, fconst, fadd, fmul, fneg, finv, is_zero, show

CM = r"backend::serial::curve_models::"


def fields(F, adt):
    a = F.adts.get(adt) or F.adt_of(adt)
    return [x["name"] for x in a["variants"][0]["fields"]]


def mk(F, adt, **kw):
    return ("st", tuple(kw[n] for n in fields(F, adt)))


CONST = [None]      # FmModels of the current backend: converts constant field elements met in results


def get(F, adt, v, name):
    if v is None or v[0] != "st":
        return None
    fs = fields(F, adt)
    x = v[1][fs.index(name)]
    if x[0] == "fe":
        return x
    return CONST[0].const_fe(x) if CONST[0] is not None else None


EP = "curve25519_dalek::edwards::EdwardsPoint"
PP = "curve25519_dalek::backend::serial::curve_models::ProjectivePoint"
CP = "curve25519_dalek::backend::serial::curve_models::CompletedPoint"
PN = "curve25519_dalek::backend::serial::curve_models::ProjectiveNielsPoint"
AN = "curve25519_dalek::backend::serial::curve_models::AffineNielsPoint"

d = fvar("d")
one = fconst(1)


def affine(i):
    return fvar("x%d" % i), fvar("y%d" % i)


def extended(F, i):
    x, y = affine(i)
    Z = fvar("Z%d" % i)
    return mk(F, EP, X=fmul(x, Z), Y=fmul(y, Z), Z=Z, T=fmul(fmul(x, y), Z))


def projective(F, i):
    x, y = affine(i)
    Z = fvar("Z%d" % i)
    return mk(F, PP, X=fmul(x, Z), Y=fmul(y, Z), Z=Z)


def pniels(F, i, neg=False):
    x, y = affine(i)
    if neg:
        x = fneg(x)
    Z = fvar("Z%d" % i)
    return mk(F, PN, Y_plus_X=fmul(fadd(y, x), Z), Y_minus_X=fmul(fadd(y, x, -1), Z), Z=Z, T2d=fmul(fmul(fmul(fconst(2), d), fmul(x, y)), Z))


def aniels(F, i):
    x, y = affine(i)
    return mk(F, AN, y_plus_x=fadd(y, x), y_minus_x=fadd(y, x, -1), xy2d=fmul(fmul(fconst(2), d), fmul(x, y)))


def law(x1, y1, x2, y2):
    """(numerator_x, denominator_x, numerator_y, denominator_y) of the addition law"""
    k = fmul(d, fmul(fmul(x1, x2), fmul(y1, y2)))
    return fadd(fmul(x1, y2), fmul(y1, x2)), fadd(one, k), fadd(fmul(y1, y2), fmul(x1, x2)), fadd(one, k, -1)


def eq_ratio(a_num, a_den, b_num, b_den, curve=()):
    """a_num/a_den == b_num/b_den  as an identity (cross-multiplied)"""
    return is_zero(fadd(fmul(a_num, b_den), fmul(b_num, a_den), -1), curve)


def check_point(F, kind, v, x, y, curve=()):
    """does the abstract point value v (of coordinate system `kind`) denote the affine point (x, y) = (xn/xd, yn/yd)?  returns list of failed clauses"""
    xn, xd, yn, yd = x[0], x[1], y[0], y[1]
    bad = []
    if kind == "completed":
        X, Y, Z, T = (get(F, CP, v, n) for n in "XYZT")
        if None in (X, Y, Z, T):
            return ["a coordinate left the domain"]
        if not eq_ratio(X, Z, xn, xd, curve):
            bad.append("X/Z is not the x-coordinate of the law (X/Z = %s)" % show(fmul(X, finv(Z))))
        if not eq_ratio(Y, T, yn, yd, curve):
            bad.append("Y/T is not the y-coordinate of the law (Y/T = %s)" % show(fmul(Y, finv(T))))
    elif kind == "extended":
        X, Y, Z, T = (get(F, EP, v, n) for n in "XYZT")
        if None in (X, Y, Z, T):
            return ["a coordinate left the domain"]
        if not eq_ratio(X, Z, xn, xd, curve):
            bad.append("X/Z is not the expected x-coordinate (X/Z = %s)" % show(fmul(X, finv(Z))))
        if not eq_ratio(Y, Z, yn, yd, curve):
            bad.append("Y/Z is not the expected y-coordinate (Y/Z = %s)" % show(fmul(Y, finv(Z))))
        if not is_zero(fadd(fmul(X, Y), fmul(Z, T), -1), curve):
            bad.append("X*Y != Z*T (the extended coordinate T is inconsistent)")
    elif kind == "projective":
        X, Y, Z = (get(F, PP, v, n) for n in "XYZ")
        if None in (X, Y, Z):
            return ["a coordinate left the domain"]
        if not eq_ratio(X, Z, xn, xd, curve):
            bad.append("X/Z is not the expected x-coordinate (X/Z = %s)" % show(fmul(X, finv(Z))))
        if not eq_ratio(Y, Z, yn, yd, curve):
            bad.append("Y/Z is not the expected y-coordinate (Y/Z = %s)" % show(fmul(Y, finv(Z))))
    elif kind == "pniels":
        A, B, Z, T2d = (get(F, PN, v, n) for n in ("Y_plus_X", "Y_minus_X", "Z", "T2d"))
        if None in (A, B, Z, T2d):
            return ["a coordinate left the domain"]
        # (Y+X)/Z = y + x, (Y-X)/Z = y - x, T2d/Z = 2 d x y
        xs, ys = fmul(xn, finv(xd)), fmul(yn, finv(yd))
        if not is_zero(fadd(fmul(A, finv(Z)), fadd(ys, xs), -1), curve):
            bad.append("Y_plus_X/Z != y + x")
        if not is_zero(fadd(fmul(B, finv(Z)), fadd(ys, xs, -1), -1), curve):
            bad.append("Y_minus_X/Z != y - x")
        if not is_zero(fadd(fmul(T2d, finv(Z)), fmul(fmul(fconst(2), d), fmul(xs, ys)), -1), curve):
            bad.append("T2d/Z != 2 d x y")
    elif kind == "aniels":
        A, B, C = (get(F, AN, v, n) for n in ("y_plus_x", "y_minus_x", "xy2d"))
        if None in (A, B, C):
            return ["a coordinate left the domain"]
        xs, ys = fmul(xn, finv(xd)), fmul(yn, finv(yd))
        if not is_zero(fadd(A, fadd(ys, xs), -1), curve):
            bad.append("y_plus_x != y + x")
        if not is_zero(fadd(B, fadd(ys, xs, -1), -1), curve):
            bad.append("y_minus_x != y - x")
        if not is_zero(fadd(C, fmul(fmul(fconst(2), d), fmul(xs, ys)), -1), curve):
            bad.append("xy2d != 2 d x y")
    return bad


def cases(F):
    """(instance name, function path regex, argument values, output kind, expected (x, y) as ((xn, xd), (yn, yd)), curve points for reduction)"""
    x1, y1 = affine(1)
    x2, y2 = affine(2)
    P1 = ((x1, one), (y1, one))
    sx, sdx, sy, sdy = law(x1, y1, x2, y2)
    ADD = ((sx, sdx), (sy, sdy))
    mx, mdx, my, mdy = law(x1, y1, fneg(x2), y2)
    SUB = ((mx, mdx), (my, mdy))
    dx, ddx, dy, ddy = law(x1, y1, x1, y1)
    DBL = ((dx, ddx), (dy, ddy))
    NEG = ((fneg(x1), one), (y1, one))
    ID = ((fconst(0), one), (one, one))
    gen_c = mk(F, CP, X=fvar("X"), Y=fvar("Y"), Z=fvar("Z"), T=fvar("T"))
    GC = ((fvar("X"), fvar("Z")), (fvar("Y"), fvar("T")))
    gen_p = mk(F, PP, X=fvar("X"), Y=fvar("Y"), Z=fvar("Z"))
    GP = ((fvar("X"), fvar("Z")), (fvar("Y"), fvar("Z")))
    c1 = [("x1", "y1")]
    out = [
        ("ProjectivePoint::as_extended", CM + r"ProjectivePoint::as_extended$", [gen_p], "extended", GP, ()),
        ("CompletedPoint::as_projective", CM + r"CompletedPoint::as_projective$", [gen_c], "projective", GC, ()),
        ("CompletedPoint::as_extended", CM + r"CompletedPoint::as_extended$", [gen_c], "extended", GC, ()),
        ("ProjectivePoint::double", CM + r"ProjectivePoint::double$", [projective(F, 1)], "completed", DBL, c1),
        ("EdwardsPoint + ProjectiveNielsPoint", r"impl core::ops::Add<&'?\w* ?[\w:]*ProjectiveNielsPoint> for &'?\w* ?[\w:]*EdwardsPoint>::add$", [extended(F, 1), pniels(F, 2)], "completed", ADD, ()),
        ("EdwardsPoint - ProjectiveNielsPoint", r"impl core::ops::Sub<&'?\w* ?[\w:]*ProjectiveNielsPoint> for &'?\w* ?[\w:]*EdwardsPoint>::sub$", [extended(F, 1), pniels(F, 2)], "completed", SUB, ()),
        ("EdwardsPoint + AffineNielsPoint", r"impl core::ops::Add<&'?\w* ?[\w:]*AffineNielsPoint> for &'?\w* ?[\w:]*EdwardsPoint>::add$", [extended(F, 1), aniels(F, 2)], "completed", ADD, ()),
        ("EdwardsPoint - AffineNielsPoint", r"impl core::ops::Sub<&'?\w* ?[\w:]*AffineNielsPoint> for &'?\w* ?[\w:]*EdwardsPoint>::sub$", [extended(F, 1), aniels(F, 2)], "completed", SUB, ()),
        ("-ProjectiveNielsPoint", r"<&'?\w* ?.*ProjectiveNielsPoint as core::ops::Neg>::neg$", [pniels(F, 1)], "pniels", NEG, ()),
        ("-AffineNielsPoint", r"<&'?\w* ?.*AffineNielsPoint as core::ops::Neg>::neg$", [aniels(F, 1)], "aniels", NEG, ()),
        ("EdwardsPoint::as_projective_niels", r"edwards::EdwardsPoint::as_projective_niels$", [extended(F, 1)], "pniels", P1, ()),
        ("EdwardsPoint::as_projective", r"edwards::EdwardsPoint::as_projective$", [extended(F, 1)], "projective", P1, ()),
        ("EdwardsPoint::as_affine_niels", r"edwards::EdwardsPoint::as_affine_niels$", [extended(F, 1)], "aniels", P1, ()),
        ("EdwardsPoint::double", r"edwards::EdwardsPoint::double$", [extended(F, 1)], "extended", DBL, c1),
        ("&EdwardsPoint + &EdwardsPoint", r"<&'?\w* ?curve25519_dalek::edwards::EdwardsPoint as core::ops::Add<&'?\w* ?curve25519_dalek::edwards::EdwardsPoint>>::add$", [extended(F, 1), extended(F, 2)], "extended", ADD, ()),
        ("&EdwardsPoint - &EdwardsPoint", r"<&'?\w* ?curve25519_dalek::edwards::EdwardsPoint as core::ops::Sub<&'?\w* ?curve25519_dalek::edwards::EdwardsPoint>>::sub$", [extended(F, 1), extended(F, 2)], "extended", SUB, ()),
        ("-&EdwardsPoint", r"<&'?\w* ?curve25519_dalek::edwards::EdwardsPoint as core::ops::Neg>::neg$", [extended(F, 1)], "extended", NEG, ()),
        ("EdwardsPoint::identity", r"edwards::EdwardsPoint as .*traits::Identity>::identity$", [], "extended", ID, ()),
        ("ProjectivePoint::identity", CM + r"ProjectivePoint as .*Identity>::identity$", [], "projective", ID, ()),
        ("ProjectiveNielsPoint::identity", r"ProjectiveNielsPoint as .*Identity>::identity$", [], "pniels", ID, ()),
        ("AffineNielsPoint::identity", r"AffineNielsPoint as .*Identity>::identity$", [], "aniels", ID, ()),
    ]
    return out


def run_cases(F, fe_ty):
    """yield (instance, fn or None, ok, message)"""
    radix = FM.radix_for(F, fe_ty)
    CONST[0] = FM.FmModels(radix)
    for inst, rx, args, kind, (x, y), curve in cases(F):
        fs = [f for f in F.fns.values() if "mir" in f and f["kind"] != "Closure" and re.search(rx, f["path"])]
        if len(fs) != 1:
            yield inst, None, False, "expected exactly one function matching %s, found %d" % (rx, len(fs))
            continue
        f = fs[0]
        try:
            ret, ip, _ = FM.run(F, f, args, radix)
        except Exception as e:
            yield inst, f, False, "analysis failed: %r" % (e,)
            continue
        bad = check_point(F, kind, ret, x, y, curve)
        if bad:
            yield inst, f, False, "; ".join(bad)
        else:
            yield inst, f, True, "%s output = the expected affine point as a rational identity%s (%d field operations)" % (kind, " modulo the curve equation" if curve else "", ip.models.ops)


# ------------------------------------------------------------------------------------------------ Montgomery (C07)
MPP = "curve25519_dalek::montgomery::ProjectivePoint"
A_COEFF = 486662


def ladder_step(F, fe_ty):
    """differential_add_and_double against Montgomery's x-only formulas:
         x(2P)  = (U^2 - W^2)^2 / (4 U W (U^2 + A U W + W^2))
         x(P+Q) = (U_P U_Q - W_P W_Q)^2 / (u_D (U_P W_Q - W_P U_Q)^2)       with u_D the affine x of P - Q"""
    radix = FM.radix_for(F, fe_ty)
    CONST[0] = FM.FmModels(radix)
    fs = [f for f in F.fns.values() if "mir" in f and re.search(r"montgomery::differential_add_and_double$", f["path"])]
    if len(fs) != 1:
        return None, False, "expected one differential_add_and_double, found %d" % len(fs)
    f = fs[0]
    U1, W1, U2, W2, uD = (fvar(n) for n in ("U1", "W1", "U2", "W2", "uD"))
    P = mk(F, MPP, U=U1, W=W1)
    Q = mk(F, MPP, U=U2, W=W2)
    try:
        ret, ip, root = FM.run(F, f, [P, Q, uD], radix)
    except Exception as e:
        return f, False, "analysis failed: %r" % (e,)
    P2, Q2 = root.get(0), root.get(1)
    rv = ip.deconst(ret) if ret is not None else None
    if rv is not None and rv[0] == "st" and len(rv[1]) == 2 and re.match(r"^\(.*ProjectivePoint, .*ProjectivePoint\)$", f.get("output") or ""):
        P2, Q2 = ip.deconst(rv[1][0]), ip.deconst(rv[1][1])          # the functional form: (2P, P+Q) is returned, the inputs are untouched
    pu, pw, qu, qw = get(F, MPP, P2, "U"), get(F, MPP, P2, "W"), get(F, MPP, Q2, "U"), get(F, MPP, Q2, "W")
    if None in (pu, pw, qu, qw):
        return f, False, "a coordinate left the domain"
    sq = lambda a: fmul(a, a)
    dbl_n = sq(fadd(sq(U1), sq(W1), -1))
    dbl_d = fmul(fmul(fconst(4), fmul(U1, W1)), fadd(fadd(sq(U1), sq(W1)), fmul(fconst(A_COEFF), fmul(U1, W1))))
    add_n = sq(fadd(fmul(U1, U2), fmul(W1, W2), -1))
    add_d = fmul(uD, sq(fadd(fmul(U1, W2), fmul(W1, U2), -1)))
    bad = []
    if not eq_ratio(pu, pw, dbl_n, dbl_d):
        bad.append("P' = (%s : %s) is not x(2P)" % (show(pu, 3), show(pw, 3)))
    if not eq_ratio(qu, qw, add_n, add_d):
        bad.append("Q' = (%s : %s) is not x(P+Q) for the given difference" % (show(qu, 3), show(qw, 3)))
    if bad:
        return f, False, "; ".join(bad)
    return f, True, "P' = x(2P) = (U^2-W^2)^2 / (4UW(U^2 + %d UW + W^2)), Q' = x(P+Q) = (U_P U_Q - W_P W_Q)^2 / (u_D (U_P W_Q - W_P U_Q)^2) as rational identities (%d field operations)" % (A_COEFF, ip.models.ops)


WATCH = r"field::FieldElement\w+::as_bytes$|FieldElement\w+>::is_negative$|FieldElement\w+>::sqrt_ratio_i$"


def encoded_values(F, fe_ty, fn_rx, args, from_bytes_sym=None, choices=None, neg_seq=None, watch=WATCH):
    """run a function and return (fn, the arguments of every as_bytes / is_negative / sqrt_ratio_i call, return value, interpreter)"""
    radix = FM.radix_for(F, fe_ty)
    CONST[0] = FM.FmModels(radix)
    fs = [f for f in F.fns.values() if "mir" in f and f["kind"] != "Closure" and re.search(fn_rx, f["path"])]
    if len(fs) != 1:
        return None, None, None, "expected one function matching %s, found %d" % (fn_rx, len(fs))
    f = fs[0]
    try:
        ret, ip, root = FM.run(F, f, args, radix, watch=watch, choices=choices, from_bytes=from_bytes_sym, neg_seq=neg_seq)
    except Exception as e:
        return f, None, None, "analysis failed: %r" % (e,)
    return f, ip.models.logged, ret, ip


def birational(F, fe_ty):
    """yield (instance, fn, ok, msg): EdwardsPoint::to_montgomery encodes u = (1+y)/(1-y); MontgomeryPoint::to_edwards decodes y = (u-1)/(u+1)"""
    x, y = affine(1)
    f, logged, ret, ip = encoded_values(F, fe_ty, r"edwards::EdwardsPoint::to_montgomery$", [extended(F, 1)])
    if logged is None:
        yield "EdwardsPoint::to_montgomery", f, False, ip
    else:
        enc = [a[0] for nm, a in logged if nm.endswith("as_bytes") and a and a[0] is not None]
        ok = len(enc) == 1 and eq_ratio(enc[0], one, fadd(one, y), fadd(one, y, -1))
        yield "EdwardsPoint::to_montgomery", f, ok, ("the encoded value is u = (1+y)/(1-y) with y = Y/Z" if ok else
                                                   "the encoded value is %s, not (1+y)/(1-y)" % (show(enc[0]) if enc else "outside the domain"))
    f, logged, ret, ip = encoded_values(F, fe_ty, r"montgomery::MontgomeryPoint::to_edwards$", [("st", (("arr", (I(0, 255),) * 32),)), I(0, 255)], from_bytes_sym="u")
    if logged is None:
        yield "MontgomeryPoint::to_edwards", f, False, ip
    else:
        u = fvar("u")
        enc = [a[0] for nm, a in logged if nm.endswith("as_bytes") and a and a[0] is not None]
        ok = len(enc) == 1 and eq_ratio(enc[0], one, fadd(u, one, -1), fadd(u, one))
        yield "MontgomeryPoint::to_edwards", f, ok, ("the Edwards y handed to the decoder is (u-1)/(u+1)" if ok else
                                                      "the value handed to the Edwards decoder is %s, not (u-1)/(u+1)" % (show(enc[0]) if enc else "outside the domain"))


def codec(F, fe_ty):
    """yield (instance, fn, ok, msg): Edwards compression encodes y = Y/Z with the sign of x = X/Z; decompression solves x^2 = (y^2-1)/(d y^2+1),
    applies the sign bit and returns (x, y, 1, x y)"""
    x, y = affine(1)
    f, logged, ret, ip = encoded_values(F, fe_ty, r"edwards::EdwardsPoint::compress$", [extended(F, 1)])
    if logged is None:
        yield "EdwardsPoint::compress", f, False, ip
    else:
        enc = [a[0] for nm, a in logged if nm.endswith("as_bytes") and a and a[0] is not None]
        sg = [a[0] for nm, a in logged if nm.endswith("is_negative") and a and a[0] is not None]
        ok = len(enc) == 1 and len(sg) == 1 and is_zero(fadd(enc[0], y, -1)) and is_zero(fadd(sg[0], x, -1))
        yield "EdwardsPoint::compress", f, ok, ("encodes y = Y/Z and the sign of x = X/Z" if ok else
                                               "encodes %s with the sign of %s, expected Y/Z and X/Z" % (show(enc[0]) if enc else "?", show(sg[0]) if sg else "?"))
    for sign in (0, 1):
        yield decode_instance(F, fe_ty, r"edwards::CompressedEdwardsY::decompress$", "CompressedEdwardsY::decompress", sign)


def decode_instance(F, fe_ty, fn_rx, label, sign, raw_bytes=False):
    """(instance, fn, ok, msg): an Edwards decoder (Option or CtOption result) on a valid y with the given sign bit: sqrt_ratio_i(y^2-1, d y^2+1), result (+-r, y, 1, x y)"""
    x, y = affine(1)
    if True:
        inst = "%s[sign bit %d]" % (label, sign)
        b31 = I(128, 255) if sign else I(0, 127)
        arr = ("arr", (I(0, 255),) * 31 + (b31,))
        rep = arr if raw_bytes else ("st", (arr,))
        f, logged, ret, ip = encoded_values(F, fe_ty, fn_rx, [rep], from_bytes_sym="y", choices={r"sqrt_ratio_i$": 1})
        if logged is None:
            return inst, f, False, ip
        yv = fvar("y")
        sq = [a for nm, a in logged if nm.endswith("sqrt_ratio_i")]
        bad = []
        if len(sq) != 1 or sq[0][0] is None or sq[0][1] is None:
            bad.append("expected one sqrt_ratio_i(u, v) call on values of the domain")
        else:
            u, v = sq[0]
            if not eq_ratio(u, v, fadd(fmul(yv, yv), one, -1), fadd(fmul(d, fmul(yv, yv)), one)):
                bad.append("sqrt_ratio_i is called on u/v = %s / %s, not (y^2-1)/(d y^2+1)" % (show(u), show(v)))
        somes = [fs[0] for vv, fs in ret[1] if vv == 1 and fs] if ret is not None and ret[0] == "en" else []
        rv_ = ip.deconst(ret) if ret is not None else None
        if not somes and rv_ is not None and rv_[0] == "st" and len(rv_[1]) == 2:
            # CtOption { value, is_some }: with a valid y the flag must be 1
            fl_ = ip.deconst(rv_[1][1])
            while fl_ is not None and fl_[0] == "st" and len(fl_[1]) == 1:
                fl_ = fl_[1][0]
            if fl_ is not None and fl_[0] == "i" and fl_[1] == fl_[2] == 1:
                somes = [ip.deconst(rv_[1][0])]
        if len(somes) != 1:
            bad.append("with a valid y the decoder does not return Some(point)")
        else:
            X, Y, Z, T = (get(F, EP, somes[0], n) for n in "XYZT")
            r = fvar("r1")
            if None in (X, Y, Z, T):
                bad.append("a coordinate of the decoded point left the domain")
            else:
                if not is_zero(fadd(X, fneg(r) if sign else r, -1)):
                    bad.append("X = %s, expected %sr (r the non-negative root, sign bit %d)" % (show(X), "-" if sign else "", sign))
                if not is_zero(fadd(Y, yv, -1)) or not is_zero(fadd(Z, one, -1)):
                    bad.append("(Y, Z) = (%s, %s), expected (y, 1)" % (show(Y), show(Z)))
                if not is_zero(fadd(fmul(X, Y), fmul(Z, T), -1)):
                    bad.append("X*Y != Z*T")
        return inst, f, not bad, ("; ".join(bad) if bad else "sqrt_ratio_i(y^2-1, d y^2+1); result (%sr, y, 1, x y)" % ("-" if sign else ""))


# ------------------------------------------------------------------------------------------------ AVX2 vector formulas (C03)
VX = r"backend::vector::avx2::edwards::"
K = 121666


def vext(i):
    x, y = affine(i)
    Z = fvar("Z%d" % i)
    return ("st", (("v4", (fmul(x, Z), fmul(y, Z), Z, fmul(fmul(x, y), Z))),))


def vcached(i):
    """the cached form documented in the backend: (121666 (Y-X), 121666 (Y+X), 2*121666 Z, -2*121665 T) = 121666 * (Y-X, Y+X, 2Z, 2dT)"""
    x, y = affine(i)
    Z = fvar("Z%d" % i)
    k = fconst(K)
    return ("st", (("v4", (fmul(k, fmul(fadd(y, x, -1), Z)), fmul(k, fmul(fadd(y, x), Z)), fmul(fconst(2 * K), Z),
                          fmul(fmul(fconst(2 * K), d), fmul(fmul(x, y), Z)))),))


def lanes(v):
    if v is None or v[0] != "st" or len(v[1]) != 1 or v[1][0][0] != "v4":
        return None
    return v[1][0][1]


def check_vec(kind, v, x, y, curve=()):
    xn, xd, yn, yd = x[0], x[1], y[0], y[1]
    ls = lanes(v)
    if ls is None:
        return ["the result left the domain"]
    A, B, C, Dl = ls
    bad = []
    if kind == "vext":
        if not eq_ratio(A, C, xn, xd, curve):
            bad.append("lane A / lane C is not the expected x (X/Z = %s)" % show(fmul(A, finv(C))))
        if not eq_ratio(B, C, yn, yd, curve):
            bad.append("lane B / lane C is not the expected y (Y/Z = %s)" % show(fmul(B, finv(C))))
        if not is_zero(fadd(fmul(A, B), fmul(C, Dl), -1), curve):
            bad.append("X*Y != Z*T across the lanes")
    else:
        xs, ys = fmul(xn, finv(xd)), fmul(yn, finv(yd))
        two = fconst(2)
        if not is_zero(fadd(fmul(two, A), fmul(C, fadd(ys, xs, -1)), -1), curve):
            bad.append("2*lane A != lane C * (y - x)")
        if not is_zero(fadd(fmul(two, B), fmul(C, fadd(ys, xs)), -1), curve):
            bad.append("2*lane B != lane C * (y + x)")
        if not is_zero(fadd(Dl, fmul(C, fmul(d, fmul(xs, ys))), -1), curve):
            bad.append("lane D != lane C * d x y")
    return bad


def vector_cases(F, fe_ty, backend="avx2"):
    """yield (instance, fn, ok, msg) for the AVX2 / IFMA parallel formulas (Hisil-Wong-Carter-Dawson, 4-way)"""
    VX = r"backend::vector::%s::edwards::" % backend
    radix = FM.radix_for(F, fe_ty)
    CONST[0] = FM.FmModels(radix)
    x1, y1 = affine(1)
    x2, y2 = affine(2)
    sx, sdx, sy, sdy = law(x1, y1, x2, y2)
    mx, mdx, my, mdy = law(x1, y1, fneg(x2), y2)
    dx, ddx, dy, ddy = law(x1, y1, x1, y1)
    P1 = ((x1, one), (y1, one))
    ID = ((fconst(0), one), (one, one))
    c1 = [("x1", "y1")]
    cs = [
        (backend + " ExtendedPoint::from(EdwardsPoint)", r"<" + r"[\w:]*" + VX + r"ExtendedPoint as core::convert::From<[\w:]*EdwardsPoint>>::from$", [extended(F, 1)], "vext", P1, ()),
        (backend + " EdwardsPoint::from(ExtendedPoint)", VX + r"<impl core::convert::From<[\w:]*ExtendedPoint> for [\w:]*EdwardsPoint>::from$", [vext(1)], "extended", P1, ()),
        (backend + " CachedPoint::from(ExtendedPoint)", r"<[\w:]*" + VX + r"CachedPoint as core::convert::From<[\w:]*ExtendedPoint>>::from$", [vext(1)], "vcached", P1, ()),
        (backend + " ExtendedPoint::double", VX + r"ExtendedPoint::double$", [vext(1)], "vext", ((dx, ddx), (dy, ddy)), c1),
        (backend + " ExtendedPoint + CachedPoint", r"<&(?:'\w+ )?[\w:]*" + VX + r"ExtendedPoint as core::ops::Add<&(?:'\w+ )?[\w:]*CachedPoint>>::add$", [vext(1), vcached(2)], "vext", ((sx, sdx), (sy, sdy)), ()),
        (backend + " ExtendedPoint - CachedPoint", r"<&(?:'\w+ )?[\w:]*" + VX + r"ExtendedPoint as core::ops::Sub<&(?:'\w+ )?[\w:]*CachedPoint>>::sub$", [vext(1), vcached(2)], "vext", ((mx, mdx), (my, mdy)), ()),
        (backend + " -CachedPoint", r"<&(?:'\w+ )?[\w:]*" + VX + r"CachedPoint as core::ops::Neg>::neg$", [vcached(1)], "vcached", ((fneg(x1), one), (y1, one)), ()),
        (backend + " ExtendedPoint::identity", r"<[\w:]*" + VX + r"ExtendedPoint as [\w:]*Identity>::identity$", [], "vext", ID, ()),
        (backend + " CachedPoint::identity", r"<[\w:]*" + VX + r"CachedPoint as [\w:]*Identity>::identity$", [], "vcached", ID, ()),
    ]
    for inst, rx, args, kind, (x, y), curve in cs:
        fs = [f for f in F.fns.values() if "mir" in f and f["kind"] != "Closure" and re.search(rx, f["path"])]
        if len(fs) != 1:
            yield inst, None, False, "expected exactly one function matching %s, found %d" % (rx, len(fs))
            continue
        f = fs[0]
        try:
            ret, ip, _ = FM.run(F, f, args, radix)
        except Exception as e:
            yield inst, f, False, "analysis failed: %r" % (e,)
            continue
        if kind == "extended":
            bad = check_point(F, kind, ret, x, y, curve)
        else:
            bad = check_vec(kind, as_lanes(ip, ret, backend), x, y, curve)
        if bad:
            yield inst, f, False, "; ".join(bad)
        else:
            yield inst, f, True, "lanes = the expected point as a rational identity%s (%d lane-parallel field operations)" % (" modulo the curve equation" if curve else "", ip.models.ops)


def as_lanes(ip, ret, backend="avx2"):
    """normalise a returned ExtendedPoint / CachedPoint: constants are decoded into their four lanes"""
    if ret is None or lanes(ret) is not None:
        return ret
    if ret[0] == "st" and len(ret[1]) == 1:
        class _St:
            frames = []
        v = ip.models.v4(ip, _St(), ret[1][0], backend)
        if v is not None:
            return ("st", (v,))
    return ret



# ------------------------------------------------------------------------------------------------ ristretto255 (C06)
RP = "curve25519_dalek::ristretto::RistrettoPoint"


def same(a, b):
    return a is not None and b is not None and is_zero(fadd(a, b, -1))


def ristretto(F, fe_ty):
    """yield (instance, fn, ok, msg): the RFC 9496 decode / encode / element-derivation formulas, one instance per sign scenario"""
    sq = lambda a: fmul(a, a)
    two = fconst(2)
    iv, isad, sadm1 = fvar("i"), fvar("isad"), fvar("sadm1")
    # ---- decode (4.3.1)
    for xneg in (0, 1):
        inst = "CompressedRistretto::decompress[2 s Dx negative: %d]" % xneg
        rep_ = ("st", (("arr", (I(0, 255),) * 32),))
        f, logged, ret, ip = encoded_values(F, fe_ty, r"ristretto::CompressedRistretto::decompress$", [rep_], from_bytes_sym="s", neg_seq=[0, xneg, 0], choices={r"sqrt_ratio_i$": 1})
        if logged is None:
            yield inst, f, False, ip
            continue
        s_ = fvar("s")
        u1, u2 = fadd(one, sq(s_), -1), fadd(one, sq(s_))
        v = fadd(fneg(fmul(d, sq(u1))), sq(u2), -1)
        r = fvar("r1")
        Dx = fmul(r, u2)
        Dy = fmul(r, fmul(Dx, v))
        x = fmul(fmul(two, s_), Dx)
        x = fneg(x) if xneg else x
        y = fmul(u1, Dy)
        bad = []
        sqc = [a for nm, a in logged if nm.endswith("sqrt_ratio_i")]
        if len(sqc) != 1 or not same(sqc[0][0], one) or not same(sqc[0][1], fmul(v, sq(u2))):
            bad.append("the inverse square root is not taken of v u2^2 with v = -d u1^2 - u2^2 (argument: %s)" % (show(sqc[0][1]) if sqc and sqc[0][1] is not None else "?"))
        somes = [fs[0] for vv, fs in ret[1] if vv == 1 and fs] if ret is not None and ret[0] == "en" else []
        pt = somes[0][1][0] if len(somes) == 1 and somes[0][0] == "st" and len(somes[0][1]) == 1 else None
        if pt is None:
            bad.append("no Some(point) result in the domain")
        else:
            X, Y, Z, T = (get(F, EP, pt, n) for n in "XYZT")
            if not same(X, x):
                bad.append("x = %s, expected |2 s Dx|" % show(X))
            if not same(Y, y):
                bad.append("y = %s, expected u1 Dy" % show(Y))
            if not same(Z, one) or not same(T, fmul(x, y)):
                bad.append("(Z, T) != (1, x y)")
        yield inst, f, not bad, "; ".join(bad) if bad else "x = |2 s Dx|, y = u1 Dy, Dx = I u2, Dy = I Dx v, I = invsqrt(v u2^2), v = -d u1^2 - u2^2, u1 = 1 - s^2, u2 = 1 + s^2; (x, y, 1, x y)"
    # ---- encode (4.3.2)
    X0, Y0, Z0, T0 = (fvar(n) for n in "XYZT")
    gen = ("st", (mk(F, EP, X=X0, Y=Y0, Z=Z0, T=T0),))
    for rotate in (0, 1):
        for xneg in (0, 1):
            for sneg in (0, 1):
                inst = "RistrettoPoint::compress[rotate %d, x z_inv negative %d, s negative %d]" % (rotate, xneg, sneg)
                f, logged, ret, ip = encoded_values(F, fe_ty, r"ristretto::RistrettoPoint::compress$", [gen], neg_seq=[rotate, xneg, sneg])
                if logged is None:
                    yield inst, f, False, ip
                    continue
                u1 = fmul(fadd(Z0, Y0), fadd(Z0, Y0, -1))
                u2 = fmul(X0, Y0)
                r = fvar("r1")
                i1, i2 = fmul(r, u1), fmul(r, u2)
                z_inv = fmul(i1, fmul(i2, T0))
                if rotate:
                    x, y, den = fmul(iv, Y0), fmul(iv, X0), fmul(i1, isad)
                else:
                    x, y, den = X0, Y0, i2
                y2 = fneg(y) if xneg else y
                sv = fmul(den, fadd(Z0, y2, -1))
                bad = []
                sqc = [a for nm, a in logged if nm.endswith("sqrt_ratio_i")]
                if len(sqc) != 1 or not same(sqc[0][0], one) or not same(sqc[0][1], fmul(u1, sq(u2))):
                    bad.append("the inverse square root is not taken of u1 u2^2")
                negs = [a[0] for nm, a in logged if nm.endswith("is_negative")]
                if len(negs) != 3 or not same(negs[0], fmul(T0, z_inv)) or not same(negs[1], fmul(x, z_inv)) or not same(negs[2], sv):
                    bad.append("the sign tests are not on (T z_inv, x z_inv, s): %s" % ", ".join(show(a, 3) if a is not None else "?" for a in negs))
                enc = [a[0] for nm, a in logged if nm.endswith("as_bytes")]
                if len(enc) != 1 or not same(enc[0], fneg(sv) if sneg else sv):
                    bad.append("the encoded value is %s, expected |den_inv (Z - y)|" % (show(enc[0], 4) if enc and enc[0] is not None else "?"))
                yield inst, f, not bad, "; ".join(bad) if bad else "s = |den_inv (Z - y)| with the RFC 9496 rotation / sign selection"
    # ---- element derivation (4.3.4 MAP)
    for was_sq in (1, 0):
        for sp_neg in ((0,) if was_sq else (0, 1)):
            inst = "RistrettoPoint::elligator_ristretto_flavor[N_s/D square: %d%s]" % (was_sq, "" if was_sq else ", s r0 negative: %d" % sp_neg)
            f, logged, ret, ip = encoded_values(F, fe_ty, r"ristretto::RistrettoPoint::elligator_ristretto_flavor$", [fvar("r0")], neg_seq=[sp_neg], choices={r"sqrt_ratio_i$": was_sq})
            if logged is None:
                yield inst, f, False, ip
                continue
            r0 = fvar("r0")
            r = fmul(iv, sq(r0))
            Ns = fmul(fadd(r, one), fadd(one, sq(d), -1))
            c = fconst(-1)
            D_ = fmul(fadd(c, fmul(d, r), -1), fadd(r, d))
            s_ = fvar("r1")
            if not was_sq:
                sp = fmul(s_, r0)
                # s' is made non-positive: negated when it is positive
                s_ = sp if sp_neg else fneg(sp)
                c = r
            Nt = fadd(fmul(fmul(c, fadd(r, one, -1)), sq(fadd(d, one, -1))), D_, -1)
            cx, cz, cy, ct = fmul(fmul(two, s_), D_), fmul(Nt, sadm1), fadd(one, sq(s_), -1), fadd(one, sq(s_))
            bad = []
            sqc = [a for nm, a in logged if nm.endswith("sqrt_ratio_i")]
            if len(sqc) != 1 or not same(sqc[0][0], Ns) or not same(sqc[0][1], D_):
                bad.append("sqrt_ratio_i is not called on (N_s, D) = ((r+1)(1-d^2), (-1 - d r)(r + d))")
            pt = ret[1][0] if ret is not None and ret[0] == "st" and len(ret[1]) == 1 else None
            miss = check_point(F, "extended", pt, (cx, cz), (cy, ct)) if pt is not None else ["the result left the domain"]
            bad += miss
            yield inst, f, not bad, "; ".join(bad) if bad else "(x, y) = (2 s D / (N_t sqrt(ad-1)), (1 - s^2)/(1 + s^2)) with the RFC 9496 choice of s and c"

    # ---- equality of cosets: X1 Y2 == Y1 X2  or  X1 X2 == Y1 Y2
    g = lambda k: ("st", (mk(F, EP, X=fvar("X%d" % k), Y=fvar("Y%d" % k), Z=fvar("Z%d" % k), T=fvar("T%d" % k)),))
    f, logged, ret, ip = encoded_values(F, fe_ty, r"ristretto::RistrettoPoint as subtle::ConstantTimeEq>::ct_eq$|impl subtle::ConstantTimeEq for [\w:]*RistrettoPoint>::ct_eq$", [g(1), g(2)],
                                        watch=r"ConstantTimeEq for [\w:]*FieldElement\w+>::ct_eq$|FieldElement\w+ as subtle::ConstantTimeEq>::ct_eq$")
    inst = "RistrettoPoint::ct_eq"
    if logged is None:
        yield inst, f, False, ip
    else:
        X1, Y1, X2, Y2 = fvar("X1"), fvar("Y1"), fvar("X2"), fvar("Y2")
        want = [(fmul(X1, Y2), fmul(Y1, X2)), (fmul(X1, X2), fmul(Y1, Y2))]
        got = [(a[0], a[1]) for nm, a in logged if len(a) == 2 and a[0] is not None and a[1] is not None]
        ok = len(got) == 2 and all(any((same(p, w[0]) and same(q, w[1])) or (same(p, w[1]) and same(q, w[0])) for p, q in got) for w in want)
        yield inst, f, ok, ("compares X1 Y2 with Y1 X2 and X1 X2 with Y1 Y2" if ok else "the two field comparisons are %s" % ["%s ?= %s" % (show(p, 3), show(q, 3)) for p, q in got])


# ------------------------------------------------------------------------------------------------ identity predicates (C17)
def comparison_signature(F, fe_ty, f, args, tyenv=None):
    """the field-level comparisons a predicate makes, as (sorted list of canonical differences, sorted list of Choice combinators)"""
    radix = FM.radix_for(F, fe_ty)
    CONST[0] = FM.FmModels(radix)
    watch = (r"ConstantTimeEq for [\w:]*FieldElement\w+>::ct_eq$|FieldElement\w+ as subtle::ConstantTimeEq>::ct_eq$|FieldElement\w+>::is_zero$|"
             r"subtle::Choice as core::ops::(BitAnd|BitOr|Not)>::(bitand|bitor|not)$|PartialEq for [\w:]*FieldElement\w+>::(eq|ne)$")
    ret, ip, _ = FM.run(F, f, args, radix, watch=watch)
    diffs, ops = [], []
    for nm, a in ip.models.logged:
        if re.search(r"(bitand|bitor|not)$", nm):
            ops.append(re.search(r"(bitand|bitor|not)$", nm).group(1))
            continue
        if nm.endswith("is_zero"):
            x = a[0] if a else None
            dvalue = x
        else:
            dvalue = fadd(a[0], a[1], -1) if len(a) == 2 and a[0] is not None and a[1] is not None else None
        if dvalue is None:
            return None
        # canonical up to sign: compare by the pair {d, -d}
        n1, n2 = dvalue, fneg(dvalue)
        diffs.append(min((n1[1], n1[2]), (n2[1], n2[2]), key=repr))
    return sorted(diffs, key=repr), sorted(ops)


def identity_predicates(F, fe_ty):
    """yield (instance, fn, ok, msg): every `group::Group::is_identity` makes exactly the field comparisons of `ct_eq(self, &Self::identity())`"""
    def gen(k=""):
        return mk(F, EP, X=fvar("X" + k), Y=fvar("Y" + k), Z=fvar("Z" + k), T=fvar("T" + k))
    ident = mk(F, EP, X=fconst(0), Y=one, Z=one, T=fconst(0))
    targets = [("EdwardsPoint", r"<[\w:]*edwards::EdwardsPoint as group::Group>::is_identity$", r"impl subtle::ConstantTimeEq for [\w:]*edwards::EdwardsPoint>::ct_eq$|edwards::EdwardsPoint as subtle::ConstantTimeEq>::ct_eq$", lambda v: v),
               ("SubgroupPoint", r"<[\w:]*edwards::SubgroupPoint as group::Group>::is_identity$", r"impl subtle::ConstantTimeEq for [\w:]*edwards::EdwardsPoint>::ct_eq$|edwards::EdwardsPoint as subtle::ConstantTimeEq>::ct_eq$", lambda v: ("st", (v,))),
               ("RistrettoPoint", r"<[\w:]*ristretto::RistrettoPoint as group::Group>::is_identity$", r"impl subtle::ConstantTimeEq for [\w:]*ristretto::RistrettoPoint>::ct_eq$|ristretto::RistrettoPoint as subtle::ConstantTimeEq>::ct_eq$", lambda v: ("st", (v,)))]
    for name, rx, eq_rx, wrap in targets:
        fs = [f for f in F.fns.values() if "mir" in f and f["kind"] != "Closure" and re.search(rx, f["path"])]
        es = [f for f in F.fns.values() if "mir" in f and f["kind"] != "Closure" and re.search(eq_rx, f["path"])]
        inst = "%s as Group>::is_identity" % name
        if len(fs) != 1 or len(es) != 1:
            yield inst, None, False, "expected one is_identity and one ct_eq impl, found %d / %d" % (len(fs), len(es))
            continue
        try:
            got = comparison_signature(F, fe_ty, fs[0], [wrap(gen())])
            if name == "SubgroupPoint":
                want = comparison_signature(F, fe_ty, es[0], [gen(), ident])
            else:
                want = comparison_signature(F, fe_ty, es[0], [wrap(gen()), wrap(ident)])
        except Exception as e:
            yield inst, fs[0], False, "analysis failed: %r" % (e,)
            continue
        if got is None or want is None or not want[0]:
            yield inst, fs[0], False, "the comparisons left the domain"
        elif got == want:
            yield inst, fs[0], True, "makes exactly the %d field comparisons of ct_eq(self, identity), combined the same way (%s)" % (len(want[0]), ", ".join(want[1]) or "single test")
        else:
            def sh(sig):
                return "[%s | %s]" % ("; ".join(show(("fe", n, dn), 3) + " = 0" for n, dn in sig[0]), ",".join(sig[1]))
            yield inst, fs[0], False, "the predicate tests %s, but equality with the identity tests %s" % (sh(got), sh(want))


def ristretto_batch(F, fe_ty):
    """yield (instance, fn, ok, msg): RistrettoPoint::double_and_compress_batch on one symbolic point, per sign scenario (the batched inversion is
    followed through FieldElement::batch_invert in the same domain)"""
    sq = lambda a: fmul(a, a)
    iv, isad = fvar("i"), fvar("isad")
    X0, Y0, Z0, T0 = (fvar(n) for n in "XYZT")
    pt = ("st", (mk(F, EP, X=X0, Y=Y0, Z=Z0, T=T0),))
    for n1 in (0, 1):
        for n2 in (0, 1):
            for sn in (0, 1):
                inst = "RistrettoPoint::double_and_compress_batch[eg Zinv negative %d, h e Zinv negative %d, s negative %d]" % (n1, n2, sn)
                arg = ("it", "cvals", ("arr", (pt,)), I(0), I(1), 0)
                f, logged, ret, ip = encoded_values(F, fe_ty, r"ristretto::RistrettoPoint::double_and_compress_batch$", [arg], neg_seq=[n1, n2, sn])
                if logged is None:
                    yield inst, f, False, ip
                    continue
                e = fmul(X0, fadd(Y0, Y0))
                dTT = fmul(sq(T0), d)
                f_ = fadd(sq(Z0), dTT)
                g = fadd(sq(Y0), sq(X0))
                h = fadd(sq(Z0), dTT, -1)
                eg, fh = fmul(e, g), fmul(f_, h)
                inv = finv(fmul(eg, fh))
                Zinv, Tinv = fmul(eg, inv), fmul(fh, inv)
                if n1:
                    e2, g2, h2, magic = g, fneg(e), fmul(f_, iv), iv
                else:
                    e2, g2, h2, magic = e, g, h, isad
                t2 = fmul(fmul(h2, e2), Zinv)
                if n2:
                    g2 = fneg(g2)
                sv = fmul(fadd(h2, g2, -1), fmul(magic, fmul(g2, Tinv)))
                negs = [a[0] for nm, a in logged if nm.endswith("is_negative")]
                enc = [a[0] for nm, a in logged if nm.endswith("as_bytes")]
                bad = []
                if len(negs) != 3 or not same(negs[0], fmul(eg, Zinv)) or not same(negs[1], t2) or not same(negs[2], sv):
                    bad.append("the sign tests are not on (eg Zinv, h e Zinv, s)")
                if len(enc) != 1 or not same(enc[0], fneg(sv) if sn else sv):
                    bad.append("the encoded value is %s, expected |(h - g) magic g Tinv|" % (show(enc[0], 3) if enc and enc[0] is not None else "?"))
                yield inst, f, not bad, "; ".join(bad) if bad else "s = |(h - g) (magic g Tinv)| with e, f, g, h of the doubled point, Zinv = eg/(eg fh), Tinv = fh/(eg fh) through batch_invert, and the rotation / sign selection of the single-point encoder"


def point_sums(F, type_rx):
    """yield (instance, fn, ok, msg): `impl Sum<T> for <point type>` over iterators of 0..3 symbolic points returns their formal sum (LINCOMB domain:
    the point operations are the group operations, decided elsewhere); forms that are not compositions of group operations are undecided and reported"""
    import eng_lincomb as LC
    from absint import I as Iv
    for f in F.fns.values():
        if "mir" not in f or f["kind"] == "Closure" or not re.search(type_rx + r" as core::iter::Sum<T>>::sum$", f["path"]):
            continue
        tyname = re.search(r"(\w+) as core::iter::Sum", f["path"]).group(1)
        wrapped = tyname != "EdwardsPoint"
        bad = None
        for k in range(4):
            xs = [(("st", (LC.sym("P%d" % i),)) if wrapped else LC.sym("P%d" % i)) for i in range(k)]
            try:
                ret, ip = LC.run(F, f, [("it", "vals", ("arr", tuple(xs)), Iv(0), Iv(k))])
            except Exception as e:
                bad = "n=%d: analysis failed: %r" % (k, e)
                break
            v = ret
            while v is not None and v[0] == "st" and len(v[1]) == 1:
                v = v[1][0]
            want = {("P%d" % i, None): 1 for i in range(k)}
            got = LC.terms(v)
            if got is None:
                bad = "n=%d: the result is not a composition of group operations on the items (undecided form)" % k
                break
            if got != want:
                bad = "n=%d: returns %s, expected %s" % (k, " + ".join("%d*%s" % (c, p) for (p, _), c in sorted(got.items())) or "the identity", " + ".join("P%d" % i for i in range(k)) or "the identity")
                break
        yield "%s::sum" % tyname, f, bad is None, bad or "iterators of 0..3 points: the result is the group sum of the items (the empty sum is the identity)"


def one_way_map(F):
    """(ok|None, msg): from_uniform_bytes on 64 symbolic bytes in the LINCOMB domain with two extra tokens - FieldElement::from_bytes of 32 consecutive
    input bytes is the field element of that half, elligator_ristretto_flavor of it is a point symbol: the result must be MAP(bytes[0..32]) + MAP(bytes[32..64]).
    None = outside the domain (undecided)"""
    import eng_lincomb as LC

    class OW(LC.LcModels):
        def call(self, ip, fv, st, depth, t, n, a, dty):
            if re.search(r"field::FieldElement(51|2625)?::from_bytes$|backend::serial::\w+::field::FieldElement\w+::from_bytes$", n):
                v = ip.deconst(ip.deref_val(st, a[0]))
                if v is not None and v[0] == "arr" and len(v[1]) == 32 and all(x[0] == "byte" for x in v[1]) and \
                        all(x[1] == v[1][0][1] and x[2] == v[1][0][2] + j for j, x in enumerate(v[1])):
                    return ("fehalf", v[1][0][2])
                return ("fehalf", None)
            if re.search(r"RistrettoPoint::elligator_ristretto_flavor$", n):
                v = ip.deconst(ip.deref_val(st, a[0]))
                off = v[1] if v is not None and v[0] == "fehalf" else None
                return ("st", (LC.sym(("MAP", off)),))
            return super().call(ip, fv, st, depth, t, n, a, dty)
    fs = [f for f in F.fns.values() if "mir" in f and f["kind"] != "Closure" and re.search(r"ristretto::RistrettoPoint::from_uniform_bytes$", f["path"])]
    if len(fs) != 1:
        return None, "from_uniform_bytes not found"
    ip = LC.LcInterp(F, OW(), step_budget=2_000_000)
    ip.exact_small_vecs = True
    try:
        ret, root_ = ip.run_root(fs[0], [("arr", tuple(("byte", "in", j) for j in range(64)))])
    except Exception as e:
        return None, "analysis failed: %r" % (e,)
    v = ret
    while v is not None and v[0] == "st" and len(v[1]) == 1:
        v = v[1][0]
    got = LC.terms(v)
    if got is None:
        return None, "the result is outside the domain"
    want = {(("MAP", 0), None): 1, (("MAP", 32), None): 1}
    if got == want:
        return True, "the result is MAP(bytes[0..32]) + MAP(bytes[32..64]) with MAP = elligator_ristretto_flavor(FieldElement::from_bytes(.))"
    return False, "the result is %s, expected MAP(bytes[0..32]) + MAP(bytes[32..64])" % (" + ".join("%d*MAP(bytes[%s..])" % (c, p[1]) for (p, _), c in sorted(got.items(), key=repr)) or "the identity")
