"""EXPCHAIN: the abstract domain of *monomials* x^e (one exponent per input symbol) evaluated over the MIR of the addition
chains (field inversion, (p-5)/8 power, the sqrt-ratio candidate root, scalar inversion).  The interpreter is the generic
one of lib/absint.py; only the arithmetic kernels get a transfer function: mul adds exponent vectors, square doubles
them, pow2k(k) multiplies by 2^k.  Loop counters / window sizes stay concrete integers, so the chains' loops are followed
exactly.  Nothing is executed: the kernels' bodies are never entered."""
import re
from absint import Interp, I, TOP, view
from absint_models import Models


def exp(var, e=1):
    return ("exp", ((var, e),))


def emul(a, b):
    d = dict(a[1])
    for v, e in b[1]:
        d[v] = d.get(v, 0) + e
    return ("exp", tuple(sorted((v, e) for v, e in d.items() if e)))


def escale(a, k):
    return ("exp", tuple((v, e * k) for v, e in a[1]))


class ExpModels(Models):
    MUL = re.compile(r"field::FieldElement\w+ as core::ops::Mul<.*>>::mul$|scalar::Scalar(52|29)::(montgomery_mul|mul)$")
    SQUARE = re.compile(r"field::FieldElement\w+::square$|scalar::Scalar(52|29)::(montgomery_square|square)$")
    POW2K = re.compile(r"field::FieldElement\w+::pow2k$")
    IDENT = re.compile(r"scalar::Scalar(52|29)::(as_montgomery|from_montgomery)$|scalar::Scalar::unpack$|scalar::<impl .*Scalar(52|29)>::pack$|::clone$")

    def __init__(self):
        super().__init__()
        self.kernel_calls = 0
        self.produced = []       # every monomial produced by a kernel application (for intermediate-value rules)

    def call(self, ip, fv, st, depth, t, n, args, dty):
        full = t.get("callee_full") or ""
        res = (t.get("resolved") or {}).get("path") or ""
        for name in (n, full, res):
            if self.MUL.search(name) and len(args) >= 2:
                a, b = ip.deref_val(st, args[0]), ip.deref_val(st, args[1])
                self.kernel_calls += 1
                if a[0] == "exp" and b[0] == "exp":
                    r = emul(a, b)
                    self.produced.append(r)
                    return r
                return TOP
            if self.SQUARE.search(name) and args:
                a = ip.deref_val(st, args[0])
                self.kernel_calls += 1
                if a[0] == "exp":
                    self.produced.append(escale(a, 2))
                    return escale(a, 2)
                return TOP
            if self.POW2K.search(name) and len(args) >= 2:
                a, k = ip.deref_val(st, args[0]), ip.deconst(args[1])
                self.kernel_calls += 1
                if a[0] == "exp" and k[0] == "i" and k[1] == k[2] and 0 < k[1] < 600:
                    self.produced.append(escale(a, 2 ** k[1]))
                    return escale(a, 2 ** k[1])
                return TOP
            if self.IDENT.search(name) and args:
                a = ip.deref_val(st, args[0])
                if a[0] == "exp":
                    return a
        return super().call(ip, fv, st, depth, t, n, args, dty)


def run_chain(F, f, symbols):
    """abstractly evaluate function f with its reference / value parameters bound to the monomial symbols given
    (list, one per parameter: a name or None for 'most general value'); returns (abstract return value, interpreter)"""
    ip = Interp(F, ExpModels(), step_budget=3_000_000)
    fv = view(F, f)
    vals = []
    for i in range(fv.nargs):
        s = symbols[i] if i < len(symbols) else None
        if s is None:
            vals.append(ip.default_value(fv.locals[i + 1]["ty"]))
        elif isinstance(s, int):
            vals.append(I(s))
        else:
            vals.append(exp(s))
    ret, root = ip.run_root(f, vals)
    return ret, ip


def exponents(v):
    """{symbol: exponent} of a monomial value, or None"""
    if v is None or v[0] != "exp":
        return None
    return dict(v[1])
