"""LIMBPOLY: the field kernels in the abstract domain of *integer polynomials over limb symbols with opaque quotients*.

An integer value is a polynomial over the input limbs a_i, b_j.  + - * by their ring meaning, `x << k` = x 2^k, `x >> k` = an opaque quotient
symbol q(x, k), `x & (2^k - 1)` = x - 2^k q(x, k) with the *same* symbol (exact for unsigned values), integer casts are the identity (no wrap:
that every intermediate fits its type is C11's proof obligation, not repeated here).  The carries then cancel by telescoping and the value of the
result, sum out_k 2^(weight_k), can be compared with the value of the inputs modulo p = 2^255 - 19: every coefficient of the difference must be a
multiple of p.  Nothing is executed and nothing is assumed about the size of the quotients."""
import re
from absint import Interp, I, TOP
from absint_models import Models
from eng_formula import pnorm, pconst, pvar, padd, pmul

P = 2 ** 255 - 19


def lp(p):
    return ("lp", p)


def as_poly(v):
    if v[0] == "lp":
        return v[1]
    if v[0] == "i" and v[1] == v[2]:
        return pconst(v[1])
    return None


class LpInterp(Interp):
    def __init__(self, *a, **k):
        super().__init__(*a, **k)
        self.quot = {}

    def q(self, x, k):
        key = (x, k)
        if key not in self.quot:
            self.quot[key] = pvar("q%d" % (len(self.quot) + 1))
        return self.quot[key]

    def binop(self, op, a, b, ty, fv=None, line=0):
        if a[0] == "lp" or b[0] == "lp":
            base = op.replace("Unchecked", "").replace("WithOverflow", "")
            x, y = as_poly(a), as_poly(b)
            if x is None or y is None:
                return TOP
            r = None
            if base == "Add":
                r = padd(x, y)
            elif base == "Sub":
                r = padd(x, y, -1)
            elif base == "Mul":
                r = pmul(x, y)
            elif base == "Shl" and b[0] == "i":
                r = pmul(x, pconst(1 << b[1]))
            elif base == "Shr" and b[0] == "i":
                if x and all(c % (1 << b[1]) == 0 for _, c in x):
                    # every coefficient is a multiple of 2^k: the value is a multiple of 2^k for all values of the symbols, the shift is an exact division
                    r = pnorm({m: c >> b[1] for m, c in x})
                    self.exact_divisions = getattr(self, "exact_divisions", 0) + 1
                else:
                    r = self.q(x, b[1])
            elif base == "BitAnd":
                for u, c in ((x, b), (y, a)):
                    if c[0] == "i" and c[1] == c[2] and c[1] > 0 and (c[1] & (c[1] + 1)) == 0:
                        k = c[1].bit_length()
                        r = padd(u, pmul(self.q(u, k), pconst(1 << k)), -1)
                        break
            if r is None:
                return I(0, 1) if base in ("Eq", "Ne", "Lt", "Le", "Gt", "Ge") else TOP
            if "WithOverflow" in op:
                return ("st", (lp(r), I(0)))
            return lp(r)
        return super().binop(op, a, b, ty, fv, line)

    def cast(self, v, kind, ty):
        if v[0] == "lp":
            return v
        return super().cast(v, kind, ty)


class LpModels(Models):
    watch = None

    def call(self, ip, fv, st, depth, t, n, args, dty):
        if re.search(r"zeroize::Zeroize>::zeroize$", n):
            return ("st", ())
        if self.watch and re.search(self.watch, n):
            self.logged = getattr(self, "logged", []) + [[ip.deconst(ip.deref_val(st, a)) for a in args]]
            return ip.default_value(dty)
        return super().call(ip, fv, st, depth, t, n, args, dty)


def limbs(sym, n):
    return ("st", (("arr", tuple(lp(pvar("%s%d" % (sym, i))) for i in range(n))),))


def offsets(n):
    if n == 5:
        return [51 * i for i in range(5)]
    offs, o = [], 0
    for i in range(10):
        offs.append(o)
        o += 26 if i % 2 == 0 else 25
    return offs


def value(v, n):
    """polynomial value sum limb_k 2^(weight_k) of a field element value (struct of array or bare array); None outside the domain"""
    while v is not None and v[0] == "st" and len(v[1]) == 1:
        v = v[1][0]
    if v is None or v[0] != "arr" or len(v[1]) != n:
        return None
    tot = pconst(0)
    for x, off in zip(v[1], offsets(n)):
        p = as_poly(x)
        if p is None:
            return None
        tot = padd(tot, pmul(p, pconst(1 << off)))
    return tot


def congruent(p1, p2):
    """p1 == p2 modulo p, coefficient-wise (both are integer polynomials in the same symbols)"""
    d = padd(p1, p2, -1)
    bad = [(m, c) for m, c in d if c % P]
    return not bad, bad[:1]


def run(F, f, values, overrides=None, watch=None):
    ip = LpInterp(F, LpModels(), step_budget=6_000_000)
    ip.models.watch = watch
    ret, root = ip.run_root(f, values)
    return ret, ip, root
