"""PANIC engine: inventory of panic edges reachable from untrusted-input entry points, with a constant /
range discharger.  Anything not discharged must be in the reviewed residual table of the property."""
import re
from mirlib import view, cname, cpath, expr_of, op_local, op_place, op_const, root
from pathlib2 import lookup_callee
import ex

PANIC_CALL = re.compile(
    r"core::panicking::|core::option::Option(::)?<.*>::(unwrap|expect)$|core::result::Result(::)?<.*>::(unwrap|expect|unwrap_err|expect_err)$|"
    r"core::slice::<impl \[.*\]>::(copy_from_slice|clone_from_slice|split_at|split_at_mut|swap|chunks|chunks_exact|windows|rotate_left|rotate_right|last_mut|first_mut)$|"
    r"core::ops::(Index|IndexMut)<.*>>::index(_mut)?$|core::ops::(Index|IndexMut)<.*> for .*>::index(_mut)?$|impl core::ops::Index(Mut)?<.*::index(_mut)?$|"
    r"core::slice::index::|core::cell::RefCell|alloc::vec::Vec(::)?<.*>::(remove|swap_remove|insert|drain|split_off|truncate)$|core::str::|"
    r"subtle::CtOption(::)?<.*>::(unwrap|expect)$|core::array::<impl .*>::(map)$|core::num::<impl .*>::(pow|abs|div_euclid|rem_euclid)$|core::iter::.*::step_by|"
    r"Iterator>::(step_by|sum|product)")
ALLOC_OK = re.compile(r"alloc::|Iterator>::collect")  # allocation failure is outside the property


class Panic:
    def __init__(self, F):
        self.F = F
        self.reached = {}
        self.paths = {}      # fn key -> predecessor key (for reporting a call path)
        self.edges = []      # dict(fn, kind, detail, loc, discharged, why)

    def reach(self, entries):
        F = self.F
        st = []
        for f in entries:
            if f["key"] not in self.reached:
                self.reached[f["key"]] = f
                self.paths[f["key"]] = None
                st.append(f)
        while st:
            f = st.pop()
            if "mir" not in f:
                continue
            fv = view(F, f)
            live = fv.live_blocks()
            for bi, t in fv.calls:
                if bi not in live or fv.blocks[bi].get("cleanup"):
                    continue
                cands = []
                g = lookup_callee(F, t)
                if g is not None:
                    cands.append(g)
                elif t.get("resolved") is None and t.get("callee_trait"):
                    name = (t.get("callee") or "").split("::")[-1]
                    last = t["callee_trait"].split("::")[-1]
                    for c in F.fns.values():
                        if "mir" in c and c.get("name") == name and c.get("trait") and re.sub(r"<.*", "", c["trait"]).split("::")[-1] == last:
                            cands.append(c)
                for g in cands:
                    if g["key"] not in self.reached:
                        self.reached[g["key"]] = g
                        self.paths[g["key"]] = f["key"]
                        st.append(g)
            for b in fv.blocks:
                for s in b["s"]:
                    if s[0] == "=" and s[2][0] == "agg" and s[2][1][0] == "closure":
                        g = F.fns.get(s[2][1][1])
                        if g is not None and g["key"] not in self.reached:
                            self.reached[g["key"]] = g
                            self.paths[g["key"]] = f["key"]
                            st.append(g)

    def call_path(self, k, limit=8):
        out = []
        while k is not None and len(out) < limit:
            out.append(self.reached[k]["path"].split("::")[-1] if k in self.reached else k)
            k = self.paths.get(k)
        return " <- ".join(out)

    def scan(self):
        F = self.F
        for k, f in self.reached.items():
            if "mir" not in f:
                continue
            fv = view(F, f)
            live = fv.live_blocks()
            for bi, b in enumerate(fv.blocks):
                if bi not in live or b.get("cleanup"):
                    continue
                t = b.get("t")
                if not t:
                    continue
                if t["k"] == "assert":
                    ok, why = self.discharge_assert(fv, t)
                    self.edges.append({"fn": f, "kind": "assert:" + t["msg"] + (":" + t.get("op", "") if t.get("op") else ""), "detail": self.assert_detail(fv, t),
                                       "loc": fv.loc(t["line"]), "line": t["line"], "ok": ok, "why": why})
                elif t["k"] == "call":
                    n = cname(t)
                    if t.get("target") is None and not re.search(r"core::panicking::|core::slice::index::slice_|core::option::(unwrap|expect)_failed|core::result::unwrap_failed", n):
                        # diverging call to something else (e.g. process::abort) - report
                        self.edges.append({"fn": f, "kind": "diverge", "detail": short_callee(n), "loc": fv.loc(t["line"]), "line": t["line"], "ok": False, "why": ""})
                        continue
                    if PANIC_CALL.search(n) or PANIC_CALL.search(t.get("callee_full") or ""):
                        if lookup_callee(F, t) is not None:
                            continue  # local Index impls etc. are analysed as reached functions
                        ok, why = self.discharge_call(fv, t, n)
                        self.edges.append({"fn": f, "kind": "call:" + short_callee(n), "detail": self.call_detail(fv, t), "loc": fv.loc(t["line"]), "line": t["line"], "ok": ok, "why": why})

    # ------------------------------------------------------------------ details (stable, no line numbers)
    def assert_detail(self, fv, t):
        try:
            return ex.show(_named(fv, expr_of(fv, t["cond"], 6)), 5)[:80]
        except Exception:
            return "?"

    def call_detail(self, fv, t):
        try:
            return ", ".join(ex.show(_named(fv, expr_of(fv, a, 5)), 4) for a in t["args"][:2])[:100]
        except Exception:
            return "?"

    # ------------------------------------------------------------------ dischargers
    def interval(self, fv, e, depth=6):
        """(lo, hi) inclusive bounds of an integer expression, or None"""
        e = ex.strip(e, through_calls=False)
        if not isinstance(e, tuple) or depth <= 0:
            return None
        if e[0] == "const" and isinstance(e[1], int):
            return (e[1], e[1])
        if e[0] == "const" and e[3] and e[3] in self.F.const_by_path:
            v = self.F.const_by_path[e[3]][0].get("value")
            if isinstance(v, int):
                return (v, v)
        if e[0] == "cast":
            return self.interval(fv, e[1], depth - 1)
        if e[0] == "proj" and re.search(r"@1\.0$", e[2]):
            # payload of Some(..) returned by an iterator's next()
            c = ex.strip(e[1], through_calls=False)
            if ex.is_call(c, r"Iterator for core::ops::Range<usize>>::next$|core::ops::Range<usize> as core::iter::Iterator>::next$"):
                r = self.range_of_iter(fv, ex.call_args(c)[0])
                if r:
                    return (r[0], r[1] - 1)
            if ex.is_call(c, r"core::iter::Rev<core::ops::Range<usize>> as core::iter::Iterator>::next$"):
                r = self.range_of_iter(fv, ex.call_args(c)[0])
                if r:
                    return (r[0], r[1] - 1)
        if e[0] == "bin":
            a, b = self.interval(fv, e[2], depth - 1), self.interval(fv, e[3], depth - 1)
            if a and b:
                if e[1] in ("Add", "AddUnchecked"):
                    return (a[0] + b[0], a[1] + b[1])
                if e[1] in ("Sub", "SubUnchecked") and a[0] - b[1] >= 0:
                    return (a[0] - b[1], a[1] - b[0])
                if e[1] in ("Mul", "MulUnchecked"):
                    return (a[0] * b[0], a[1] * b[1])
                if e[1] == "Shr" and b[0] == b[1]:
                    return (a[0] >> b[0], a[1] >> b[0])
                if e[1] == "Shl" and b[0] == b[1]:
                    return (a[0] << b[0], a[1] << b[0])
                if e[1] == "BitAnd":
                    return (0, min(a[1], b[1]))
                if e[1] == "Div" and b[0] > 0:
                    return (a[0] // b[1], a[1] // b[0])
                if e[1] == "Rem" and b[0] > 0:
                    return (0, b[1] - 1)
            if e[1] == "BitAnd":
                for x in (a, b):
                    if x and x[0] == x[1]:
                        return (0, x[1])
            if e[1] == "Rem":
                if b and b[0] > 0:
                    return (0, b[1] - 1)
        if e[0] == "un" and e[1] == "PtrMetadata":
            n = self.len_of(fv, e[2])
            if n is not None:
                return (n, n)
        if e[0] == "call" and re.search(r"\]>::len$", e[1]):
            n = self.len_of(fv, e[2][0])
            if n is not None:
                return (n, n)
        return None

    def range_of_iter(self, fv, it):
        """constant (lo, hi) of the Range the iterator local was created from"""
        it = ex.strip(it)
        if it[0] != "local":
            return None
        for d in fv.defs.get(it[1], []):
            if d.kind == "assign" and not d.via_mutref:
                from mirlib import _expr_rv
                src = ex.strip(_expr_rv(fv, d.rv, 10))
                for _ in range(3):
                    if isinstance(src, tuple) and src[0] == "call" and re.search(r"IntoIterator>::into_iter$|Iterator>::rev$", src[1]):
                        src = ex.strip(src[2][0])
                if isinstance(src, tuple) and src[0] == "agg" and "Range" in str(src[1]):
                    a, b = self.interval(fv, src[2][0]), self.interval(fv, src[2][1])
                    if a and b:
                        return (a[0], b[1])
        return None

    def len_of(self, fv, e, depth=5):
        """constant length of an array / slice expression"""
        e0 = e
        e = ex.strip(e, through_calls=False)
        if not isinstance(e, tuple) or depth <= 0:
            return None
        ty = None
        if e[0] in ("arg", "local") :
            ty = type_of_place(fv, e)
        if ty:
            m = re.search(r"\[[^;\]]+; (\d+)\]$", re.sub(r"^(&(mut )?)+", "", ty))
            if m:
                return int(m.group(1))
            m = re.search(r"\[[^;\]]+; ([\w:]+)\]$", re.sub(r"^(&(mut )?)+", "", ty))
            if m and ("::" + m.group(1)) and any(p.endswith("::" + m.group(1)) for p in self.F.const_by_path):
                for p, c in self.F.const_by_path.items():
                    if p.endswith("::" + m.group(1)) and isinstance(c[0].get("value"), int):
                        return c[0]["value"]
        if e[0] == "cast":
            return self.len_of(fv, e[1], depth - 1)
        if e[0] == "call":
            n = e[1]
            if re.search(r"ops::Index(Mut)?<core::ops::Range<usize>>.*::index(_mut)?$", n):
                r = ex.strip(e[2][1])
                if r[0] == "agg":
                    a, b = self.interval(fv, r[2][0]), self.interval(fv, r[2][1])
                    if a and b and a[0] == a[1] and b[0] == b[1]:
                        return b[0] - a[0]
            if re.search(r"ops::Index(Mut)?<core::ops::RangeFull>.*::index(_mut)?$|::as_bytes$|::as_ref$|::as_slice$|::as_mut_slice$|Deref(Mut)?>::deref(_mut)?$|::to_bytes$|::as_mut$", n) and e[2]:
                inner = self.len_of(fv, e[2][0], depth - 1)
                if inner is not None:
                    return inner
                # as_bytes() returning &[u8; N] / [u8; N]
            m = re.search(r"\[u8; (\d+)\]", n)
        if e[0] == "repeat":
            return e[2] if isinstance(e[2], int) else None
        if e[0] == "const":
            b = ex.const_bytes(e)
            if b is not None:
                return len(b)
        if e[0] == "proj":
            return None
        return None

    def discharge_assert(self, fv, t):
        if t["msg"] == "bounds":
            ln, ix = t["msg_ops"]
            li = self.interval(fv, expr_of(fv, ln, 8))
            ii = self.interval(fv, expr_of(fv, ix, 8))
            if li and ii and ii[1] < li[0]:
                return True, "index in [%d,%d] < len %d" % (ii[0], ii[1], li[0])
            return False, "index %s, len %s" % (ii, li)
        if t["msg"] in ("overflow", "overflow_neg"):
            ivs = [self.interval(fv, expr_of(fv, o, 8)) for o in t["msg_ops"]]
            return False, "operands %s" % (ivs,)
        if t["msg"] in ("div_zero", "rem_zero"):
            d = self.interval(fv, expr_of(fv, t["msg_ops"][0], 8))
            if d and d[0] > 0:
                return True, "divisor >= %d" % d[0]
            return False, "divisor %s" % (d,)
        return False, t["msg"]

    def discharge_call(self, fv, t, n):
        args = t["args"]
        if re.search(r"::copy_from_slice$|::clone_from_slice$", n):
            a, b = self.len_of(fv, expr_of(fv, args[0], 10)), self.len_of(fv, expr_of(fv, args[1], 10))
            if a is not None and a == b:
                return True, "both lengths are %d" % a
            return False, "lengths %s / %s" % (a, b)
        if re.search(r"ops::Index(Mut)?<core::ops::Range<usize>>.*::index(_mut)?$", n):
            base = self.len_of(fv, expr_of(fv, args[0], 10))
            r = ex.strip(expr_of(fv, args[1], 8))
            if r[0] == "agg" and base is not None:
                a, b = self.interval(fv, r[2][0]), self.interval(fv, r[2][1])
                if a and b and a[1] <= b[0] and b[1] <= base:
                    return True, "range [%d..%d] within length %d" % (a[0], b[1], base)
            return False, "base length %s" % (base,)
        if re.search(r"ops::Index(Mut)?<core::ops::Range(To|From)<usize>>.*::index(_mut)?$", n):
            base = self.len_of(fv, expr_of(fv, args[0], 10))
            r = ex.strip(expr_of(fv, args[1], 8))
            if r[0] == "agg" and base is not None:
                a = self.interval(fv, r[2][0])
                if a and a[1] <= base:
                    return True, "bound %d within length %d" % (a[1], base)
            return False, "base length %s" % (base,)
        if re.search(r"ops::Index(Mut)?<core::ops::RangeFull>", n):
            return True, "full range"
        if re.search(r"::split_at(_mut)?$", n):
            base = self.len_of(fv, expr_of(fv, args[0], 10))
            m = self.interval(fv, expr_of(fv, args[1], 8))
            if base is not None and m and m[1] <= base:
                return True, "mid %d <= len %d" % (m[1], base)
            return False, "mid %s len %s" % (m, base)
        if re.search(r"::chunks(_exact)?$|::windows$", n):
            m = self.interval(fv, expr_of(fv, args[1], 8))
            if m and m[0] > 0:
                return True, "chunk size %d > 0" % m[0]
            return False, "chunk size %s" % (m,)
        if re.search(r"Iterator>::(sum|product)", n):
            return True, "Sum/Product over field/scalar/point types (no integer overflow involved)" if re.search(r"Scalar|EdwardsPoint|RistrettoPoint|SubgroupPoint", n) else (False, "")
        return False, ""


def short_callee(n):
    n = re.sub(r"<[^<>]*>", "", re.sub(r"<[^<>]*>", "", re.sub(r"<[^<>]*>", "", n)))
    return "::".join(n.split("::")[-2:])[:60]


def _named(fv, e):
    if isinstance(e, tuple):
        if e[0] == "local":
            return ("local", fv.locals[e[1]].get("name") or "tmp", e[2])
        return tuple(_named(fv, y) for y in e)
    if isinstance(e, list):
        return [_named(fv, y) for y in e]
    return e


def type_of_place(fv, e):
    """type string of an ('arg'|'local', n, projkey) expression when the projection is only derefs / none"""
    if e[2].replace("*", "") == "":
        return fv.locals[e[1]]["ty"]
    # field projections: look up ADT field types
    ty = re.sub(r"^(&(mut )?)+", "", fv.locals[e[1]]["ty"])
    for m in re.findall(r"\.(\d+)", e[2]):
        a = fv.F.adts.get(re.sub(r"<.*", "", ty))
        if not a:
            return None
        try:
            ty = a["variants"][0]["fields"][int(m)]["ty"]
        except (IndexError, KeyError):
            return None
    return ty
