"""TAINT engine: secret-independence of control flow and addressing at MIR level (release MIR).

Interprocedural, context-insensitive forward taint over the call-graph closure of the constant-time roots.
Levels: 0 = public, 1 = container whose shape (discriminant / length) is public but whose contents are secret,
2 = secret value.  Sinks: SwitchInt / Assert on a level-2 operand, indexing by a tainted index, Div/Rem with a
tainted operand, un-vetted extern call receiving tainted data, predicate adapters fed a tainted predicate,
and any call edge into the variable-time set."""
import re
from mirlib import view, cname, cpath, op_local, op_place, op_const
from pathlib2 import lookup_callee

CONTAINER = re.compile(
    r"^(&(mut )?)*(core::option::Option<|core::result::Result<|core::ops::ControlFlow<|core::iter::|core::slice::iter::|core::slice::Iter|"
    r"core::slice::Chunks|(\w+::)?alloc::vec::Vec<|(\w+::)?alloc::vec::IntoIter<|(\w+::)?alloc::vec::into_iter::|core::array::IntoIter<|core::array::iter::|core::ops::Range<|core::ops::RangeInclusive<|"
    r"\[[^;\]]*\]$|impl |<.* as core::iter::IntoIterator>::IntoIter|zeroize::Zeroizing<(\w+::)?alloc::vec::Vec<|(\w+::)?alloc::boxed::Box<\[|core::iter::adapters::)")

# extern calls that never branch on / index by the *values* they are given (lengths and shapes are public)
VETTED = re.compile("|".join([
    r"^core::num::<impl (u|i)\d+>::(wrapping_\w+|to_le_bytes|from_le_bytes|to_be_bytes|from_be_bytes|rotate_\w+|swap_bytes|overflowing_\w+|leading_zeros|trailing_zeros|count_ones|unsigned_abs)$",
    r"^core::num::<impl (u|i)(size|128)>::(wrapping_\w+|to_le_bytes|from_le_bytes)$",
    r"subtle::", r"^<.* as subtle::", r"impl subtle::",
    r"zeroize::", r" as zeroize::",
    r"core::hint::black_box", r"core::mem::(swap|replace|take|size_of|transmute|zeroed|MaybeUninit)", r"core::ptr::(read_volatile|write_volatile|read|write|drop_in_place)",
    r"core::intrinsics::", r"core::core_arch::x86::", r"core::arch::",
    r"Digest>::(new|update|chain_update|finalize|finalize_reset|reset|output_size|new_with_prefix|digest|finalize_into)", r"digest::", r"sha2::", r"generic_array::", r"crypto_common::",
    r"core::default::Default>::default$", r"core::clone::Clone>::clone$", r"core::convert::(Into|From|AsRef|AsMut|TryInto|TryFrom)<.*>>::(into|from|as_ref|as_mut|try_into|try_from)$",
    r"core::array::<impl .*>::(try_from|from|as_ref|as_mut|map|as_slice|each_ref)", r"core::convert::AsRef", r"core::borrow::Borrow(Mut)?<.*>>::borrow(_mut)?$",
    r"core::slice::<impl \[.*\]>::(len|iter|iter_mut|copy_from_slice|clone_from_slice|as_ptr|as_mut_ptr|chunks|chunks_exact|split_at|split_at_mut|first|last|first_mut|last_mut|split_first|split_last|split_first_mut|split_last_mut|is_empty|fill|to_vec|into_vec|as_slice|swap|reverse|windows|as_chunks|as_array)$",
    r"core::ops::(Index|IndexMut)<core::ops::Range(Full|From|To|Inclusive)?<usize>>.*::index(_mut)?$", r"core::ops::Deref(Mut)?>::deref(_mut)?$",
    r"core::iter::", r"as core::iter::(Iterator|IntoIterator|DoubleEndedIterator|ExactSizeIterator|Extend<.*>|FromIterator<.*>|Sum<.*>|Product<.*>)>::", r"impl core::iter::",
    r"alloc::vec::Vec(::)?<.*>::(new|with_capacity|push|len|iter|iter_mut|as_slice|as_mut_slice|extend_from_slice|reserve|capacity|clear|truncate|into_boxed_slice|as_ptr|as_mut_ptr|is_empty|pop|extend|resize|from_raw_parts|set_len)$",
    r"alloc::vec::from_elem", r"alloc::slice::<impl \[.*\]>::(to_vec|into_vec)$", r"alloc::vec::", r"alloc::boxed::", r"alloc::alloc::",
    r"core::option::Option(::)?<.*>::(map|ok_or|ok_or_else|expect|unwrap|unwrap_or|unwrap_or_else|as_ref|as_mut|is_some|is_none|take|copied|cloned|and_then|unwrap_or_default)",
    r"core::result::Result(::)?<.*>::(map|map_err|ok|expect|unwrap|unwrap_or|is_ok|is_err|and_then|unwrap_or_else)",
    r"core::ops::Try>::branch$", r"core::ops::FromResidual<.*>>::from_residual$",
    r"core::fmt::", r"core::panicking::", r"rand_core::", r"RngCore>::(fill_bytes|try_fill_bytes|next_u32|next_u64)$", r"CryptoRng", r"getrandom::",
    r"core::ops::(Add|Sub|Mul|Neg|BitAnd|BitOr|BitXor|Not|Shl|Shr)(Assign)?(<.*>)?>::\w+$",
    r"core::cmp::(min|max)::<usize>", r"core::cmp::Ord>::(min|max)$",
    r"signature::", r"ed25519::Signature::(from_bytes|from_components|to_bytes|r_bytes|s_bytes|from_slice)", r"<ed25519::Signature as", r"ed25519::", r"merlin::",
    r"fiat_crypto::", r"cpufeatures::", r"core::sync::atomic::", r"core::cell::", r"core::marker::",
    r"serde::", r"_serde::", r"pkcs8::", r"der::", r"spki::",
    r"group::", r"ff::",
]))
# extern calls whose enum/iterator result has a shape that does not depend on argument values
SHAPE_PUBLIC = re.compile("|".join([
    r"as core::iter::(Iterator|DoubleEndedIterator)>::(next|next_back|map|zip|rev|skip|take|chain|cloned|copied|enumerate|by_ref|collect|step_by|flatten|flat_map|peekable|fuse|inspect|sum|product|fold|for_each|count|last|nth|size_hint)",
    r"impl core::iter::(Iterator|DoubleEndedIterator) for .*>::(next|next_back|size_hint|nth)", r"core::iter::(once|repeat|empty|zip|from_fn)",
    r"IntoIterator.*>::into_iter$", r"core::slice::<impl \[.*\]>::(iter|iter_mut|chunks|chunks_exact|split_at|split_at_mut|windows|first|last|first_mut|last_mut|split_first|split_last|split_first_mut|split_last_mut|as_chunks|as_array)$",
    r"core::ops::Try>::branch$", r"core::option::Option(::)?<.*>::(map|ok_or|ok_or_else|as_ref|as_mut|copied|cloned|take)", r"core::result::Result(::)?<.*>::(map|map_err|ok)",
    r"core::convert::(TryInto|TryFrom)<.*>>::(try_into|try_from)$", r"core::array::<impl .*>::try_from", r"alloc::vec::", r"core::ops::(Index|IndexMut)<core::ops::Range",
    r"core::ops::Deref(Mut)?>::deref(_mut)?$", r"core::convert::(AsRef|AsMut)", r"core::clone::Clone>::clone$", r"core::borrow::Borrow", r"core::convert::Into<.*>>::into$", r"core::convert::From<.*>>::from$",
    r"FromIterator", r"core::iter::adapters::",
]))
SHAPE_SECRET = re.compile(r"core::convert::From<subtle::CtOption<.*>>|impl core::convert::From<subtle::CtOption<.*>> for core::option::Option|<bool as core::convert::From<subtle::Choice>>|"
                          r"subtle::Choice as core::convert::Into<bool>|CtOption(::)?<.*>::(unwrap|expect|unwrap_or|is_some|is_none)$")
PUBLIC_RESULT = re.compile(r"\]>::len$|::len$|::is_empty$|::size_hint$|::capacity$|core::mem::size_of|::output_size$|ExactSizeIterator>::len$")
PREDICATE_ADAPTERS = re.compile(r"as core::iter::(Iterator|DoubleEndedIterator)>::(filter|skip_while|take_while|find|position|rposition|any|all|filter_map|find_map|map_while|max_by|min_by|max_by_key|min_by_key|max|min|partition|cmp|eq|lt|le|gt|ge|ne|is_sorted\w*|try_fold|try_for_each|scan)(::<.*)?$"
                                r"|core::slice::<impl \[.*\]>::(sort\w*|binary_search\w*|contains|starts_with|ends_with|split|retain|dedup\w*)(::<.*)?$"
                                r"|core::cmp::(PartialEq|PartialOrd|Ord|Eq)(<.*>)?>::(eq|ne|cmp|partial_cmp|lt|le|gt|ge)$|core::array::equality::|core::slice::cmp::")
VARTIME = re.compile(r"vartime|::non_adjacent_form$|NafLookupTable\d<.*>::select$|scalar_mul::pippenger|::from_repr_vartime$|::is_zero_vartime$|::sqrt_tonelli_shanks|VartimePrecomputed")


_SUM_CACHE = {}


def _summaries_for(F):
    if id(F) not in _SUM_CACHE:
        _SUM_CACHE[id(F)] = Summaries(F)
    return _SUM_CACHE[id(F)]


def is_container(ty):
    return CONTAINER.search(ty) is not None


class Summaries:
    """Per-function transfer summaries: which parameters the return value / each by-reference parameter's
    pointee may depend on (flow-insensitive set propagation; extern calls depend on all their arguments)."""

    def __init__(self, F):
        self.F = F
        self.sum = {}
        self.busy = set()

    def get(self, f):
        k = f["key"]
        if k in self.sum:
            return self.sum[k]
        if k in self.busy:
            return None
        self.busy.add(k)
        r = self._compute(f)
        self.busy.discard(k)
        self.sum[k] = r
        return r

    def _compute(self, f):
        F = self.F
        fv = view(F, f)
        n = fv.nargs
        dep = {i: {i} for i in range(1, n + 1)}
        locals_ = fv.locals

        def od(o):
            if o[0] == "k":
                return set()
            return dep.get(o[1][0], set())

        changed = True
        rounds = 0

        def add(l, s_):
            nonlocal changed
            if not s_:
                return
            cur = dep.setdefault(l, set())
            if not s_ <= cur:
                cur |= s_
                changed = True

        while changed and rounds < 40:
            changed = False
            rounds += 1
            for bi, b in enumerate(fv.blocks):
                for s in b["s"]:
                    if s[0] != "=":
                        continue
                    (dst, dproj), rv = s[1], s[2]
                    k = rv[0]
                    src = set()
                    if k == "use":
                        src = od(rv[1])
                    elif k == "bin":
                        src = od(rv[2]) | od(rv[3])
                    elif k == "un":
                        src = set() if rv[1] == "PtrMetadata" else od(rv[2])
                    elif k == "cast":
                        src = od(rv[2])
                    elif k in ("ref", "rawptr"):
                        src = dep.get(rv[2][0], set())
                    elif k == "agg":
                        for o in rv[2]:
                            src = src | od(o)
                    elif k == "repeat":
                        src = od(rv[1])
                    elif k == "disc":
                        src = dep.get(rv[1][0], set())
                    add(dst, src)
                    if dproj and any(e == "*" for e in dproj):
                        for tgt in fv.mut_targets(dst):
                            add(tgt, src)
                t = b.get("t")
                if not t or t["k"] != "call":
                    continue
                nme = cname(t)
                args = t["args"]
                ads = [od(a) for a in args]
                g = lookup_callee(F, t)
                gs = self.get(g) if g is not None and "mir" in g else None
                if gs is not None:
                    rd = set()
                    gn = g["mir"]["arg_count"]
                    spread = g["mir"].get("spread_arg")
                    for pi in gs["ret"]:
                        ai = pi - 1
                        if spread is not None and pi >= spread:
                            ai = spread - 1
                        if 0 <= ai < len(ads):
                            rd |= ads[ai]
                    add(t["dest"][0], rd)
                    for pj, ds_ in gs["mut"].items():
                        aj = pj - 1
                        if aj >= len(args):
                            continue
                        pl = op_place(args[aj])
                        if pl is None:
                            continue
                        wd = set()
                        for pi in ds_:
                            ai = pi - 1
                            if spread is not None and pi >= spread:
                                ai = spread - 1
                            if 0 <= ai < len(ads):
                                wd |= ads[ai]
                        for tgt in fv.mut_targets(pl[0]):
                            add(tgt, wd)
                else:
                    if PUBLIC_RESULT.search(nme):
                        allsrc = set()
                    else:
                        allsrc = set()
                        for a in ads:
                            allsrc |= a
                    add(t["dest"][0], allsrc)
                    full = set()
                    for a in ads:
                        full |= a
                    for a in args:
                        pl = op_place(a)
                        if pl is None:
                            continue
                        aty = locals_[pl[0]]["ty"]
                        if aty.startswith("&mut") or aty.startswith("*mut"):
                            for tgt in fv.mut_targets(pl[0]):
                                add(tgt, full)
        mut = {}
        for i in range(1, n + 1):
            ty = locals_[i]["ty"]
            if ty.startswith("&mut") or ty.startswith("*mut"):
                mut[i] = set(dep.get(i, set()))
        return {"ret": set(dep.get(0, set())), "mut": mut}


class Taint:
    def __init__(self, F, R, rule_prefix, inst):
        self.F, self.R = F, R
        self.rp = rule_prefix
        self.inst = inst
        self.lv = {}          # fn key -> {local: level}
        self.callers = {}     # callee key -> set(caller key)
        self.work = []
        self.queued = set()
        self.sinks = {}       # (fn key, kind, detail) -> (loc, msg)
        self.unvetted = {}
        self.edges_vartime = {}
        self.reached = {}
        self.n_calls = 0
        self._done = set()
        self.S = _summaries_for(F)

    # ------------------------------------------------------------------ driving
    def add_root(self, f, public_params=()):
        k = f["key"]
        self.reached[k] = f
        lv = self.lv.setdefault(k, {})
        n = f["mir"]["arg_count"]
        for i in range(1, n + 1):
            if i not in public_params:
                ty = f["mir"]["locals"][i]["ty"]
                lv[i] = max(lv.get(i, 0), 1 if is_container(ty) else 2)
        self._enqueue(k)

    def _enqueue(self, k):
        if k not in self.queued:
            self.queued.add(k)
            self.work.append(k)

    def run(self, limit=200000):
        n = 0
        while self.work and n < limit:
            k = self.work.pop()
            self.queued.discard(k)
            self._process(self.reached[k])
            n += 1
        return n

    # ------------------------------------------------------------------ per function
    def _level_for(self, ty, tainted):
        if not tainted:
            return 0
        return 1 if is_container(ty) else 2

    def _op_level(self, fv, lv, o):
        if o[0] == "k":
            return 0
        base, proj = o[1]
        return lv.get(base, 0)

    def _read_level(self, fv, lv, o, dest_ty):
        """level of the value read by operand o when stored into a place of type dest_ty"""
        if o[0] == "k":
            return 0
        base, proj = o[1]
        l = lv.get(base, 0)
        if l == 0:
            return 0
        return self._level_for(dest_ty, True)

    def _process(self, f):
        F = self.F
        fv = view(F, f)
        k = f["key"]
        lv = self.lv.setdefault(k, {})
        locals_ = fv.locals
        changed = True
        rounds = 0
        before = tuple(lv.get(i, 0) for i in range(0, fv.nargs + 1))

        def raise_(l, level):
            nonlocal changed
            if level > lv.get(l, 0):
                lv[l] = level
                changed = True

        def place_ty(pl):
            # type of the local (projections ignored: we only need container-ness of the *destination local*)
            return locals_[pl[0]]["ty"]

        while changed and rounds < 50:
            changed = False
            rounds += 1
            for bi, b in enumerate(fv.blocks):
                for s in b["s"]:
                    if s[0] != "=":
                        continue
                    (dst, dproj), rv = s[1], s[2]
                    dty = locals_[dst]["ty"]
                    kind = rv[0]
                    lev = 0
                    if kind == "use":
                        lev = self._src_level(lv, rv[1], dty, dproj)
                    elif kind in ("bin",):
                        t = max(self._op_level(fv, lv, rv[2]), self._op_level(fv, lv, rv[3]))
                        lev = 2 if t else 0
                    elif kind == "un":
                        lev = 2 if (self._op_level(fv, lv, rv[2]) and rv[1] != "PtrMetadata") else 0
                    elif kind == "cast":
                        t = self._op_level(fv, lv, rv[2])
                        lev = self._level_for(dty if not dproj else "x", bool(t)) if t else 0
                        if t and not is_container(rv[3]):
                            lev = 2
                    elif kind in ("ref", "rawptr"):
                        t = lv.get(rv[2][0], 0)
                        # a reference to (part of) a tainted local
                        lev = self._level_for(dty, bool(t)) if t else 0
                        if t == 1 and any(e != "*" for e in rv[2][1]) and not is_container(dty):
                            lev = 2
                    elif kind == "agg":
                        t = max([self._op_level(fv, lv, o) for o in rv[2]] + [0])
                        lev = self._level_for(dty, bool(t)) if t else 0
                        if rv[1][0] == "closure" and t:
                            lev = 2
                    elif kind == "repeat":
                        t = self._op_level(fv, lv, rv[1])
                        lev = self._level_for(dty, bool(t)) if t else 0
                    elif kind == "disc":
                        t = lv.get(rv[1][0], 0)
                        lev = 2 if t == 2 else 0
                    elif kind == "len":
                        lev = 0
                    if dproj:
                        # partial write: the destination local becomes (at least) payload-tainted
                        if lev:
                            raise_(dst, 1 if is_container(dty) else 2)
                            if any(e == "*" for e in dproj):
                                for tgt in fv.mut_targets(dst):
                                    raise_(tgt, 1 if is_container(locals_[tgt]["ty"]) else 2)
                    else:
                        if lev:
                            raise_(dst, lev)
                t = b.get("t")
                if not t:
                    continue
                if t["k"] == "call":
                    self._cur_live = bi in fv.live_blocks()
                    self._call(f, fv, lv, bi, t, raise_)
        # sinks (evaluated on the final levels)
        self._sinks(f, fv, lv)
        # our summary (return level, levels of by-reference params) may have changed: callers must re-read it
        after = tuple(lv.get(i, 0) for i in range(0, fv.nargs + 1))
        if after != before:
            for c in self.callers.get(k, ()):
                self._enqueue(c)

    def _src_level(self, lv, o, dty, dproj):
        if o[0] == "k":
            return 0
        base, proj = o[1]
        l = lv.get(base, 0)
        if l == 0:
            return 0
        if dproj:
            return 2
        if is_container(dty):
            return 1
        return 2

    # ------------------------------------------------------------------ calls
    def _call(self, f, fv, lv, bi, t, raise_):
        F = self.F
        self.n_calls += 1
        n = cname(t)
        args = t["args"]
        alv = [self._op_level(fv, lv, a) for a in args]
        any_t = max(alv + [0])
        dst = t["dest"][0]
        dty = fv.locals[dst]["ty"]
        g = lookup_callee(F, t)
        callee_path = cpath(t)
        # edges into the variable-time set
        if VARTIME.search(n) or VARTIME.search(callee_path):
            self.edges_vartime[(f["key"], n)] = (fv.loc(t["line"]), f)
        ret = 0
        if g is not None and "mir" in g:
            gk = g["key"]
            if gk not in self.reached:
                self.reached[gk] = g
            self.callers.setdefault(gk, set()).add(f["key"])
            glv = self.lv.setdefault(gk, {})
            gn = g["mir"]["arg_count"]
            ch = False
            spread = g["mir"].get("spread_arg")
            for i, a in enumerate(alv):
                pi = i + 1
                if spread is not None and pi >= spread:
                    # closure call through Fn*::call: tuple argument spreads over the remaining params
                    for pj in range(spread, gn + 1):
                        if a and glv.get(pj, 0) < 2:
                            pty = g["mir"]["locals"][pj]["ty"]
                            nl = 1 if is_container(pty) else 2
                            if nl > glv.get(pj, 0):
                                glv[pj] = nl
                                ch = True
                    continue
                if pi > gn:
                    break
                if a:
                    pty = g["mir"]["locals"][pi]["ty"]
                    nl = 1 if is_container(pty) else 2
                    # keep payload-only when the argument itself is payload-only and param is a container
                    if nl > glv.get(pi, 0):
                        glv[pi] = nl
                        ch = True
            if ch or gk not in self.lv_done():
                self._enqueue(gk)
            gs = self.S.get(g) or {"ret": set(range(1, gn + 1)), "mut": {i: set(range(1, gn + 1)) for i in range(1, gn + 1)}}

            def arg_level_of_param(pi):
                ai = pi - 1
                if spread is not None and pi >= spread:
                    ai = spread - 1
                return alv[ai] if 0 <= ai < len(alv) else 0
            rl = max([arg_level_of_param(pi) for pi in gs["ret"]] + [0])
            ret = 0
            if rl:
                ret = 1 if is_container(dty) else 2
            # writes through &mut params (per the callee's transfer summary)
            for pj, ds_ in gs["mut"].items():
                aj = pj - 1
                if aj >= len(args):
                    continue
                pl = op_place(args[aj])
                if pl is None:
                    continue
                if max([arg_level_of_param(pi) for pi in ds_ if pi != pj] + [0]):
                    for tgt in fv.mut_targets(pl[0]):
                        raise_(tgt, 1 if is_container(fv.locals[tgt]["ty"]) else 2)
        else:
            # extern (or unresolved trait method on a type parameter)
            unresolved_local = t.get("resolved") is None and t.get("callee_trait")
            if unresolved_local:
                # conservative closure: every local impl of that trait method may be the callee
                name = (t.get("callee") or "").split("::")[-1]
                tr = t.get("callee_trait")
                for cand in self._impls_of(tr, name):
                    ck = cand["key"]
                    if ck not in self.reached:
                        self.reached[ck] = cand
                    self.callers.setdefault(ck, set()).add(f["key"])
                    clv = self.lv.setdefault(ck, {})
                    ch = False
                    for i, a in enumerate(alv):
                        pi = i + 1
                        if pi <= cand["mir"]["arg_count"] and a:
                            pty = cand["mir"]["locals"][pi]["ty"]
                            nl = 1 if is_container(pty) else 2
                            if nl > clv.get(pi, 0):
                                clv[pi] = nl
                                ch = True
                    if ch or ck not in self.lv_done():
                        self._enqueue(ck)
                    if clv.get(0, 0):
                        ret = max(ret, 1 if is_container(dty) else 2)
            # closures handed to an extern adapter: their parameters carry the adapter's inputs
            clos = self._closure_args(fv, args)
            clos_ret = 0
            for ck in clos:
                cf = F.fns.get(ck)
                if not cf or "mir" not in cf:
                    continue
                if ck not in self.reached:
                    self.reached[ck] = cf
                self.callers.setdefault(ck, set()).add(f["key"])
                clv = self.lv.setdefault(ck, {})
                ch = False
                cn = cf["mir"]["arg_count"]
                # env (param 1) gets the closure value's level; the rest get the other arguments' taint
                env_level = max([alv[i] for i, a in enumerate(args) if self._is_closure_operand(fv, a, ck)] + [0])
                others = max([alv[i] for i, a in enumerate(args) if not self._is_closure_operand(fv, a, ck)] + [0])
                if env_level and clv.get(1, 0) < 2:
                    clv[1] = 2
                    ch = True
                if others:
                    for pj in range(2, cn + 1):
                        pty = cf["mir"]["locals"][pj]["ty"]
                        nl = 1 if is_container(pty) else 2
                        if nl > clv.get(pj, 0):
                            clv[pj] = nl
                            ch = True
                if ch or ck not in self.lv_done():
                    self._enqueue(ck)
                clos_ret = max(clos_ret, clv.get(0, 0))
            tainted_in = any_t or clos_ret
            if PUBLIC_RESULT.search(n):
                ret = max(ret, 0)
            elif tainted_in:
                if SHAPE_SECRET.search(n):
                    ret = 2
                elif is_container(dty):
                    ret = max(ret, 1 if SHAPE_PUBLIC.search(n) else 2)
                else:
                    ret = 2
                if not unresolved_local:
                    if PREDICATE_ADAPTERS.search(n) and (clos_ret or any(alv[i] == 2 or (alv[i] == 1 and not clos) for i in range(len(alv)))):
                        # a comparison / predicate-driven adapter over secret data
                        if clos_ret or not re.search(r"as core::iter::", n) or any_t:
                            self._sink(f, "predicate-call", n, fv.loc(t["line"]),
                                       "secret data reaches a value-dependent library routine (%s)" % n[:120])
                    elif not (VETTED.search(n) or VETTED.search(callee_path) or SHAPE_PUBLIC.search(n)):
                        self._sink(f, "unvetted-call", n, fv.loc(t["line"]), "secret data passed to an un-vetted external function %s" % n[:140])
                # extern writes through &mut arguments
                for i, a in enumerate(args):
                    pl = op_place(a)
                    if pl is None:
                        continue
                    aty = fv.locals[pl[0]]["ty"]
                    if aty.startswith("&mut") or aty.startswith("*mut"):
                        for tgt in fv.mut_targets(pl[0]):
                            raise_(tgt, 1 if is_container(fv.locals[tgt]["ty"]) else 2)
        if ret:
            if t["dest"][1]:
                raise_(dst, 1 if is_container(dty) else 2)
            else:
                raise_(dst, ret)

    def lv_done(self):
        return self._done

    def _impls_of(self, trait_path, name):
        key = (trait_path, name)
        cache = self.__dict__.setdefault("_impl_cache", {})
        if key not in cache:
            last = trait_path.split("::")[-1]
            out = []
            for g in self.F.fns.values():
                if "mir" in g and g.get("name") == name and g.get("trait") and re.sub(r"<.*", "", g["trait"]).split("::")[-1] == last:
                    out.append(g)
            cache[key] = out
        return cache[key]

    def _closure_args(self, fv, args):
        out = []
        for a in args:
            l = op_local(a)
            if l is None:
                continue
            ty = fv.locals[l]["ty"]
            if re.match(r"^(&(mut )?)*\{closure@", ty):
                for d in fv.defs.get(l, []):
                    if d.kind == "assign" and d.rv[0] == "agg" and d.rv[1][0] == "closure":
                        out.append(d.rv[1][1])
                    elif d.kind == "assign" and d.rv[0] == "use" and op_local(d.rv[1]) is not None:
                        for d2 in fv.defs.get(op_local(d.rv[1]), []):
                            if d2.kind == "assign" and d2.rv[0] == "agg" and d2.rv[1][0] == "closure":
                                out.append(d2.rv[1][1])
        return out

    def _is_closure_operand(self, fv, a, ck):
        l = op_local(a)
        if l is None:
            return False
        return re.match(r"^(&(mut )?)*\{closure@", fv.locals[l]["ty"]) is not None

    # ------------------------------------------------------------------ sinks
    def _sink(self, f, kind, detail, loc, msg):
        if kind in ("predicate-call", "unvetted-call") and not getattr(self, "_cur_live", True):
            return
        key = (f["key"], kind, detail[:160])
        if key not in self.sinks:
            self.sinks[key] = (loc, msg, f)

    def _sinks(self, f, fv, lv):
        self._done.add(f["key"])
        # drop stale sinks of this function (levels only grow, so sinks only grow; keep)
        live = fv.live_blocks()
        for bi, b in enumerate(fv.blocks):
            if b.get("cleanup") or bi not in live:
                continue
            for s in b["s"]:
                if s[0] != "=":
                    continue
                # indexing by a tainted local, in reads or writes
                for pl in self._places_of_stmt(s):
                    for e in pl[1]:
                        if isinstance(e, list) and e[0] == "i" and lv.get(e[1], 0) == 2:
                            self._sink(f, "secret-index", "idx@%s" % self._origin_name(fv, e[1]), fv.loc(s[3]), "memory indexed by a secret-dependent value")
                rv = s[2]
                if rv[0] == "bin" and rv[1] in ("Div", "Rem") and max(self._op_level(fv, lv, rv[2]), self._op_level(fv, lv, rv[3])) == 2:
                    self._sink(f, "secret-div", "div", fv.loc(s[3]), "division/remainder with a secret-dependent operand")
                if rv[0] == "bin" and rv[1] == "BitAnd":
                    for o in (rv[2], rv[3]):
                        l = op_local(o)
                        if l is not None and lv.get(l, 0) == 2 and self._expanded_secret_bit(fv, lv, l):
                            self._sink(f, "secret-mask", "mask@%s" % self._origin_name(fv, l), fv.loc(s[3]),
                                       "a selection mask is expanded from a secret bit by plain arithmetic (x.wrapping_sub(1) / wrapping_neg / 0 - x) and and-ed in: without "
                                       "subtle's optimisation barrier compilers turn this into a branch on the secret (RUSTSEC-2024-0344); use Choice / conditional_select")
            t = b.get("t")
            if not t:
                continue
            if t["k"] == "switch" and self._op_level(fv, lv, t["discr"]) == 2:
                self._sink(f, "secret-branch", "switch@%s" % self._origin_name(fv, op_local(t["discr"])), fv.loc(t["line"]), "branch on a secret-dependent value")
            if t["k"] == "assert" and self._op_level(fv, lv, t["cond"]) == 2:
                self._sink(f, "secret-assert", "assert:%s" % t["msg"], fv.loc(t["line"]), "run-time check (%s) whose outcome depends on a secret" % t["msg"])

    def _expanded_secret_bit(self, fv, lv, l, depth=0):
        """is local l (through copies / casts) defined as  s.wrapping_sub(1), s.wrapping_neg(), 0 - s, -s  or the bitwise not of such, s secret"""
        if depth > 4:
            return False
        ds = fv.defs.get(l, [])
        if len(ds) != 1:
            return False
        d = ds[0]
        if d.kind == "call" and not d.via_mutref:
            n = cname(d.term)
            a = d.term["args"]
            if re.search(r"core::num::<impl (u|i)\d+>::wrapping_sub$", n) and len(a) == 2:
                c = op_const(a[1])
                return bool(c) and c.get("v") == 1 and self._op_level(fv, lv, a[0]) == 2
            if re.search(r"core::num::<impl (u|i)\d+>::wrapping_neg$", n) and a:
                return self._op_level(fv, lv, a[0]) == 2
            return False
        if d.kind == "assign" and not d.proj:
            rv = d.rv
            if rv[0] == "use" or rv[0] == "cast":
                src = op_local(rv[1] if rv[0] == "use" else rv[2])
                return src is not None and self._expanded_secret_bit(fv, lv, src, depth + 1)
            if rv[0] == "un" and rv[1] == "Neg":
                return self._op_level(fv, lv, rv[2]) == 2
            if rv[0] == "un" and rv[1] == "Not":
                src = op_local(rv[2])
                return src is not None and self._expanded_secret_bit(fv, lv, src, depth + 1)
            if rv[0] == "bin" and rv[1] in ("Sub", "SubUnchecked"):
                c = op_const(rv[2])
                return bool(c) and c.get("v") == 0 and self._op_level(fv, lv, rv[3]) == 2
        return False

    def _places_of_stmt(self, s):
        out = [s[1]]
        rv = s[2]

        def add(o):
            if o[0] in ("c", "m"):
                out.append(o[1])
        k = rv[0]
        if k == "use":
            add(rv[1])
        elif k == "bin":
            add(rv[2]); add(rv[3])
        elif k in ("un", "cast"):
            add(rv[2])
        elif k in ("ref", "rawptr"):
            out.append(rv[2])
        elif k == "agg":
            for o in rv[2]:
                add(o)
        elif k == "repeat":
            add(rv[1])
        elif k in ("disc", "len"):
            out.append(rv[1])
        return out

    def _origin_name(self, fv, l):
        if l is None:
            return "?"
        try:
            from mirlib import expr_of
            import ex as _ex
            e = expr_of(fv, ["c", [l, []]], 6)

            def nm(x):
                if isinstance(x, tuple):
                    if x[0] == "local":
                        return ("local", fv.locals[x[1]].get("name") or "tmp", x[2])
                    return tuple(nm(y) for y in x)
                if isinstance(x, list):
                    return [nm(y) for y in x]
                return x
            txt = _ex.show(nm(e), 5)
            txt = re.sub(r"_(\w+)", r"\1", txt) if False else txt
            return txt[:90]
        except Exception:
            pass
        nm = fv.locals[l].get("name")
        if nm:
            return nm
        # name of the callee / op that produced it
        for d in fv.defs.get(l, []):
            if d.kind == "call":
                return re.sub(r"<[^<>]*>", "", cname(d.term)).split("::")[-1][:40]
            if d.kind == "assign":
                return d.rv[0] + (":" + str(d.rv[1]) if d.rv[0] in ("bin", "un") else "")
        return "_%d" % l
