"""BITS: bit-provenance abstract domain.  An integer value is a vector of per-bit sources: the constant 0 or 1, input bit k, or unknown.
Shifts by constants, masks, ors, zero-extension and truncation move sources around exactly; anything else gives unknown bits.  On the generic
MIR interpreter this decides byte <-> limb codecs (which input bit ends up in which limb position) for every input at once."""
import re
from absint import Interp, I, TOP
from absint_models import Models

W = {"u8": 8, "u16": 16, "u32": 32, "u64": 64, "u128": 128, "usize": 64, "i8": 8, "i16": 16, "i32": 32, "i64": 64, "i128": 128, "isize": 64}


def bv(bits):
    return ("bv", tuple(bits))


def input_byte(k, base=0):
    return bv([("b", base + 8 * k + j) for j in range(8)])


def of_const(n, w):
    return bv([(n >> j) & 1 for j in range(w)])


def as_bv(v, w):
    if v[0] == "bv":
        bits = list(v[1])
        return bv((bits + [0] * w)[:w])
    if v[0] == "i" and v[1] == v[2] and v[1] >= 0:
        return of_const(v[1], w)
    return None


def as_const(v):
    if v[0] == "i" and v[1] == v[2]:
        return v[1]
    if v[0] == "bv" and all(b in (0, 1) for b in v[1]):
        return sum(b << j for j, b in enumerate(v[1]))
    return None


# ---------------------------------------------------------------- LIN: integer-linear forms over input bits and opaque quotients
def lin(d, c=0):
    return ("lin", tuple(sorted(((k, v) for k, v in d.items() if v), key=repr)), c)


def to_lin(v):
    """linear form of a bit vector / constant / linear value; None if a bit is unknown"""
    if v[0] == "lin":
        return v
    if v[0] == "i" and v[1] == v[2]:
        return lin({}, v[1])
    if v[0] == "bv":
        d, c = {}, 0
        for j, s_ in enumerate(v[1]):
            if s_ == 0:
                continue
            if s_ == 1:
                c += 1 << j
            elif isinstance(s_, tuple):
                d[s_] = d.get(s_, 0) + (1 << j)
            else:
                return None
        return lin(d, c)
    return None


def lin_add(a, b, sign=1):
    d = dict(a[1])
    for k, v in b[1]:
        d[k] = d.get(k, 0) + sign * v
    return lin(d, a[2] + sign * b[2])


def lin_scale(a, n):
    return lin({k: v * n for k, v in a[1]}, a[2] * n)


def limb_layout(n):
    """(widths, offsets) of the n-limb field representation"""
    ws = [51] * 5 if n == 5 else [26 if i % 2 == 0 else 25 for i in range(10)]
    offs, o = [], 0
    for w in ws:
        offs.append(o)
        o += w
    return ws, offs


class BvInterp(Interp):
    """besides bit vectors, the canonical-encoding idiom of the field `as_bytes` is followed with tokens (n = number of limbs, w_i their widths):
         ("lmb", i)                     reduced input limb i
         (lmb_0 + 19) >> w_0 = cy1(0);  (lmb_i + cy1(i-1)) >> w_i = cy1(i)        the carry out of h + 19 through limbs 0..i
         19 * cy1(n-1) = q19            (q = 1 iff h >= p)
         lmb_0 + q19 = e(0);  e(i) >> w_i = cy2(i);  lmb_(i+1) + cy2(i) = e(i+1);  e(i) & (2^w_i - 1) = bits [o_i, o_i + w_i) of V = h + 19 q
       any other combination of these tokens is a ("badtok", reason) that poisons the result"""
    nlimbs = None

    def tok_binop(self, base, a, b):
        n = self.nlimbs
        ws, offs = limb_layout(n)
        k = lambda v: v[0]
        ca, cb = as_const(a) if k(a) in ("i", "bv") else None, as_const(b) if k(b) in ("i", "bv") else None
        for x, y, cy in ((a, b, cb), (b, a, ca)):
            if base == "Add" and k(x) == "lmb":
                i = x[1]
                if cy == 19 and k(y) in ("i", "bv"):
                    return ("s1", i, "19") if i == 0 else ("badtok", "19 is added to limb %d (only limb 0 starts the h + 19 carry chain)" % i)
                if k(y) == "cy1":
                    return ("s1", i, "c") if y[1] == i - 1 else ("badtok", "limb %d receives the carry out of limb %d" % (i, y[1]))
                if k(y) == "q19":
                    return ("e", 0) if i == 0 else ("badtok", "19 q is added to limb %d, not limb 0" % i)
                if k(y) == "cy2":
                    return ("e", i) if y[1] == i - 1 else ("badtok", "limb %d receives the carry of limb %d" % (i, y[1]))
            if base == "Mul" and k(x) == "cy1" and cy == 19 and k(y) in ("i", "bv"):
                return ("q19",) if x[1] == n - 1 else ("badtok", "q is the carry out of limbs 0..%d only (the chain must run through limb %d)" % (x[1], n - 1))
        if base == "Shr" and k(a) in ("s1", "e") and cb is not None:
            i = a[1]
            if cb != ws[i]:
                return ("badtok", "limb %d (%d bits) is shifted by %d" % (i, ws[i], cb))
            if k(a) == "s1":
                if (a[2] == "19") != (i == 0):
                    return ("badtok", "the carry chain of h + 19 is broken at limb %d" % i)
                return ("cy1", i)
            return ("cy2", i)
        if base == "BitAnd":
            for x, c in ((a, cb), (b, ca)):
                if k(x) == "e" and c is not None:
                    i = x[1]
                    if c != (1 << ws[i]) - 1:
                        return ("badtok", "limb %d is masked with %#x, not its %d low bits" % (i, c, ws[i]))
                    return bv([("b", offs[i] + j) if j < ws[i] else 0 for j in range(64 if n == 5 else 32)])
        for v in (a, b):
            if k(v) == "badtok":
                return v
        return ("badtok", "%s of %s and %s is outside the canonical-encoding idiom" % (base, k(a), k(b)))

    lin_mode = False        # recoding analysis: sums of bit vectors and opaque quotients are kept as integer-linear forms
    quotients = 0

    hint = None             # scenario: (lo, hi) range of the symbolic value that is narrowed to i8 (the NAF window on a digit arm)
    hint_i8 = None

    @staticmethod
    def wrap8(v, lo, hi):
        """v with known range [lo, hi], reinterpreted as i8: subtract the multiple of 256 that brings the whole range into [-128, 127]"""
        k = (lo + 128) // 256
        if (hi + 128) // 256 != k:
            return None, None
        return lin_add(v, lin({}, -256 * k)), (lo - 256 * k, hi - 256 * k)

    def lin_binop(self, base, a, b, ty):
        x, y = to_lin(a), to_lin(b)
        if base in ("Add", "Sub") and x is not None and y is not None:
            r = lin_add(x, y, -1 if base == "Sub" else 1)
            if ty == "i8" and self.hint_i8 is not None and x[1] and not y[1]:
                # wrapping i8 arithmetic on the narrowed window: same reinterpretation
                lo, hi = (self.hint_i8[0] - y[2], self.hint_i8[1] - y[2]) if base == "Sub" else (self.hint_i8[0] + y[2], self.hint_i8[1] + y[2])
                r2, rng = self.wrap8(r, lo, hi)
                if r2 is not None:
                    return r2
            return r
        if base == "Shl" and x is not None and as_const(b) is not None:
            return lin_scale(x, 1 << as_const(b))
        if base == "Mul" and x is not None and y is not None:
            if not x[1]:
                return lin_scale(y, x[2])
            if not y[1]:
                return lin_scale(x, y[2])
        if base == "Shr" and x is not None and as_const(b) is not None:
            # floor(L / 2^k): an opaque quotient symbol (the recodings' carries); nothing is assumed about its value
            self.quotients += 1
            return lin({("q", self.quotients): 1})
        if base in ("Eq", "Ne", "Lt", "Le", "Gt", "Ge") and x is not None and y is not None and not x[1] and not y[1]:
            ca, cb = x[2], y[2]
            return I(int({"Eq": ca == cb, "Ne": ca != cb, "Lt": ca < cb, "Le": ca <= cb, "Gt": ca > cb, "Ge": ca >= cb}[base]))
        if base == "Lt" and getattr(self, "force_lt", None) is not None:
            return I(self.force_lt)         # scenario: outcome of the digit-arm comparison (window < width / 2)
        if base in ("Eq", "Ne", "Lt", "Le", "Gt", "Ge"):
            return I(0, 1)
        if base == "BitAnd" and x is not None and as_const(b) == 1:
            # parity of a linear form whose symbolic part is even: decided by the constant part and the coefficient-1 bits
            odd = [k for k, v in x[1] if v % 2]
            if not odd:
                return of_const(x[2] & 1, W.get(ty, 64))
        return TOP

    def binop(self, op, a, b, ty, fv=None, line=0):
        base = op.replace("Unchecked", "")
        if self.lin_mode and (a[0] == "lin" or b[0] == "lin" or (base in ("Add", "Sub") and (a[0] == "bv" or b[0] == "bv"))):
            return self.lin_binop(base, a, b, ty)
        if self.nlimbs and (a[0] in ("lmb", "s1", "cy1", "q19", "e", "cy2", "badtok") or b[0] in ("lmb", "s1", "cy1", "q19", "e", "cy2", "badtok")):
            return self.tok_binop(base, a, b)
        if a[0] == "bv" or b[0] == "bv":
            w = W.get(ty) or max(len(x[1]) for x in (a, b) if x[0] == "bv")
            if base in ("Shl", "Shr"):
                k = as_const(b)
                x = as_bv(a, w if a[0] != "bv" else len(a[1]))
                if k is None or x is None:
                    return ("bv", ("?",) * w)
                bits = list(x[1])
                n = len(bits)
                if base == "Shl":
                    bits = ([0] * k + bits)[:n]
                else:
                    bits = (bits[k:] + [0] * k)[:n]
                return bv(bits)
            x, y = as_bv(a, w), as_bv(b, w)
            if x is None or y is None:
                return ("bv", ("?",) * w)
            if base == "BitAnd":
                return bv([0 if (p == 0 or q == 0) else (p if q == 1 else (q if p == 1 else (p if p == q else "?"))) for p, q in zip(x[1], y[1])])
            if base == "BitOr":
                return bv([1 if (p == 1 or q == 1) else (p if q == 0 else (q if p == 0 else (p if p == q else "?"))) for p, q in zip(x[1], y[1])])
            if base == "BitXor":
                return bv([p if q == 0 else (q if p == 0 else ("?" if "?" in (p, q) or isinstance(p, tuple) or isinstance(q, tuple) else p ^ q)) for p, q in zip(x[1], y[1])])
            if base in ("Add", "Sub", "Mul"):
                ca, cb = as_const(x), as_const(y)
                if ca is not None and cb is not None:
                    r = {"Add": ca + cb, "Sub": ca - cb, "Mul": ca * cb}[base]
                    return of_const(r % (1 << w), w)
                if base == "Add" and all(p == 0 or q == 0 for p, q in zip(x[1], y[1])):
                    return bv([p if q == 0 else q for p, q in zip(x[1], y[1])])       # disjoint bits: addition is or
                return ("bv", ("?",) * w)
            if base in ("Eq", "Ne", "Lt", "Le", "Gt", "Ge"):
                ca, cb = as_const(x), as_const(y)
                if ca is not None and cb is not None:
                    return I(int({"Eq": ca == cb, "Ne": ca != cb, "Lt": ca < cb, "Le": ca <= cb, "Gt": ca > cb, "Ge": ca >= cb}[base]))
                # a single-bit quantity (one source bit at position 0, zeros above) compared with 1 / 0: the boolean is that bit
                for u, c in ((x, cb), (y, ca)):
                    if c is not None and isinstance(u[1][0], tuple) and all(z == 0 for z in u[1][1:]):
                        if (base == "Eq" and c == 1) or (base == "Ne" and c == 0):
                            return bv([u[1][0]])
                return I(0, 1)
            return ("bv", ("?",) * w)
        return super().binop(op, a, b, ty, fv, line)

    def cast(self, v, kind, ty):
        if v[0] == "lin" and ty == "i8" and self.hint is not None and v[1]:
            r, rng = self.wrap8(v, *self.hint)
            if r is not None:
                self.hint_i8 = rng
                return r
        if v[0] in ("lmb", "s1", "cy1", "q19", "e", "cy2", "badtok", "lin"):
            return v            # (for "lin": width changes are value-preserving for in-range values; the ranges are C11's obligations)
        if v[0] == "bv" and self.lin_mode and ty in ("i8", "i16", "i32", "i64") and len(v[1]) > W.get(ty, 64):
            return to_lin(v) or TOP
        if v[0] == "bv":
            w = W.get(ty)
            if w is None:
                return TOP
            bits = list(v[1])
            return bv((bits + [0] * w)[:w])
        return super().cast(v, kind, ty)


class BvModels(Models):
    def __init__(self, watch=None):
        super().__init__()
        self.watch = watch
        self.logged = []
        self.reduce_limbs = None    # when set: the watched call (the field's reduce) returns this many symbolic reduced limbs

    def call(self, ip, fv, st, depth, t, n, args, dty):
        names = [x for x in (n, t.get("callee_full") or "", (t.get("resolved") or {}).get("path") or "") if x]
        m = re.search(r"core::num::<impl (u\d+)>::from_le_bytes$", n)
        if m and args:
            a = ip.deconst(ip.deref_val(st, args[0]))
            if a[0] == "arr" and all(x[0] in ("bv", "i") for x in a[1]):
                bits = []
                for x in a[1]:
                    xb = as_bv(x, 8)
                    if xb is None:
                        bits = None
                        break
                    bits += list(xb[1])
                if bits is not None and len(bits) == W[m.group(1)]:
                    return bv(bits)
        m = re.search(r"core::num::<impl (u\d+)>::to_le_bytes$", n)
        if m and args:
            a = ip.deconst(ip.deref_val(st, args[0]))
            xb = as_bv(a, W[m.group(1)]) if a is not None and a[0] in ("bv", "i") else None
            if xb is not None:
                return ("arr", tuple(bv(xb[1][8 * j:8 * j + 8]) for j in range(W[m.group(1)] // 8)))
        if self.watch and any(re.search(self.watch, nm) for nm in names):
            self.logged.append((names[0], [ip.deconst(ip.deref_val(st, a)) for a in args]))
            if self.reduce_limbs:
                arr = ("arr", tuple(("lmb", i) for i in range(self.reduce_limbs)))
                return arr if dty.startswith("[") else ("st", (arr,))
            return ip.default_value(dty)
        return super().call(ip, fv, st, depth, t, n, args, dty)


def run(F, f, values, watch=None, reduce_limbs=None, lin_mode=False):
    ip = BvInterp(F, BvModels(watch), step_budget=3_000_000)
    ip.lin_mode = lin_mode
    ip.nlimbs = reduce_limbs
    ip.models.reduce_limbs = reduce_limbs
    ret, root = ip.run_root(f, values)
    return ret, ip, root


def limb_bits(v):
    """list of bit-source lists for an array / struct-of-array of limbs"""
    while v is not None and v[0] == "st" and len(v[1]) == 1:
        v = v[1][0]
    if v is None or v[0] != "arr":
        return None
    out = []
    for x in v[1]:
        if x[0] == "bv":
            out.append(list(x[1]))
        elif x[0] == "i" and x[1] == x[2]:
            out.append([(x[1] >> j) & 1 for j in range(128)])
        else:
            return None
    return out


def positional_value(limbs, offsets):
    """{input bit k: total weight} and constant part of sum limb_i * 2^offset_i; None if an unknown bit occurs"""
    coef, const = {}, 0
    for bits, off in zip(limbs, offsets):
        for j, s in enumerate(bits):
            if s == 0:
                continue
            if s == 1:
                const += 1 << (j + off)
            elif isinstance(s, tuple) and s[0] == "b":
                coef[s[1]] = coef.get(s[1], 0) + (1 << (j + off))
            else:
                return None, None
    return coef, const
