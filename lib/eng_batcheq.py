"""BATCHEQ: ed25519_dalek::batch::verify_batch in the abstract domain of *scalar polynomials* and *polynomial combinations of points*.

The batch is a concrete number n of symbolic entries.  Signature i is 64 symbolic bytes, key i is {32 symbolic bytes, point A_i}, message i
is an opaque token.  Transfer functions (documented contracts of the primitives; none of their arithmetic is entered):
    Scalar + - * Neg, Sum          polynomial arithmetic over the symbols
    from_canonical_bytes / from_bits on 32 consecutive symbolic bytes  ->  the symbol sc(source, offset)         (may fail)
    CompressedEdwardsY::decompress on 32 consecutive symbolic bytes     ->  the point symbol dec(source, offset)  (may fail)
    Sha512 default / update / finalize  ->  a digest token listing the absorbed inputs in order;  from_bytes_mod_order_wide(digest) -> symbol h(inputs)
    merlin Transcript new / append_message / build_rng / finalize      ->  the list of absorbed (label, input) pairs; fill_bytes on the RNG
                                                                           yields fresh symbolic bytes (draw k), u128::from_le_bytes / Scalar::from -> symbol z_k
    optional_multiscalar_mul(scalars, points)  ->  sum scalar_i * point_i  (its own correctness is C04's), None possible iff some point may be None
    is_identity / ct_eq with the identity       ->  unknown boolean; the tested combination is logged
Control flow (lengths, loop counters) stays concrete.  Nothing is executed."""
import re
from absint import Interp, I, TOP, view
from absint_models import Models


# ---------------------------------------------------------------- scalar polynomials
def SP(d):
    return ("sp", tuple(sorted(((k, c) for k, c in d.items() if c), key=repr)))


def sconst(n):
    return SP({(): n})


def ssym(s):
    return SP({(s,): 1})


def sadd(a, b, sign=1):
    d = dict(a[1])
    for k, c in b[1]:
        d[k] = d.get(k, 0) + sign * c
    return SP(d)


def smul(a, b):
    d = {}
    for k1, c1 in a[1]:
        for k2, c2 in b[1]:
            k = tuple(sorted(k1 + k2, key=repr))
            d[k] = d.get(k, 0) + c1 * c2
    if len(d) > 5000:
        raise OverflowError("polynomial too large")
    return SP(d)


# ---------------------------------------------------------------- combinations of points with polynomial coefficients
def PL(d):
    return ("pl", tuple(sorted(((p, c) for p, c in d.items() if c[1]), key=repr)))


def psym(p):
    return PL({p: sconst(1)})


def padd(a, b, sign=1):
    d = dict(a[1])
    for p, c in b[1]:
        d[p] = sadd(d.get(p, sconst(0)), c, sign)
    return PL(d)


def pscale(a, s):
    return PL({p: smul(c, s) for p, c in a[1]})


def byte_tok(src, j):
    return ("byte", src, j)


def bytes_of(src, off, n):
    return ("arr", tuple(byte_tok(src, off + j) for j in range(n)))


def run_of_bytes(v, n):
    """(source, offset) when v is an array of n consecutive symbolic bytes of one source"""
    if v is None or v[0] != "arr" or len(v[1]) != n or n == 0:
        return None
    e = v[1]
    if e[0][0] != "byte":
        return None
    src, off = e[0][1], e[0][2]
    for j, x in enumerate(e):
        if x[0] != "byte" or x[1] != src or x[2] != off + j:
            return None
    return (src, off)


def describe(v):
    """canonical description of a hashed / absorbed input"""
    if v is None:
        return ("?",)
    if v[0] == "arr" and not v[1]:
        return ("lit", b"")
    if v[0] == "arr":
        r = run_of_bytes(v, len(v[1]))
        if r:
            return ("bytes", r[0], r[1], len(v[1]))
        if all(x[0] == "i" and x[1] == x[2] for x in v[1]):
            return ("lit", bytes(x[1] & 255 for x in v[1]))
        return ("?",)
    if v[0] in ("msg", "hd", "cbytes", "sbytes", "ctx"):
        return v
    if v[0] == "st" and len(v[1]) == 1:
        return describe(v[1][0])
    return ("?",)


def strip_turbofish(nm):
    """`path::f::<A, B>` -> `path::f`"""
    if not nm.endswith(">"):
        return nm
    depth = 0
    for i in range(len(nm) - 1, -1, -1):
        c = nm[i]
        if c == ">":
            depth += 1
        elif c == "<":
            depth -= 1
            if depth == 0:
                return nm[:i - 2] if nm[i - 2:i] == "::" else nm
    return nm


class BqModels(Models):
    def __init__(self):
        super().__init__()
        self.identity_tests = []      # combinations tested against the identity
        self.draws = []               # (draw index, bytes, transcript items at the time)
        self.msm_calls = 0
        self.notes = []
        self.fail_sc = set()          # scenario: the canonical-scalar decoding of these signatures fails
        self.fail_dec = set()         # scenario: the R of these signatures does not decode
        self.force_identity = None    # scenario: outcome of the identity test
        self.inconclusive = False     # a value the verdict depends on left the abstract domain
        self.eq_tests = []            # (a, b) of every comparison of compressed points
        self.small_order_tests = []   # arguments of is_small_order / is_weak
        self.force_eq = None          # scenario: outcome of compressed-point comparisons
        self.force_small = None       # scenario: outcome of small-order tests
        self.mont_muls = []           # (point value, scalar polynomial) of Montgomery-point multiplications
        self.sc_decodes = 0
        self.r_decodes = 0

    def basepoint_values(self, ip):
        if not hasattr(self, "_bp"):
            self._bp = []
            for p, cs in ip.F.const_by_path.items():
                if "value" in cs[0] and re.search(r"constants::ED25519_BASEPOINT_POINT$", p):
                    self._bp.append(ip.deconst(ip.from_json(cs[0]["value"], cs[0].get("ty", ""))))
        return self._bp

    def as_pl(self, ip, v):
        if v[0] == "pl":
            return v
        if v[0] == "st" and any(v == c for c in self.basepoint_values(ip)):
            return psym(("B",))
        return None

    @staticmethod
    def as_sp(v):
        if v[0] == "sp":
            return v
        # a Scalar built directly from 32 symbolic bytes (no reduction): the integer those bytes denote - a different symbol from the
        # canonical / reduced scalar sc(source) of the same bytes
        if v[0] == "st" and len(v[1]) == 1:
            r = run_of_bytes(v[1][0], 32)
            if r:
                return ssym(("int", r[0], r[1]))
        # a concrete Scalar constant { bytes: [u8; 32] }
        if v[0] == "st" and len(v[1]) == 1 and v[1][0][0] == "arr" and len(v[1][0][1]) == 32 and all(x[0] == "i" and x[1] == x[2] for x in v[1][0][1]):
            return sconst(sum((x[1] & 255) << (8 * j) for j, x in enumerate(v[1][0][1])))
        return None

    def drain(self, ip, st, it, limit=64):
        """the items an iterator value yields (as Option payload lists) or None when it is not enumerable"""
        it = ip.deconst(it)
        if it[0] == "arr":
            return list(it[1])          # a Vec / array passed by value
        if it[0] in ("ref", "sl"):
            v = ip.deref_val(st, it)
            if v[0] == "arr" and it[0] == "ref":
                return list(v[1])
        if it[0] != "it":
            it2 = self.as_it(ip, st, it)
            if it2 is None or it2 is NotImplemented or it2[0] != "it":
                return None
            it = it2
        out, cur = [], it
        for _ in range(limit):
            item, new = self.step(ip, st, cur)
            if item[0] != "en" or len(item[1]) != 1:
                return None
            if item[1][0][0] == 0:
                return out
            out.append(item[1][0][1][0])
            cur = new if new is not None else cur
        return None

    def call(self, ip, fv, st, depth, t, n, args, dty):
        r = self.domain_call(ip, fv, st, depth, t, n, args, dty)
        if r is not NotImplemented:
            return r
        return super().call(ip, fv, st, depth, t, n, args, dty)

    def fnp_model(self, ip, st, c, f, args):
        t = {"callee_full": c[1], "resolved": {"path": f["path"]}, "line": 0}
        return self.domain_call(ip, None, st, len(st.frames) - 1, t, f["path"], args, f["mir"]["locals"][0]["ty"])

    def domain_call(self, ip, fv, st, depth, t, n, args, dty):
        names = [strip_turbofish(x) for x in (n, t.get("callee_full") or "", (t.get("resolved") or {}).get("path") or "") if x]
        S = lambda rx: any(re.search(rx, nm) for nm in names)
        D = lambda i: ip.deconst(ip.deref_val(st, args[i])) if i < len(args) else TOP

        def DD(i):
            # a hashed input may arrive behind several references (`for part in parts { h.update(part) }` with parts: &[&[u8]])
            v = D(i)
            for _ in range(3):
                if v is not None and v[0] in ("ref", "sl", "cref"):
                    v = ip.deconst(ip.deref_val(st, v))
            return v
        if __import__("os").environ.get("BQ_TRACE"):
            print("  " * depth, "call", names[0][-90:], [str(D(i))[:80] for i in range(len(args))])

        def store(i, val):
            r = args[i]
            if r[0] not in ("ref", "sl"):
                return False
            cur = st.frames[r[1]].get(r[2], TOP)
            st.frames[r[1]][r[2]] = ip.write_path(cur, r[3], val)
            return True

        # ------------------------------------------------------------ the external signature type: 64 symbolic bytes
        if S(r"ed25519::Signature::(to_bytes|r_bytes|s_bytes)$") and args:
            s = D(0)
            if s[0] == "sig":
                which = re.search(r"(to_bytes|r_bytes|s_bytes)$", [x for x in names if re.search(r"(to_bytes|r_bytes|s_bytes)$", x)][0]).group(1)
                if which == "to_bytes":
                    return bytes_of(s, 0, 64)
                return ip.intern_const(st, bytes_of(s, 0 if which == "r_bytes" else 32, 32))
            return TOP
        # ------------------------------------------------------------ scalars
        if S(r"(^|::)Scalar::(from_canonical_bytes|from_bits|from_bytes_mod_order)$") and args:
            r = run_of_bytes(D(0), 32)
            which = "from_canonical_bytes" if S(r"from_canonical_bytes$") else ("from_bits" if S(r"from_bits$") else "from_bytes_mod_order")
            if not r:
                self.notes.append("%s on %s" % (which, str(D(0))[:300]))
            if r:
                v = ssym(("sc", r[0], r[1]))
                self.notes.append("%s(bytes %d.. of %s)" % (which, r[1], r[0][0]))
                self.sc_decodes += 1
                if which == "from_canonical_bytes":
                    if r[0][0] == "sig" and r[0][1] in self.fail_sc:
                        return ("ctopt", None)
                    return ("ctopt", v)
                return v
        if S(r"core::convert::(Into|From)<.*>>::(into|from)$") and args and D(0)[0] == "ctopt" and "Option<" in dty:
            if D(0)[1] is None:
                return ("en", ((0, ()),))
            return ("en", ((0, ()), (1, (D(0)[1],))))
        if S(r"(^|::)Scalar::(from_bytes_mod_order_wide|from_hash)$") and args:
            d = D(0)
            r64 = run_of_bytes(d, 64)
            if r64 and r64[0][0] == "hd" and r64[1] == 0:
                return ssym(("h", r64[0][1]))
            if d[0] == "hd":
                return ssym(("h",) + d[1:])
            if d[0] == "hs":
                return ssym(("h", d[1]))
        if S(r"Scalar as core::convert::From<u128>>::from$|core::convert::From<u128> for .*Scalar>::from$") and args:
            x = D(0)
            if x[0] == "z128":
                return ssym(("z", x[1]))
        m = None
        for nm in names:
            m = m or re.search(r"<&'?\w* ?curve25519_dalek::(?:scalar::)?Scalar as core::ops::(Mul|Add|Sub)<&'?\w* ?curve25519_dalek::(?:scalar::)?Scalar>>::(mul|add|sub)$", nm)
        if m and len(args) == 2:
            a, b = self.as_sp(D(0)), self.as_sp(D(1))
            if a is not None and b is not None:
                return smul(a, b) if m.group(1) == "Mul" else sadd(a, b, -1 if m.group(1) == "Sub" else 1)
            return TOP
        m = None
        for nm in names:
            m = m or re.search(r"<curve25519_dalek::(?:scalar::)?Scalar as core::ops::(Mul|Add|Sub)Assign<&'?\w* ?curve25519_dalek::(?:scalar::)?Scalar>>::(mul|add|sub)_assign$", nm)
        if m and len(args) == 2:
            a, b = self.as_sp(D(0)), self.as_sp(D(1))
            r = TOP
            if a is not None and b is not None:
                r = smul(a, b) if m.group(1) == "Mul" else sadd(a, b, -1 if m.group(1) == "Sub" else 1)
            store(0, r)
            return ("st", ())
        if S(r"<&'?\w* ?curve25519_dalek::(?:scalar::)?Scalar as core::ops::Neg>::neg$") and args:
            a = self.as_sp(D(0))
            return smul(a, sconst(-1)) if a is not None else TOP
        if S(r"core::iter::Iterator>::sum$") and args and re.search(r"Scalar$", dty):
            items = self.drain(ip, st, args[0])
            if items is None:
                self.notes.append("sum: iterator not enumerable")
                return TOP
            acc = sconst(0)
            for x in items:
                x0 = ip.deconst(ip.deref_val(st, x))
                x = self.as_sp(x0)
                if x is None:
                    self.notes.append("sum: item outside the domain: %s" % (str(x0)[:200],))
                    return TOP
                acc = sadd(acc, x)
            return acc
        if S(r"::clone$") and args and D(0)[0] in ("sp", "pl", "msg", "hd", "sig"):
            return D(0)
        # ------------------------------------------------------------ points
        if S(r"(^|::)CompressedEdwardsY::decompress$") and args:
            r = run_of_bytes(D(0)[1][0] if D(0)[0] == "st" and D(0)[1] else D(0), 32)
            if r:
                self.r_decodes += 1
                if r[0][0] == "sig" and r[0][1] in self.fail_dec:
                    return ("en", ((0, ()),))
                return ("en", ((0, ()), (1, (psym(("dec", r[0], r[1])),))))
            return ("en", ((0, ()), (1, (TOP,))))
        if S(r"traits::Identity>::identity$") and re.search(r"EdwardsPoint", " ".join(names) + dty):
            return PL({})
        if S(r"VartimeMultiscalarMul>::(optional_multiscalar_mul|vartime_multiscalar_mul)$|traits::MultiscalarMul>::multiscalar_mul$") and len(args) == 2:
            self.msm_calls += 1
            optional = S(r"optional_multiscalar_mul$")
            ss, ps = self.drain(ip, st, args[0]), self.drain(ip, st, args[1])
            if ss is None or ps is None:
                self.notes.append("multiscalar_mul: the scalar / point iterators could not be enumerated")
                self.inconclusive = True
                return ip.default_value(dty)
            if len(ss) != len(ps):
                self.notes.append("multiscalar_mul: %d scalars but %d points" % (len(ss), len(ps)))
                self.inconclusive = True
                return ip.default_value(dty)
            acc, may_none, all_some = PL({}), False, True
            for s, p in zip(ss, ps):
                s = self.as_sp(ip.deconst(ip.deref_val(st, s)))
                p = ip.deconst(ip.deref_val(st, p))
                if optional:
                    if p[0] != "en":
                        self.inconclusive = True
                        return ip.default_value(dty)
                    if any(v == 0 for v, _ in p[1]):
                        may_none = True
                    somes = [fs[0] for v, fs in p[1] if v == 1 and fs]
                    if not somes:
                        all_some = False
                        continue
                    p = somes[0]
                p = self.as_pl(ip, ip.deconst(p))
                if s is None or p is None:
                    self.notes.append("multiscalar_mul: an operand is outside the domain (scalar %s, point %s)" % (str(s)[:200], str(p)[:200]))
                    acc = None
                    self.inconclusive = True
                    break
                acc = padd(acc, pscale(p, s))
            if not optional:
                return acc if acc is not None else TOP
            outs = []
            if may_none:
                outs.append((0, ()))
            if all_some:
                outs.append((1, (acc if acc is not None else TOP,)))
            return ("en", tuple(outs))
        if S(r"traits::IsIdentity>::is_identity$") and args:
            self.identity_tests.append(self.as_pl(ip, D(0)) or D(0))
            return I(0, 1) if self.force_identity is None else I(self.force_identity)
        if S(r"subtle::ConstantTimeEq>::ct_eq$|core::cmp::PartialEq.*>::(eq|ne)$") and len(args) == 2:
            a, b = self.as_pl(ip, D(0)), self.as_pl(ip, D(1))
            if a is not None and b is not None:
                self.identity_tests.append(padd(a, b, -1))
                return ip.default_value(dty) if "Choice" in dty else I(0, 1)
        # ------------------------------------------------------------ single signatures: signing and verification equations
        if S(r"core::convert::Into<[\w:]*ExpandedSecretKey>>::into$") and len(args) == 1:
            # (&SecretKey).into(): the From impl is written for &[u8; SECRET_KEY_LENGTH] (a named length the generic Into model cannot match)
            cands = [g for g in ip.F.fns.values() if "mir" in g and re.search(r"impl core::convert::From<&\[u8; [\w:]+\]> for [\w:]*ExpandedSecretKey>::from$", g["path"])]
            if len(cands) == 1:
                return ip.call_local(cands[0], list(args), st, depth)

        if S(r"(^|::)clamp_integer$") and args:
            r = run_of_bytes(D(0), 32)
            if r:
                return bytes_of(("clamp", r[0], r[1]), 0, 32)
        if S(r"(^|::)EdwardsPoint::mul_base$") and args:
            a = self.as_sp(D(0))
            return pscale(psym(("B",)), a) if a is not None else TOP
        if any(re.search(r"<&'?\w* ?[\w:]*(MontgomeryPoint as core::ops::Mul<&'?\w* ?[\w:]*Scalar>|Scalar as core::ops::Mul<&'?\w* ?[\w:]*MontgomeryPoint>)>::mul$", nm) for nm in names) and len(args) == 2:
            x, y = D(0), D(1)
            sc_ = self.as_sp(x) if self.as_sp(x) is not None else self.as_sp(y)
            pt_ = y if self.as_sp(x) is not None else x
            self.mont_muls.append((pt_, sc_))
            return ("mpt", pt_, sc_)
        if S(r"(^|::)MontgomeryPoint::mul_base$") and args:
            self.mont_muls.append((("basepoint",), self.as_sp(D(0))))
            return ("mpt", ("basepoint",), self.as_sp(D(0)))
        if S(r"(^|::)MontgomeryPoint::(to_bytes|as_bytes)$") and args and D(0)[0] == "mpt":
            b = ("mbytes", D(0))
            return ip.intern_const(st, b) if re.match(r"^&", dty) else b
        if S(r"(^|::)EdwardsPoint::to_montgomery$") and args and self.as_pl(ip, D(0)) is not None:
            return ("mpt", ("to_montgomery", self.as_pl(ip, D(0))), sconst(1))
        if S(r"BasepointTable>::mul_base$|EdwardsBasepointTable\w*::mul_base$") and len(args) == 2:
            a = self.as_sp(D(1))
            return pscale(psym(("B",)), a) if a is not None else TOP
        if S(r"(^|::)EdwardsPoint::vartime_double_scalar_mul_basepoint$") and len(args) == 3:
            a, A_, b = self.as_sp(D(0)), self.as_pl(ip, D(1)), self.as_sp(D(2))
            if a is None or A_ is None or b is None:
                self.inconclusive = True
                return TOP
            return padd(pscale(A_, a), pscale(psym(("B",)), b))
        m = None
        for nm in names:
            m = m or re.search(r"<&'?\w* ?[\w:]*EdwardsPoint as core::ops::(Add|Sub)<&'?\w* ?[\w:]*EdwardsPoint>>::(add|sub)$", nm)
        if m and len(args) == 2:
            a, b = self.as_pl(ip, D(0)), self.as_pl(ip, D(1))
            if a is not None and b is not None:
                return padd(a, b, -1 if m.group(1) == "Sub" else 1)
            return TOP
        if any(re.search(r"<&'?\w* ?[\w:]*Scalar as core::ops::Mul<&'?\w* ?[\w:]*EdwardsPoint>>::mul$|<&'?\w* ?[\w:]*EdwardsPoint as core::ops::Mul<&'?\w* ?[\w:]*Scalar>>::mul$", nm) for nm in names) and len(args) == 2:
            x, y = D(0), D(1)
            sc_, pt_ = (self.as_sp(x), self.as_pl(ip, y)) if self.as_sp(x) is not None else (self.as_sp(y), self.as_pl(ip, x))
            if sc_ is not None and pt_ is not None:
                return pscale(pt_, sc_)
            return TOP
        if S(r"(^|::|<|&)[\w:]*EdwardsPoint as core::ops::Neg>::neg$") and args and self.as_pl(ip, D(0)) is not None:
            return pscale(self.as_pl(ip, D(0)), sconst(-1))
        if S(r"(^|::)EdwardsPoint::compress$") and args and self.as_pl(ip, D(0)) is not None:
            return ("st", (("cbytes", self.as_pl(ip, D(0))),))
        if S(r"[\w:]*CompressedEdwardsY as core::cmp::PartialEq>::(eq|ne)$|subtle::ConstantTimeEq for [\w:]*CompressedEdwardsY>::ct_eq$|CompressedEdwardsY as subtle::ConstantTimeEq>::ct_eq$") and len(args) == 2:
            def side(v):
                v = v[1][0] if v[0] == "st" and len(v[1]) == 1 else v
                return describe(v)
            self.eq_tests.append((side(D(0)), side(D(1))))
            out = I(0, 1) if self.force_eq is None else I(self.force_eq)
            if S(r"::ne$") and self.force_eq is not None:
                out = I(1 - self.force_eq)
            return ("st", (out,)) if "Choice" in dty else out
        if S(r"(^|::)EdwardsPoint::is_small_order$") and args:
            self.small_order_tests.append(self.as_pl(ip, D(0)) or D(0))
            return I(0, 1) if self.force_small is None else I(self.force_small)
        if S(r"(^|::)Scalar::(as_bytes|to_bytes)$") and args and D(0)[0] == "sp":
            b = ("sbytes", D(0))
            return ip.intern_const(st, b) if re.match(r"^&", dty) else b
        if S(r"ed25519::Signature::from_components$") and len(args) == 2:
            return ("sigv", describe(D(0)), describe(D(1)))
        # ------------------------------------------------------------ SHA-512
        if S(r"core::default::Default>::default$") and re.search(r"Sha512|CoreWrapper", dty):
            return ("hs", ())
        if S(r"Digest>::new$"):
            return ("hs", ())
        if S(r"(Digest|Update)>::(update|chain_update|chain)$") and len(args) == 2 and D(0)[0] == "hs":
            nv = ("hs", D(0)[1] + (describe(DD(1)),))
            if args[0][0] in ("ref", "sl"):
                store(0, nv)
                return ("st", ())
            return nv
        if S(r"Digest>::digest$") and len(args) == 1 and re.search(r"Sha512|CoreWrapper", " ".join(names) + " " + str(t.get("gargs") or "")):
            return ("hd", (describe(DD(0)),))          # one-shot form: new().chain_update(data).finalize()
        if S(r"(Digest|FixedOutput)>::(finalize|finalize_fixed)$") and args and D(0)[0] == "hs":
            return ("hd", D(0)[1])
        if S(r"core::convert::AsRef<\[u8; 64\]>>::as_ref$|generic_array::GenericArray.*(as_ref|as_slice|deref)$|core::convert::Into<\[u8; 64\]>>::into$|core::convert::From<.*GenericArray.*>::from$") and args and D(0)[0] == "hd":
            # the 64 output bytes of the digest, as symbolic bytes of the source ("hd", inputs)
            b = bytes_of(D(0), 0, 64)
            if re.match(r"^&", dty):
                return ip.unsize(st, ip.intern_const(st, b)) if re.match(r"^&('\w+ )?\[u8\]$", dty) else ip.intern_const(st, b)
            return b
        # ------------------------------------------------------------ merlin
        if S(r"merlin::(\w+::)?Transcript::new$") :
            return ("tr", (("new", describe(D(0))),))
        if S(r"merlin::(\w+::)?Transcript::(append_message|append_u64)$") and len(args) == 3 and D(0)[0] == "tr":
            store(0, ("tr", D(0)[1] + ((describe(D(1)), describe(D(2))),)))
            return ("st", ())
        if S(r"merlin::(\w+::)?Transcript::build_rng$") and args and D(0)[0] == "tr":
            return ("rngb", D(0)[1])
        if S(r"TranscriptRngBuilder::rekey_with_witness_bytes$") and args and D(0)[0] == "rngb":
            return ("rngb", D(0)[1] + (("witness", describe(D(2))),))
        if S(r"TranscriptRngBuilder::finalize$") and args and D(0)[0] == "rngb":
            return ("rng", D(0)[1], 0)
        if S(r"RngCore>::(fill_bytes|try_fill_bytes)$") and len(args) == 2 and D(0)[0] == "rng":
            g = D(0)
            ln = ip.length_of(st, args[1])
            if ln[0] == "i" and ln[1] == ln[2] and args[1][0] == "sl" and args[1][4] == args[1][5]:
                k = g[2]
                self.draws.append((k, ln[1], g[1]))
                cur = st.frames[args[1][1]].get(args[1][2], TOP)
                for j in range(ln[1]):
                    cur = ip.write_path(cur, args[1][3] + (("i", args[1][4] + j),), ("rbyte", k, j))
                st.frames[args[1][1]][args[1][2]] = cur
                store(0, ("rng", g[1], k + 1))
                return ip.default_value(dty) if "Result" in dty else ("st", ())
        if S(r"num::<impl u128>::from_le_bytes$|u128::from_le_bytes$") and args:
            a = D(0)
            if a[0] == "arr" and len(a[1]) == 16 and all(x[0] == "rbyte" and x[1] == a[1][0][1] and x[2] == j for j, x in enumerate(a[1])):
                return ("z128", a[1][0][1])
        return NotImplemented


class BqInterp(Interp):
    def read_path(self, v, path, ty_hint=None):
        # MontgomeryPoint is a newtype around its 32 bytes: field 0 of a symbolic Montgomery point is its encoding (what to_bytes() returns)
        if v is not None and v[0] == "mpt" and path and path[0] == ("f", 0):
            return super().read_path(("mbytes", v), path[1:], ty_hint)
        return super().read_path(v, path, ty_hint)


def batch_inputs(F, n):
    """(messages, signatures, verifying_keys) for a batch of n symbolic entries"""
    vk = F.adt_of("ed25519_dalek::verifying::VerifyingKey") if hasattr(F, "adt_of") else None
    msgs = ("arr", tuple(("msg", i) for i in range(n)))
    sigs = ("arr", tuple(("sig", i) for i in range(n)))
    keys = []
    for i in range(n):
        comp = ("st", (bytes_of(("vk", i), 0, 32),))
        point = psym(("A", i))
        keys.append((comp, point))
    return msgs, sigs, keys


def run(F, f, n, key_fields, lens=None, fail_sc=(), fail_dec=(), force_identity=None):
    """key_fields: names of VerifyingKey's fields in declaration order; lens: (messages, signatures, keys) lengths when they differ"""
    ip = BqInterp(F, BqModels(), step_budget=6_000_000)
    ip.exact_small_vecs = True
    ip.exact_vec_limit = 16
    ip.models.fail_sc, ip.models.fail_dec, ip.models.force_identity = set(fail_sc), set(fail_dec), force_identity
    nm_, ns_, nk_ = lens or (n, n, n)
    msgs, sigs, keys = batch_inputs(F, max(nm_, ns_, nk_))
    kv = []
    for comp, point in keys:
        kv.append(("st", tuple(comp if nm == "compressed" else (point if nm == "point" else TOP) for nm in key_fields)))
    ret, root = ip.run_root(f, [("arr", msgs[1][:nm_]), ("arr", sigs[1][:ns_]), ("arr", tuple(kv[:nk_]))])
    return ret, ip


def variants(ret):
    """set of Result variants (0 = Ok, 1 = Err) an abstract return value can take; None when unknown"""
    if ret is None or ret[0] != "en":
        return None
    return {v for v, _ in ret[1]}


def binding(n, ip):
    """every random coefficient is drawn (16 bytes) from an RNG whose transcript has absorbed every h_i digest and every S half"""
    dr = ip.models.draws
    if len(dr) < n:
        return False, "%d random draws for %d entries" % (len(dr), n)
    for k, nbytes, tr in dr:
        if nbytes != 16:
            return False, "draw %d takes %d bytes, not 16" % (k, nbytes)
        absorbed = {x[1] for x in tr if isinstance(x, tuple) and len(x) == 2}
        for i in range(n):
            hd = ("hd", (("bytes", ("sig", i), 0, 32), ("bytes", ("vk", i), 0, 32), ("msg", i)))
            if hd not in absorbed and ("bytes", hd, 0, 64) not in absorbed:
                return False, "the RNG that yields z%d was built from a transcript that has not absorbed H(R_%d, A_%d, m_%d)" % (k, i, i, i)
            if ("bytes", ("sig", i), 32, 32) not in absorbed:
                return False, "the RNG that yields z%d was built from a transcript that has not absorbed the S half of signature %d" % (k, i)
    return True, "%d draws of 16 bytes, each from the transcript after all %d digests H(R_i, A_i, m_i) and all %d S halves" % (len(dr), n, n)


def expected(n, tests):
    """check one tested combination against  sum z_i R_i + sum z_i h_i A_i - (sum z_i s_i) B  (up to a unit factor); returns (ok, why)"""
    if len(tests) != 1:
        return False, "%d combinations are tested against the identity (expected exactly 1)" % len(tests)
    t = tests[0]
    if t is None or t[0] != "pl":
        return False, "the value tested against the identity is not a combination of the batch's points in the abstract domain"
    d = {p: dict(c[1]) for p, c in t[1]}
    for sign in (1, -1):
        for unit in (1, 8):
            ok, why = match(n, d, sign * unit)
            if ok:
                return True, why
            if sign == 1 and unit == 1:
                first = why
    return False, first


def match(n, d, u):
    zs = []
    exp = {}
    for i in range(n):
        R = ("dec", ("sig", i), 0)
        c = d.get(R)
        if c is None:
            return False, "R_%d (the decompressed bytes 0..32 of signature %d) does not occur" % (i, i)
        if len(c) != 1:
            return False, "the coefficient of R_%d is not a single random coefficient" % i
        (mono, k), = c.items()
        if k != u or len(mono) != 1 or mono[0][0] != "z":
            return False, "the coefficient of R_%d is %s, not a single random coefficient z" % (i, show_sp(c))
        zs.append(mono[0])
    if len(set(zs)) != len(zs):
        return False, "two entries share one random coefficient"
    hs = lambda i: ("h", (("bytes", ("sig", i), 0, 32), ("bytes", ("vk", i), 0, 32), ("msg", i)))
    for i in range(n):
        exp[("dec", ("sig", i), 0)] = {(zs[i],): u}
        exp[("A", i)] = {tuple(sorted((zs[i], hs(i)), key=repr)): u}
    b = {}
    for i in range(n):
        b[tuple(sorted((zs[i], ("sc", ("sig", i), 32)), key=repr))] = -u
    if b:
        exp[("B",)] = b
    for p in set(exp) | set(d):
        if exp.get(p, {}) != d.get(p, {}):
            return False, "the coefficient of %s is %s, expected %s" % (show_point(p), show_sp(d.get(p, {})), show_sp(exp.get(p, {})))
    return True, "sum z_i R_i + sum z_i h_i A_i - (sum z_i s_i) B over %d entries, h_i = H(R_i bytes, A_i bytes, m_i)%s" % (n, "" if abs(u) == 1 else " (times %d)" % u)


def show_point(p):
    if p[0] == "dec":
        return "decompress(%s %d bytes %d..)" % (p[1][0], p[1][1], p[2])
    return "%s%s" % (p[0], "".join("_%d" % x for x in p[1:]))


def show_sym(s):
    if s[0] == "z":
        return "z%d" % s[1]
    if s[0] == "sc" and s[1][0] == "clamp":
        return "(clamp(%s) mod l)" % show_in(("bytes", s[1][1], s[1][2], 32))
    if s[0] == "int":
        inner = ("clamp(%s)" % show_in(("bytes", s[1][1], s[1][2], 32))) if s[1][0] == "clamp" else show_in(("bytes", s[1], s[2], 32))
        return "int(%s)" % inner
    if s[0] == "sc":
        return "scalar(%s %s bytes %d..)" % (s[1][0], s[1][1] if len(s[1]) > 1 else "", s[2])
    if s[0] == "h":
        return "H(%s)" % ", ".join(show_in(x) for x in s[1])
    return repr(s)


def show_in(x):
    if x[0] == "bytes" and x[1][0] == "hd":
        return "H(%s)[%d..%d]" % (", ".join(show_in(y) for y in x[1][1]), x[2], x[2] + x[3])
    if x[0] == "bytes":
        return "%s %s[%d..%d]" % (x[1][0], x[1][1] if len(x[1]) > 1 else "", x[2], x[2] + x[3])
    if x[0] == "msg":
        return "msg %d" % x[1]
    if x[0] == "lit":
        return repr(x[1])
    if x[0] == "hd":
        return "H(%s)" % ", ".join(show_in(y) for y in x[1])
    if x[0] == "cbytes":
        return "compress(..)"
    return "?"


def show_sp(c):
    c = dict(c[1]) if isinstance(c, tuple) and c and c[0] == "sp" else c
    if not c:
        return "0"
    return " + ".join("%s%s" % ("" if k == 1 else "%d*" % k, "*".join(show_sym(s) for s in mono) or "1") for mono, k in list(c.items())[:4])
