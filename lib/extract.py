"""Fact extraction: run the mirfacts driver over a scratch copy of /repo, one cargo check per
configuration and MIR mode, cache the JSON facts under /verif/.cache/<tree-hash>/.

Nothing here executes repository code: `cargo check` type-checks and builds MIR only
(build scripts and proc macros of the build itself are run by cargo as in any build)."""
import fcntl, hashlib, json, os, shutil, subprocess, sys, tempfile, time
from concurrent.futures import ThreadPoolExecutor

VERIF = os.path.dirname(os.path.dirname(os.path.abspath(__file__)))
REPO = os.environ.get("VERIF_REPO", "/repo")
CACHE = os.environ.get("VERIF_CACHE") or os.path.join(VERIF, ".cache")
DRIVER = os.path.join(VERIF, "mirfacts", "target", "release", "mirfacts")

CURVE_FULL = ["serde", "group-bits", "digest", "rand_core"]
ED_FULL = ["batch", "digest", "hazmat", "pem", "pkcs8", "serde", "rand_core"]
X_FULL = ["getrandom", "reusable_secrets", "serde", "static_secrets"]


def _feat(curve, ed, x):
    return ",".join(["curve25519-dalek/" + f for f in curve] + ["ed25519-dalek/" + f for f in ed]
                    + ["x25519-dalek/" + f for f in x])


ALL3 = ["-p", "curve25519-dalek", "-p", "ed25519-dalek", "-p", "x25519-dalek"]

# key -> (cfg rustflags, cargo args)
CONFIGS = {
    "simd": ([], ALL3 + ["--features", _feat(CURVE_FULL, ED_FULL, X_FULL)]),
    "simd-legacy": ([], ALL3 + ["--features", _feat(CURVE_FULL + ["legacy_compatibility"],
                                                     ED_FULL + ["legacy_compatibility"], X_FULL)]),
    "serial64": (['--cfg', 'curve25519_dalek_backend="serial"'],
                 ALL3 + ["--features", _feat(CURVE_FULL, ED_FULL, X_FULL)]),
    "serial32": (['--cfg', 'curve25519_dalek_backend="serial"', '--cfg', 'curve25519_dalek_bits="32"'],
                 ALL3 + ["--features", _feat(CURVE_FULL, ED_FULL, X_FULL)]),
    "fiat64": (['--cfg', 'curve25519_dalek_backend="fiat"'],
               ALL3 + ["--features", _feat(CURVE_FULL, ED_FULL, X_FULL)]),
    "fiat32": (['--cfg', 'curve25519_dalek_backend="fiat"', '--cfg', 'curve25519_dalek_bits="32"'],
               ALL3 + ["--features", _feat(CURVE_FULL, ED_FULL, X_FULL)]),
    "ifma": (['--cfg', 'curve25519_dalek_backend="unstable_avx512"'],
             ALL3 + ["--features", _feat(CURVE_FULL, ED_FULL, X_FULL)]),
    # precomputed-tables off everywhere (ed25519 `fast` off, x25519 `precomputed-tables` off)
    "notables": ([], ALL3 + ["--no-default-features", "--features",
                             _feat(["alloc", "zeroize"] + CURVE_FULL,
                                   ["std", "zeroize"] + ED_FULL,
                                   ["alloc", "zeroize"] + X_FULL)]),
    "notables-serial64": (['--cfg', 'curve25519_dalek_backend="serial"'],
                          ALL3 + ["--no-default-features", "--features",
                                  _feat(["alloc", "zeroize"] + CURVE_FULL,
                                        ["std", "zeroize"] + ED_FULL,
                                        ["alloc", "zeroize"] + X_FULL)]),
    "noalloc": ([], ["-p", "curve25519-dalek", "--no-default-features"]),
}
MODES = {
    "release": ["-C", "debug-assertions=off", "-C", "overflow-checks=off"],
    "checked": ["-C", "debug-assertions=on", "-C", "overflow-checks=on"],
}
CRATES = ["curve25519_dalek", "ed25519_dalek", "x25519_dalek"]


def tree_hash():
    h = hashlib.sha256()
    for root, dirs, files in os.walk(REPO):
        dirs[:] = sorted(d for d in dirs if d not in (".git", "target"))
        for f in sorted(files):
            p = os.path.join(root, f)
            if os.path.islink(p) or not os.path.isfile(p):
                continue
            h.update(os.path.relpath(p, REPO).encode() + b"\0")
            with open(p, "rb") as fh:
                h.update(hashlib.sha256(fh.read()).digest())
    # the driver itself is part of the key
    try:
        with open(DRIVER, "rb") as fh:
            h.update(hashlib.sha256(fh.read()).digest())
    except OSError:
        pass
    return h.hexdigest()[:20]


def sysroot():
    return subprocess.check_output(["rustc", "+nightly", "--print", "sysroot"], text=True).strip()


def _run_one(scratch_src, workdir, key, mode, outdir, log):
    cfgflags, cargo_args = CONFIGS[key]
    tgt = os.path.join(workdir, "tgt-%s-%s" % (key, mode))
    tmpout = os.path.join(workdir, "out-%s-%s" % (key, mode))
    os.makedirs(tmpout, exist_ok=True)
    env = dict(os.environ)
    env.update({
        "LD_LIBRARY_PATH": sysroot() + "/lib" + (":" + env["LD_LIBRARY_PATH"] if env.get("LD_LIBRARY_PATH") else ""),
        "RUSTFLAGS": " ".join(["-Zmir-opt-level=0", "-Awarnings"] + MODES[mode] + cfgflags),
        "RUSTC_WORKSPACE_WRAPPER": DRIVER,
        "MIRFACTS_OUT": tmpout,
        "MIRFACTS_CFG": key + "/" + mode,
        "CARGO_TARGET_DIR": tgt,
        "CARGO_NET_OFFLINE": "true",
        "CARGO_TERM_COLOR": "never",
    })
    env.pop("RUSTC_WRAPPER", None)
    cmd = ["cargo", "+nightly", "check", "--offline", "-j", "6"] + cargo_args
    t0 = time.time()
    p = subprocess.run(cmd, cwd=scratch_src, env=env, stdout=subprocess.PIPE, stderr=subprocess.STDOUT, text=True)
    dt = time.time() - t0
    shutil.rmtree(tgt, ignore_errors=True)
    res = {"key": key, "mode": mode, "rc": p.returncode, "wall_s": round(dt, 1), "cmd": " ".join(cmd),
           "rustflags": env["RUSTFLAGS"]}
    if p.returncode != 0:
        res["output_tail"] = p.stdout[-4000:]
        log.append(res)
        return res
    os.makedirs(outdir, exist_ok=True)
    found = {}
    for f in os.listdir(tmpout):
        crate = f.rsplit("-", 1)[0]
        found.setdefault(crate, []).append(f)
    for crate, fs in found.items():
        # a crate can be compiled twice (e.g. lib + different feature sets) -- keep the largest
        fs.sort(key=lambda f: os.path.getsize(os.path.join(tmpout, f)))
        shutil.move(os.path.join(tmpout, fs[-1]), os.path.join(outdir, crate + ".json"))
    res["crates"] = sorted(found)
    with open(os.path.join(outdir, "_meta.json"), "w") as fh:
        json.dump(res, fh)
    log.append(res)
    return res


def ensure(wanted, verbose=True):
    """wanted: list of (cfgkey, mode). Returns {(cfgkey,mode): dir} ; raises on type-check failure."""
    os.makedirs(CACHE, exist_ok=True)
    if not os.path.exists(DRIVER):
        raise RuntimeError("mirfacts driver not built: run MANIFEST.setup_cmd (%s)" % DRIVER)
    lock = open(os.path.join(CACHE, "lock"), "w")
    fcntl.flock(lock, fcntl.LOCK_EX)
    try:
        th = tree_hash()
        gen = os.path.join(CACHE, th)
        # one generation only
        for d in os.listdir(CACHE):
            p = os.path.join(CACHE, d)
            if os.path.isdir(p) and d != th:
                shutil.rmtree(p, ignore_errors=True)
        os.makedirs(gen, exist_ok=True)
        missing = [(k, m) for (k, m) in wanted
                   if not os.path.exists(os.path.join(gen, "%s-%s" % (k, m), "_meta.json"))]
        log = []
        if missing:
            work = tempfile.mkdtemp(prefix="verif-extract-")
            try:
                src = os.path.join(work, "src")
                subprocess.check_call(["rsync", "-a", "--exclude", "target", "--exclude", ".git", REPO + "/", src + "/"])
                if verbose:
                    print("[extract] tree %s: extracting %s" % (th, " ".join("%s/%s" % x for x in missing)), flush=True)
                with ThreadPoolExecutor(max_workers=4) as ex:
                    futs = [ex.submit(_run_one, src, work, k, m, os.path.join(gen, "%s-%s" % (k, m)), log)
                            for (k, m) in missing]
                    for f in futs:
                        f.result()
            finally:
                shutil.rmtree(work, ignore_errors=True)
        failed = [r for r in log if r["rc"] != 0]
        if failed:
            with open(os.path.join(gen, "_failed.json"), "w") as fh:
                json.dump(failed, fh, indent=1)
        return {(k, m): os.path.join(gen, "%s-%s" % (k, m)) for (k, m) in wanted}, failed, th
    finally:
        fcntl.flock(lock, fcntl.LOCK_UN)
        lock.close()


if __name__ == "__main__":
    keys = sys.argv[1:] or ["simd/release"]
    w = [tuple(k.split("/")) for k in keys]
    dirs, failed, th = ensure(w)
    print(th)
    for k, d in dirs.items():
        print(k, d, os.listdir(d) if os.path.isdir(d) else "MISSING")
    for f in failed:
        print("FAILED", f["key"], f["mode"], f.get("output_tail", "")[-1500:])
