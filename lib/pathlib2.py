"""PATH engine: DOM (must-pass-through of a check's success edge), established-with-delegation,
ORDER (sequence of effectful calls along every path), FLAGUSE, NOCALL.  Built on mirlib."""
import re
from mirlib import view, cname, cpath, op_local, op_place, op_const, result_kind, FnView


class Guard:
    """A check K: a call site pattern + the flag value that means 'check passed' + optional
    constraints on the arguments of the call (data-dependence predicates)."""

    def __init__(self, name, callee_pat, want=1, arg_pred=None, via="dest", alt=()):
        """alt: further (callee pattern, passing flag value) forms of the same check, e.g. `a != b` with value 0 for `a == b` with value 1"""
        self.name = name
        self.rx = re.compile(callee_pat)
        self.want = want
        self.arg_pred = arg_pred   # f(fv, term) -> bool
        self.via = via
        self.alt = [(re.compile(p), w) for p, w in alt]

    def _forms(self):
        return [(self.rx, self.want)] + self.alt

    def sites(self, fv):
        out = []
        for bi, t in fv.calls:
            for rx, _ in self._forms():
                if rx.search(cname(t)) or rx.search(t.get("callee_full") or ""):
                    if self.arg_pred is None or self.arg_pred(fv, t):
                        out.append((bi, t))
                    break
        return out

    def edges(self, fv):
        es = []
        for bi, t in fv.calls:
            for rx, want in self._forms():
                if rx.search(cname(t)) or rx.search(t.get("callee_full") or ""):
                    if (self.arg_pred is None or self.arg_pred(fv, t)) and not t["dest"][1]:
                        es += fv.guard_edges(t["dest"][0], want)
                    break
        return es


def success_sites(fv):
    """Sites in fv where the return value may become a success value (Ok / Some / true).
    Returns list of dict(bb, kind='agg'|'const'|'deleg'|'other', term?)"""
    rk = result_kind(fv.f.get("output") or fv.locals[0]["ty"])
    out = []
    seen_locals = set()

    def from_local(l):
        if l in seen_locals:
            return
        seen_locals.add(l)
        for d in fv.defs.get(l, []):
            if d.proj:
                out.append({"bb": d.bb, "kind": "other", "why": "partial write to return value"})
                continue
            if d.kind == "call":
                if d.via_mutref:
                    continue
                t = d.term
                n = cname(t)
                if re.search(r"core::ops::FromResidual<.*>>::from_residual$", n):
                    continue  # error propagation
                if FnView.ADAPT_SAME.search(n) and t["args"] and op_local(t["args"][0]) is not None and not re.search(r"and_then|::map::<", n):
                    from_local(op_local(t["args"][0]))
                    continue
                out.append({"bb": d.bb, "kind": "deleg", "term": t})
            elif d.kind == "assign":
                rv = d.rv
                if rv[0] == "agg" and rv[1][0] == "adt":
                    adt, var = rv[1][1], rv[1][2]
                    if adt == "core::result::Result":
                        if var == 0:
                            out.append({"bb": d.bb, "kind": "agg", "ops": rv[2], "idx": d.idx})
                    elif adt == "core::option::Option":
                        if var == 1:
                            out.append({"bb": d.bb, "kind": "agg", "ops": rv[2], "idx": d.idx})
                    else:
                        out.append({"bb": d.bb, "kind": "agg", "ops": rv[2], "idx": d.idx, "adt": adt})
                elif rv[0] == "use" and rv[1][0] == "k":
                    v = rv[1][1].get("v")
                    if rk == "bool":
                        if v != 0:
                            out.append({"bb": d.bb, "kind": "const", "value": v})
                    else:
                        out.append({"bb": d.bb, "kind": "const", "value": v})
                elif rv[0] == "use" and op_place(rv[1]) is not None and not op_place(rv[1])[1]:
                    from_local(op_local(rv[1]))
                else:
                    out.append({"bb": d.bb, "kind": "other", "rv": rv, "idx": d.idx})
    from_local(0)
    return out


def lookup_callee(F, t):
    """MIR-carrying function record for a call terminator's resolved callee, if local to the analysed crates."""
    r = t.get("resolved")
    key = r["key"] if r else t.get("callee_key")
    f = F.fns.get(key)
    if f and "mir" in f:
        return f
    return None


def established(F, f, guards, memo=None, depth=0, trace=None):
    """True iff on every success exit of f, (at least) one of `guards` has passed:
    either a local guard edge dominates the site, or the site is a delegation to a function for
    which the same holds.  `guards` is a list: any of them suffices (alternatives)."""
    if memo is None:
        memo = {}
    key = f["key"]
    if key in memo:
        return memo[key]
    memo[key] = (False, "recursion")
    fv = view(F, f)
    edges = []
    for g in guards:
        edges += g.edges(fv)
    reach = fv.reach(removed_edges=[(a, b, lab) for a, b, lab in edges])
    res = (True, "")
    sites = success_sites(fv)
    if not sites:
        res = (True, "no success exit")
    for s in sites:
        if s["bb"] not in reach:
            continue
        if s["kind"] == "deleg":
            # the returned value *is* the checked call's result (through success-preserving adapters):
            # success of the value implies success of the check
            hit = False
            for gd in guards:
                if gd.want == 1 and any(t is s["term"] for _, t in gd.sites(fv)):
                    hit = True
            if hit:
                continue
        if s["kind"] == "deleg" and depth < 6:
            g = lookup_callee(F, s["term"])
            if g is not None:
                ok, why = established(F, g, guards, memo, depth + 1)
                if ok:
                    continue
                res = (False, "%s -> %s" % (f["path"], why))
                break
        res = (False, "%s: success exit at bb%d (line %s, %s) not dominated by %s" % (
            f["path"], s["bb"], fv.line_of(s["bb"], s.get("idx", -1)), s["kind"] if s["kind"] != "deleg" else "call " + cname(s["term"])[:80],
            " | ".join(g.name for g in guards)))
        break
    memo[key] = res
    return res


def dominated(fv, target_bbs, edges):
    """every path from entry to any of target_bbs traverses one of `edges`"""
    reach = fv.reach(removed_edges=[(a, b, lab) for a, b, lab in edges])
    return all(b not in reach for b in target_bbs)


# ---------------------------------------------------------------------------- ORDER

def paths(fv, limit=512):
    """All acyclic entry->return paths (lists of block indexes).  Returns None if the CFG of normal edges has a cycle
    reachable from entry or there are more than `limit` paths."""
    out = []
    stack = [(0, [0])]
    while stack:
        b, p = stack.pop()
        t = fv.blocks[b].get("t", {})
        if t.get("k") == "return":
            out.append(p)
            if len(out) > limit:
                return None
            continue
        for tb, _ in fv.succ(b):
            if tb in p:
                return None
            stack.append((tb, p + [tb]))
    return out


def call_sequence(fv, path, pat):
    rx = re.compile(pat)
    seq = []
    for b in path:
        t = fv.blocks[b].get("t", {})
        if t.get("k") == "call" and (rx.search(cname(t)) or rx.search(t.get("callee_full") or "")):
            seq.append((b, t))
    return seq


def describe_origin(fv, operand, arg_names=None):
    """Origin classes of the data reaching `operand`: set of strings like 'arg2', 'arg1.0', 'bytes:...', 'const:1', 'call:...'"""
    sl = fv.operand_slice(operand)
    out = set()
    for (a, p) in sl.args:
        out.add("arg%d%s" % (a, p.replace("*", "")))
    for k in sl.consts:
        v = k.get("v")
        if isinstance(v, dict) and "ref" in v:
            v = v["ref"]
        if isinstance(v, list) and all(isinstance(x, int) for x in v):
            out.add("bytes:" + bytes(x & 0xff for x in v).decode("latin-1"))
        elif isinstance(v, int):
            out.add("const:%d" % v)
        elif isinstance(v, str):
            out.add("str:" + v)
    for t in sl.calls:
        out.add("call:" + cpath(t))
    return out


# ---------------------------------------------------------------------------- NOCALL / reachability over the call graph

def reachable_fns(F, roots, stop=None, max_depth=40):
    """Call-graph closure (resolved callees with MIR) from root fn records. Returns {key: fn}."""
    seen = {}
    st = [(r, 0) for r in roots]
    while st:
        f, d = st.pop()
        if f["key"] in seen:
            continue
        seen[f["key"]] = f
        if d >= max_depth or "mir" not in f:
            continue
        if stop and stop(f):
            continue
        fv = view(F, f)
        for bi, t in fv.calls:
            g = lookup_callee(F, t)
            if g is not None and g["key"] not in seen:
                st.append((g, d + 1))
        # closures created in this fn
        for b in fv.blocks:
            for s in b["s"]:
                if s[0] == "=" and s[2][0] == "agg" and s[2][1][0] == "closure":
                    g = F.fns.get(s[2][1][1])
                    if g is not None and g["key"] not in seen:
                        st.append((g, d + 1))
    return seen


def all_callees(F, fns):
    """set of callee names (resolved full) called from any of fns"""
    out = []
    for f in fns:
        if "mir" not in f:
            continue
        fv = view(F, f)
        for bi, t in fv.calls:
            out.append((f, bi, t))
    return out


def expr_guard_edges(fv, atom_pred, want):
    """Edges of bool/Choice switches whose traversal forces an atom satisfying atom_pred to `want`."""
    import ex
    from mirlib import expr_of
    edges = []
    for bi, b in enumerate(fv.blocks):
        t = b.get("t")
        if not t or t["k"] != "switch" or t.get("discr_ty") not in ("bool", "u8"):
            continue
        e = expr_of(fv, t["discr"])
        listed = [v for v, _ in t["targets"]]
        for v, tb in t["targets"]:
            if v in (0, 1):
                imps = ex.implications(e, v != 0)
                if any(atom_pred(a) and val == want for a, val in imps):
                    edges.append((bi, tb, ("sw", v)))
        if listed == [0]:
            imps = ex.implications(e, True)
            if any(atom_pred(a) and val == want for a, val in imps):
                edges.append((bi, t["otherwise"], ("sw", "otherwise")))
    return edges


def dominates_block(fv, a, b):
    """every path from entry to block b passes through block a"""
    if a == b:
        return True
    return b not in fv.reach(removed_blocks=[a])
