"""LINCOMB: the abstract domain of formal linear combinations  sum_k c_k * d_k * P_k  (integer coefficient c_k, optional symbolic
digit d_k of a recoded scalar, symbolic point P_k) evaluated over the MIR of the constant-time scalar-multiplication routines and
the lookup-table constructors.  The interpreter is the generic one (lib/absint.py); the group operations get their algebraic transfer
function (add / sub of combinations, doubling = x2, mul_by_pow_2(k) = x2^k, coordinate conversions = identity), a recoding returns
an array of symbolic digits, and `select(x)` on a table whose entries were *computed* by the interpreter from the table's own
constructor returns d * (entry 0) after checking that the entries are the multiples select() assumes.  Loop counters stay concrete.
Nothing is executed: field arithmetic is never entered."""
import re
from absint import Interp, I, TOP, view
from absint_models import Models

POINT_TY = r"(edwards::EdwardsPoint|curve_models::(ProjectivePoint|CompletedPoint|ProjectiveNielsPoint|AffineNielsPoint)|vector::avx2::edwards::(ExtendedPoint|CachedPoint)|vector::ifma::edwards::(ExtendedPoint|CachedPoint))"


def lc(terms):
    return ("lc", tuple(sorted(((k, c) for k, c in terms.items() if c), key=repr)))


def sym(p):
    return lc({(p, None): 1})


def terms(v):
    return dict(v[1]) if v is not None and v[0] == "lc" else None


def ladd(a, b, sign=1):
    d = dict(a[1])
    for k, c in b[1]:
        d[k] = d.get(k, 0) + sign * c
    return lc(d)


def lscale(a, n):
    return lc({k: c * n for k, c in a[1]})


def lbind(a, tok):
    """multiply every (point, no digit) term by the symbolic digit tok = ('dig', id, index, sign)"""
    out = {}
    for (p, d), c in a[1]:
        if d is not None:
            return None
        out[(p, (tok[1], tok[2]))] = c * tok[3]
    return lc(out)


def lind(a, digkey, value):
    """multiply every (point, no digit) term by the indicator [digit == value] of the symbolic digit digkey = (scalar id, position)"""
    out = {}
    for (p, d), c in a[1]:
        if d is not None:
            return None
        out[(p, ("ind", digkey[0], digkey[1], value))] = c
    return lc(out)


class LcModels(Models):
    def __init__(self):
        super().__init__()
        self.group_ops = 0
        self.table_checks = []      # (ok, description)

    def known_constants(self, ip):
        """abstract values of the repository's basepoint constants (their numerical correctness is C12's): value -> symbolic meaning"""
        if not hasattr(self, "_kc"):
            self._kc = {"points": [], "naf_tables": []}
            for p, cs in ip.F.const_by_path.items():
                if "value" not in cs[0]:
                    continue
                if re.search(r"constants::ED25519_BASEPOINT_POINT$", p):
                    self._kc["points"].append(ip.deconst(ip.from_json(cs[0]["value"], cs[0].get("ty", ""))))
                if re.search(r"constants::(AFFINE_ODD_MULTIPLES_OF_BASEPOINT|BASEPOINT_ODD_LOOKUP_TABLE)$", p):
                    self._kc["naf_tables"].append((p.split("::")[-1], ip.deconst(ip.from_json(cs[0]["value"], cs[0].get("ty", "")))))
        return self._kc

    def as_lc(self, ip, v):
        if v[0] == "lc":
            return v
        if v[0] == "st" and any(v == c for c in self.known_constants(ip)["points"]):
            self.used_basepoint_constant = True
            return sym("B")
        return v

    def call(self, ip, fv, st, depth, t, n, args, dty):
        names = (n, t.get("callee_full") or "", (t.get("resolved") or {}).get("path") or "")
        full = " | ".join(names)
        S = lambda rx: any(re.search(rx, nm) for nm in names if nm)
        A = lambda i: self.as_lc(ip, ip.deconst(ip.deref_val(st, args[i]))) if i < len(args) else TOP
        if S(r"traits::Identity>::identity$") and re.search(POINT_TY, full + dty):
            return lc({})
        if S(r"core::ops::(Add|Sub)<.*>>::(add|sub)$|impl core::ops::(Add|Sub)<.*> for .*>::(add|sub)$") and re.search(POINT_TY, full):
            a, b = A(0), A(1)
            if a[0] == "lc" and b[0] == "lc":
                self.group_ops += 1
                return ladd(a, b, -1 if re.search(r"::sub$", n) else 1)
            if a[0] == "lcsel" and b[0] == "lc":
                # buckets[|d| - 1] +- P with a symbolic digit d: "the selected bucket plus delta"
                self.group_ops += 1
                return ("lcupd", a[1], lscale(b, -1) if re.search(r"::sub$", n) else b)
            return TOP
        if S(r"core::ops::(AddAssign|SubAssign)<.*>>::(add|sub)_assign$") and re.search(POINT_TY, full) and args and args[0][0] == "ref":
            a, b = A(0), A(1)
            if a[0] == "lc" and b[0] == "lc":
                self.group_ops += 1
                r = ladd(a, b, -1 if "sub_assign" in n else 1)
                cur = st.frames[args[0][1]].get(args[0][2], TOP)
                st.frames[args[0][1]][args[0][2]] = ip.write_path(cur, args[0][3], r)
                return ("st", ())
            return TOP
        if S(r"core::ops::Neg>::neg$") and re.search(POINT_TY, full):
            a = A(0)
            return lscale(a, -1) if a[0] == "lc" else TOP
        if (S(POINT_TY + r"::double$") or S(r"::double::\w+>::_impl_double$")) and A(0)[0] == "lc":
            a = A(0)
            if a[0] == "lc":
                self.group_ops += 1
                return lscale(a, 2)
        if re.search(r"::mul_by_pow_2(::\w+>::_impl_mul_by_pow_2)?$", n) and A(0)[0] == "lc":
            k = ip.deconst(args[1])
            if k[0] == "i" and k[1] == k[2] and 0 <= k[1] < 64:
                self.group_ops += 1
                return lscale(A(0), 2 ** k[1])
            return TOP
        if re.search(r"::(as_extended|as_projective|as_projective_niels|as_affine_niels|to_extended|to_projective)(::\w+>::_impl_\w+)?$", n) and A(0)[0] in ("lc", "lcupd", "lcsel"):
            return A(0)
        if S(r"core::convert::(From|Into)<.*>>::(from|into)$|impl core::convert::From<.*> for .*>::from$") and args and A(0)[0] in ("lc", "lcupd", "lcsel") \
                and re.search(POINT_TY + r"$", dty) and "LookupTable" not in dty:
            return A(0)
        if re.search(r"::clone$", n) and args and A(0)[0] in ("lc", "dig"):
            return A(0)
        # comparison of a symbolic digit with 0: generic non-zero digit, either sign
        if S(r"core::cmp::Ord.*::cmp$|cmp::impls::<impl core::cmp::Ord for i\d+>::cmp$") and len(args) == 2:
            x, y = ip.deconst(A(0)), ip.deconst(A(1))
            if x[0] == "dig" and y[0] == "i" and y[1] == y[2] == 0:
                fs = getattr(self, "digit_sign", None)       # scenario: every symbolic digit is positive / negative
                return ("ord", (-1, 1)) if fs is None else ("ord", (fs * x[3],))
        # bucket indexing by a symbolic digit (Pippenger): buckets[(|d| - 1) as usize]
        if S(r"alloc::vec::Vec<.*> as core::ops::Index(Mut)?<usize>>::index(_mut)?$|core::ops::Index(Mut)?<usize>.*::index(_mut)?$") and len(args) == 2:
            ix = ip.deconst(args[1])
            if ix[0] == "bidx" and args[0][0] == "ref":
                return ("ref", args[0][1], args[0][2], args[0][3] + (("isym", ix[1], ix[2]),))
        # recodings: symbolic digits
        m = re.search(r"scalar::Scalar::(as_radix_16|as_radix_2w|non_adjacent_form)$", n)
        if m and args:
            s = A(0)
            sid = s[1] if s[0] == "scal" else "s"
            N = 256 if m.group(1) == "non_adjacent_form" else 64
            w = None
            if len(args) > 1:
                wv = ip.deconst(args[1])
                w = wv[1] if wv[0] == "i" and wv[1] == wv[2] else None
            self.recodings = getattr(self, "recodings", []) + [(m.group(1), w, sid)]
            if getattr(self, "zero_digits", False):
                return ("arr", (I(0),) * N)         # scenario: every scalar is zero (all the work-skipping paths at once)
            return ("arr", tuple(("dig", (sid, m.group(1), w), i, 1) for i in range(N)))
        # table lookups
        if S(r"window::(Naf)?LookupTable\w*(::)?<.*>::select$|window::(Naf)?LookupTable\w*::<T>::select$") and len(args) >= 2:
            tbl, x = A(0), ip.deconst(args[1])
            naf = "NafLookupTable" in full
            ents = tbl[1][0][1] if tbl[0] == "st" and tbl[1] and tbl[1][0][0] == "arr" else None
            if ents is None or any(e[0] != "lc" for e in ents):
                # a precomputed constant table: its entries are decided by C12 (odd / consecutive multiples of the basepoint)
                mm = None
                for nm, cv in self.known_constants(ip)["naf_tables"]:
                    if cv == tbl:
                        mm = re.match(r"(.*)", nm)
                if mm and naf:
                    self.table_checks.append((True, "constant table %s (entries decided by C12)" % mm.group(1)))
                    if x[0] == "dig":
                        return lbind(sym("B"), x) or TOP
                    if x[0] == "i" and x[1] == x[2]:
                        return lscale(sym("B"), x[1])
                    return TOP
                self.table_checks.append((False, "select() on a table whose entries are not known combinations"))
                return TOP
            e0 = ents[0]
            ok = all(e == lscale(e0, (2 * j + 1) if naf else (j + 1)) for j, e in enumerate(ents))
            self.table_checks.append((ok, "%d entries are the %s multiples of entry 0" % (len(ents), "odd" if naf else "consecutive")))
            if not ok:
                return TOP
            if x[0] == "dig":
                return lbind(e0, x) or TOP
            if x[0] == "i" and x[1] == x[2]:
                return lscale(e0, x[1])
            return TOP
        return super().call(ip, fv, st, depth, t, n, args, dty)


class LcInterp(Interp):
    """symbolic digits are generic non-zero values: the routine must compute the combination for them; a zero digit only ever skips work"""

    def cast(self, v, kind, ty):
        if v[0] in ("dig", "bidx"):
            return v
        return super().cast(v, kind, ty)

    def read_path(self, cur, path, ty_hint=None):
        for k, e in enumerate(path):
            if isinstance(e, tuple) and e and e[0] == "isym":
                return ("lcsel", (e[1], e[2]))
        return super().read_path(cur, path, ty_hint)

    def write_path(self, cur, path, val, weak=False):
        if not any(isinstance(e, tuple) and e and e[0] == "isym" for e in path):
            return super().write_path(cur, path, val, weak)
        for k, e in enumerate(path):
            if isinstance(e, tuple) and e and e[0] == "isym":
                if k != len(path) - 1:
                    return super().write_path(cur, path[:k], TOP)
                arr = super().read_path(cur, path[:k])
                key = (e[1], e[2])
                if arr[0] != "arr" or val[0] != "lcupd" or val[1] != key or any(x[0] != "lc" for x in arr[1]):
                    self.sym_write_failures = getattr(self, "sym_write_failures", []) + ["%s <- %s" % (str(arr)[:80], str(val)[:120])]
                    return super().write_path(cur, path[:k], TOP)
                digkey, sign = key
                new = []
                for b, old in enumerate(arr[1]):
                    t = lind(val[2], digkey, sign * (b + 1))
                    if t is None:
                        return super().write_path(cur, path[:k], TOP)
                    new.append(ladd(old, t))
                return super().write_path(cur, path[:k], ("arr", tuple(new)))
        return super().write_path(cur, path, val, weak)

    def binop(self, op, a, b, ty, fv=None, line=0):
        base = op.replace("Unchecked", "")
        if base in ("Eq", "Ne"):
            for x, y in ((a, b), (b, a)):
                if x[0] == "dig" and y[0] == "i" and y[1] == y[2] == 0:
                    return I(1 if base == "Ne" else 0)
        if base in ("Gt", "Lt", "Ge", "Le"):
            # sign tests of a symbolic (generic non-zero) digit: decided by the scenario's digit sign, both outcomes otherwise
            for x, y, flip in ((a, b, False), (b, a, True)):
                if x[0] == "dig" and y[0] == "i" and y[1] == y[2] == 0:
                    fs = getattr(self.models, "digit_sign", None)
                    if fs is None:
                        return I(0, 1)
                    positive = fs * x[3] > 0
                    gt = base in ("Gt", "Ge")
                    if flip:
                        gt = not gt
                    return I(1 if positive == gt else 0)
        if base == "Sub" and a[0] == "dig" and b[0] == "i" and b[1] == b[2] == 1:
            # (d - 1) resp. (-d - 1): the bucket index of a positive / negative symbolic digit; a[3] = +1 for d, -1 for -d
            return ("bidx", (a[1], a[2]), a[3])
        return super().binop(op, a, b, ty, fv, line)


def run(F, f, values, vec_limit=8, digit_sign=None, zero_digits=False):
    ip = LcInterp(F, LcModels(), step_budget=40_000_000)
    ip.models.digit_sign = digit_sign
    ip.models.zero_digits = zero_digits
    ip.exact_small_vecs = True
    ip.exact_vec_limit = vec_limit
    ret, root = ip.run_root(f, values)
    return ret, ip
