"""LADDER: the Montgomery ladder in the abstract domain of *integer-polynomial multiples of the base point*: a projective point is
n * P with n a multilinear polynomial (b^2 = b) over the symbolic scalar bits.  Transfer functions (the documented contract of the two
primitives, their field arithmetic is never entered):
    conditional_swap(x0, x1, c):          x0 <- x0 + c (x1 - x0),  x1 <- x1 - c (x1 - x0)
    differential_add_and_double(P, Q, u): requires Q - P = +-1 * base;  P <- 2 P,  Q <- P + Q
    a ^ b on bits:                        a + b - 2ab
The loop over the bits is followed with concrete control flow.  Decided: the result is (sum_j 2^j b_j) * P for the bits consumed."""
import re
from absint import Interp, I, TOP, view
from absint_models import Models


def P_(d):
    return ("mp", tuple(sorted(((k, c) for k, c in d.items() if c), key=repr)))


def const(n):
    return P_({(): n})


def bit(i):
    return P_({(i,): 1})


def padd(a, b, s=1):
    d = dict(a[1])
    for k, c in b[1]:
        d[k] = d.get(k, 0) + s * c
    return P_(d)


def pmul(a, b):
    d = {}
    for k1, c1 in a[1]:
        for k2, c2 in b[1]:
            k = tuple(sorted(set(k1) | set(k2)))      # b^2 = b
            d[k] = d.get(k, 0) + c1 * c2
    if len(d) > 4000:
        raise OverflowError("polynomial too large")
    return P_(d)


def pxor(a, b):
    return padd(padd(a, b), pmul(pmul(const(2), a), b), -1)


def as_poly(v):
    if v is None:
        return None
    if v[0] == "mp":
        return v
    if v[0] == "i" and v[1] == v[2]:
        return const(v[1])
    if v[0] == "st" and len(v[1]) == 1:
        return as_poly(v[1][0])         # Choice(u8)
    return None


class LadderInterp(Interp):
    def binop(self, op, a, b, ty, fv=None, line=0):
        base = op.replace("Unchecked", "")
        if (a[0] == "mp" or b[0] == "mp") and base in ("BitXor", "BitAnd", "BitOr", "Eq", "Ne"):
            x, y = as_poly(a), as_poly(b)
            if x is not None and y is not None:
                if base == "BitXor":
                    return pxor(x, y)
                if base == "BitAnd":
                    return pmul(x, y)
                if base == "BitOr":
                    return padd(padd(x, y), pmul(x, y), -1)
            if base in ("Eq", "Ne") and x is not None and y is not None and pmul(x, x) == x and pmul(y, y) == y:
                # on 0/1-valued polynomials  a != b  is  a xor b
                return pxor(x, y) if base == "Ne" else padd(const(1), pxor(x, y), -1)
            if base in ("Eq", "Ne"):
                return I(0, 1)
        return super().binop(op, a, b, ty, fv, line)

    def cast(self, v, kind, ty):
        if v[0] == "mp":
            return v
        return super().cast(v, kind, ty)


class LadderModels(Models):
    def __init__(self):
        super().__init__()
        self.steps = 0
        self.bad = []

    def point(self, ip, st, v):
        """polynomial multiple of the base point denoted by a montgomery::ProjectivePoint value"""
        v = ip.deconst(v)
        if v[0] == "mp":
            return v
        if v[0] == "st" and len(v[1]) == 2:
            u, w = v[1]
            if u[0] == "fe_base" and self.is_const(w, 1):
                return const(1)
            if self.is_const(u, 1) and self.is_const(w, 0):
                return const(0)
        return None

    @staticmethod
    def is_const(fe, n):
        # a field-element constant ONE / ZERO in either limb representation
        try:
            while fe[0] == "st" and len(fe[1]) == 1 and fe[1][0][0] == "st":
                fe = fe[1][0]           # fiat: FieldElement51(fiat_25519_tight_field_element([u64; 5]))
            limbs = fe[1][0][1]
            return limbs[0][1] == limbs[0][2] == n and all(x[1] == x[2] == 0 for x in limbs[1:])
        except (IndexError, TypeError):
            return False

    def call(self, ip, fv, st, depth, t, n, args, dty):
        names = [x for x in (n, t.get("callee_full") or "", (t.get("resolved") or {}).get("path") or "") if x]
        S = lambda rx: any(re.search(rx, nm) for nm in names)
        A = lambda i: ip.deconst(ip.deref_val(st, args[i]))

        def store(i, val):
            r = args[i]
            cur = st.frames[r[1]].get(r[2], TOP)
            st.frames[r[1]][r[2]] = ip.write_path(cur, r[3], val)
        if S(r"field::FieldElement\w+::from_bytes$") and args and getattr(ip, "base_bytes_ref", None) is not None:
            # the u-coordinate of the point being multiplied
            return ("fe_base",)
        if S(r"montgomery::ProjectivePoint as subtle::ConditionallySelectable>::conditional_swap$") and len(args) == 3:
            p0, p1, c = self.point(ip, st, A(0)), self.point(ip, st, A(1)), as_poly(A(2))
            if p0 is None or p1 is None or c is None:
                self.bad.append("conditional_swap on values outside the domain")
                store(0, TOP), store(1, TOP)
                return ("st", ())
            d = pmul(c, padd(p1, p0, -1))
            store(0, padd(p0, d))
            store(1, padd(p1, d, -1))
            return ("st", ())
        if S(r"montgomery::differential_add_and_double$") and len(args) == 3:
            p, q = self.point(ip, st, A(0)), self.point(ip, st, A(1))
            diff_is_base = A(2)[0] == "fe_base"
            if p is None or q is None or not diff_is_base:
                self.bad.append("differential_add_and_double on values outside the domain")
                store(0, TOP), store(1, TOP)
                return ("st", ())
            d = padd(q, p, -1)
            sq = pmul(d, d)
            if sq != const(1):
                self.bad.append("differential_add_and_double is called with Q - P = (%s) * base, not +-1 * base" % show_poly(d))
            self.steps += 1
            if re.match(r"^\(.*ProjectivePoint, .*ProjectivePoint\)$", dty or ""):
                # the functional form of the step: the inputs are left untouched and (2P, P+Q) is returned
                return ("st", (pmul(const(2), p), padd(p, q)))
            store(0, pmul(const(2), p))
            store(1, padd(p, q))
            return ("st", ())
        if S(r"montgomery::ProjectivePoint::as_affine$") and args:
            p = self.point(ip, st, A(0))
            return p if p is not None else TOP
        if S(r"subtle::Choice as core::convert::From<u8>>::from$|core::convert::Into<subtle::Choice>>::into$") and args and A(0)[0] == "mp":
            return A(0)
        if S(r"scalar::Scalar::bits_le$"):
            return ("it", "vals", ("arr", tuple(bit(j) for j in range(256))), I(0), I(256))
        if S(r"zeroize::Zeroize>::zeroize$"):
            return ("st", ())
        return super().call(ip, fv, st, depth, t, n, args, dty)


def show_poly(p):
    return " + ".join("%d%s" % (c, "".join("*b%d" % i for i in k)) for k, c in p[1][:6]) or "0"


def run(F, f, values):
    ip = LadderInterp(F, LadderModels(), step_budget=8_000_000)
    ip.base_bytes_ref = True
    ret, root = ip.run_root(f, values)
    return ret, ip
