"""Structural proof of `index < len` for the one relational idiom an interval domain cannot see:

    let n = xs.len();              // xs: a slice parameter (its length never changes)
    let mut v = vec![e; n];        // optional: a vector created with that length and never resized
    for i in 0..n { ... xs[i] ... v[i] ... }        // forward or `.rev()`

The index is an item of a `Range<usize>` (possibly reversed) whose end is n, so i < n; the indexed container has length exactly n.  Everything is
read off the MIR def-use chains of the function (single-definition temporaries, no data-flow through memory); any deviation gives no proof and the
interval verdict stands.  Used only as a fallback when the interval domain cannot exclude the failure."""
import re
from mirlib import view, cname

RESIZING = re.compile(r"::(push|pop|truncate|clear|resize|resize_with|extend|extend_from_slice|insert|remove|swap_remove|drain|append|set_len|retain|retain_mut|dedup\w*|split_off|"
                      r"shrink_to\w*|reserve\w*|zeroize|into_boxed_slice|splice)(::<.*>)?$")
LEN_CALL = re.compile(r"core::slice::<impl \[.*\]>::len$|alloc::vec::Vec<.*>::len$|::len$")


def _place_of(o):
    return o[1] if o[0] in ("c", "m") else None


ADVANCE = re.compile(r"Iterator.*::(next|next_back)$")


def trace(fv, pl, depth=24, advancing=False):
    """follow single-definition temporaries through copies, (re)borrows, raw-pointer casts and derefs.
    Returns ('param', l) | ('local', l, def) | ('multi', l) ; None when a projection other than deref is met"""
    l, proj = pl
    while depth > 0:
        depth -= 1
        if any(e != "*" for e in proj):
            return None
        ds = [d for d in fv.defs.get(l, [])]
        if advancing:
            # an iterator variable is also "defined" by every next() / next_back() that advances it through &mut: those never enlarge a Range
            ds = [d for d in ds if not (d.via_mutref and d.kind == "call" and ADVANCE.search(cname(d.term)))]
        if 1 <= l <= fv.nargs and not [d for d in ds if not d.via_mutref]:
            # a parameter that is never assigned; calls that receive `&mut *param` (or an element of it) write through it, they do not rebind it,
            # and a slice's length cannot change through a `&mut [T]`
            return ("param", l)
        if len(ds) != 1 or ds[0].proj or ds[0].via_mutref:
            return ("multi", l)
        d = ds[0]
        if d.kind != "assign":
            return ("local", l, d)
        rv = d.rv
        nxt = None
        if rv[0] == "use" and rv[1][0] in ("c", "m"):
            nxt = rv[1][1]
        elif rv[0] in ("ref", "rawptr"):
            nxt = rv[2]
        elif rv[0] == "cast" and rv[2][0] in ("c", "m"):
            nxt = rv[2][1]
        if nxt is None:
            return ("local", l, d)
        l, proj = nxt[0], nxt[1]
    return None


def _same(a, b):
    return a is not None and b is not None and a[0] == b[0] and a[1] == b[1] and a[0] in ("param", "local", "multi")


def upper_bound_local(fv, idx_operand):
    """the base of the value n such that the index is provably < n: the index is the payload of next()/next_back() on a Range<usize> (possibly
    behind rev()) whose `end` traces to that value.  Returns the trace of `end` or None"""
    pl = _place_of(idx_operand)
    if pl is None:
        return None
    l, proj = pl
    # copies down to `((_opt as Some).0)`
    for _ in range(12):
        if proj:
            break
        ds = fv.defs.get(l, [])
        if len(ds) != 1 or ds[0].kind != "assign" or ds[0].proj or ds[0].rv[0] != "use" or ds[0].rv[1][0] not in ("c", "m"):
            return None
        l, proj = ds[0].rv[1][1]
    if not (len(proj) == 2 and isinstance(proj[0], list) and proj[0][0] == "dc" and proj[0][1] == 1 and isinstance(proj[1], list) and proj[1][0] == "f" and proj[1][1] == 0):
        return None
    ds = fv.defs.get(l, [])
    if len(ds) != 1 or ds[0].kind != "call" or not ADVANCE.search(cname(ds[0].term)):
        return None
    it = _place_of(ds[0].term["args"][0])
    if it is None:
        return None
    cur = trace(fv, it, advancing=True)
    # the iterator variable: `iter = into_iter(X)`, X = Range {..} | rev(Range {..})
    for _ in range(6):
        if cur is None or cur[0] != "local":
            return None
        d = cur[2]
        if d.kind == "call" and re.search(r"IntoIterator.*::into_iter$|Iterator.*::(rev|by_ref)$", cname(d.term)):
            a = _place_of(d.term["args"][0])
            cur = trace(fv, a) if a is not None else None
            continue
        if d.kind == "assign" and d.rv[0] == "agg" and d.rv[1][0] == "adt" and d.rv[1][1] == "core::ops::Range" and len(d.rv[2]) == 2:
            end = _place_of(d.rv[2][1])
            return trace(fv, end) if end is not None else None
        return None
    return None


def length_base(fv, n_tr):
    """what container has length exactly n (n given by its trace)?  ('slice', param local) when n = len() / metadata of a slice parameter"""
    if n_tr is None or n_tr[0] != "local":
        return None
    d = n_tr[2]
    src = None
    if d.kind == "call" and LEN_CALL.search(cname(d.term)):
        src = _place_of(d.term["args"][0])
    elif d.kind == "assign" and d.rv[0] == "un" and d.rv[1] == "PtrMetadata":
        src = _place_of(d.rv[2])
    elif d.kind == "assign" and d.rv[0] == "len":
        src = d.rv[1]
    if src is None:
        return None
    b = trace(fv, src)
    if b is not None and b[0] == "param" and re.match(r"^&('\w+ )?(mut )?\[", fv.locals[b[1]]["ty"]):
        return ("slice", b[1])
    return None


def vec_of_length(fv, vec_local, n_tr):
    """vec_local is defined once by vec![_; n] with that n and is never resized"""
    ds = fv.defs.get(vec_local, [])
    ds = [d for d in ds if not d.via_mutref]       # writes through &mut (element stores) do not redefine the vector
    if len(ds) != 1 or ds[0].kind != "call" or not re.search(r"alloc::vec::from_elem", cname(ds[0].term)):
        return False
    a = _place_of(ds[0].term["args"][1])
    if a is None or not _same(trace(fv, a), n_tr):
        return False
    for bi, t in fv.calls:
        if not RESIZING.search(cname(t)):
            continue
        for o in t["args"]:
            p = _place_of(o)
            tr = trace(fv, p) if p is not None else None
            if tr is None or (tr[0] in ("local", "multi") and tr[1] == vec_local):
                return False
    return True


def proves(F, f, idx_operand, base_place):
    """True when idx < len(base) follows structurally; base_place is the MIR place of the container (the slice behind `(*p)` or the vector local)"""
    try:
        fv = view(F, f)
        n_tr = upper_bound_local(fv, idx_operand)
        if n_tr is None:
            return False
        b = trace(fv, base_place)
        if b is None:
            return False
        lb = length_base(fv, n_tr)
        if b[0] == "param":
            return lb == ("slice", b[1])
        if b[0] in ("local", "multi") and "Vec<" in fv.locals[b[1]]["ty"]:
            return vec_of_length(fv, b[1], n_tr)
        return False
    except Exception:
        return False


def proves_assert(F, f, t):
    """a MIR bounds assertion `assert(Lt(idx, len))` with msg_ops [len, idx]"""
    try:
        fv = view(F, f)
        lo, idx = t["msg_ops"][0], t["msg_ops"][1]
        pl = _place_of(lo)
        if pl is None or pl[1]:
            return False
        ds = fv.defs.get(pl[0], [])
        if len(ds) != 1 or ds[0].kind != "assign":
            return False
        rv = ds[0].rv
        base = None
        if rv[0] == "un" and rv[1] == "PtrMetadata":
            base = _place_of(rv[2])
        elif rv[0] == "len":
            base = rv[1]
        return base is not None and proves(F, f, idx, base)
    except Exception:
        return False
