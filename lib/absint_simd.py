"""Lane-wise interval models of the AVX2 / AVX-512 IFMA intrinsics used by curve25519-dalek's vector backend.
A __m256i value is the struct st((arr,)) around an array of 8 u32 lane intervals or 4 u64 lane intervals (the two views are
converted on demand; splitting a u64 interval into two u32 lanes over-approximates).  Every packed add / sub / shift-left that
could wrap its lane is recorded as a failing `lane:*` obligation: the vector field code relies on lanes never wrapping (its
preconditions are stated in doc comments only), so these obligations are the static form of those preconditions."""
import re
from absint import I, TOP, join

M32 = (1 << 32) - 1
M64 = (1 << 64) - 1
FULL32 = I(0, M32)
FULL64 = I(0, M64)


def unsigned(x, bits):
    if x is None or x[0] != "i":
        return I(0, (1 << bits) - 1)
    lo, hi = x[1], x[2]
    m = 1 << bits
    if lo >= 0 and hi < m:
        return x
    if hi < 0 and lo >= -(m >> 1):
        return I(lo + m, hi + m)
    if lo == hi:
        return I(lo % m)
    return I(0, m - 1)


def raw(v):
    """lane array of a __m256i value (struct around an array) or None"""
    if v is None:
        return None
    if v[0] == "cref":
        v = v[1]
    if v[0] == "st" and len(v[1]) == 1:
        v = v[1][0]
        if v[0] == "st" and len(v[1]) == 1:
            v = v[1][0]
    if v[0] == "arr" and len(v[1]) in (4, 8):
        return list(v[1])
    return None


def lanes32(v):
    a = raw(v)
    if a is None:
        return [FULL32] * 8
    if len(a) == 8:
        return [unsigned(x, 32) for x in a]
    out = []
    for x in a:
        x = unsigned(x, 64)
        lo, hi = x[1], x[2]
        if (lo >> 32) == (hi >> 32):
            out += [I(lo & M32, hi & M32), I(lo >> 32)]
        else:
            out += [FULL32, I(lo >> 32, hi >> 32)]
    return out


def lanes64(v):
    a = raw(v)
    if a is None:
        return [FULL64] * 4
    if len(a) == 4:
        return [unsigned(x, 64) for x in a]
    out = []
    for k in range(4):
        l, h = unsigned(a[2 * k], 32), unsigned(a[2 * k + 1], 32)
        out.append(I(l[1] + (h[1] << 32), l[2] + (h[2] << 32)))
    return out


def mk(lanes):
    return ("st", (("arr", tuple(lanes)),))


def const_lanes(v):
    a = lanes32(v)
    return [x[1] for x in a] if all(x[1] == x[2] for x in a) else None


def vjoin(x, y):
    """join that is aware of the two lane views of a vector"""
    if x is None or y is None or x[0] == "top" or y[0] == "top":
        return TOP
    rx, ry = raw(x) if x[0] == "st" and len(x[1]) == 1 and x[1][0][0] == "arr" and len(x[1][0][1]) in (4, 8) else None, \
        raw(y) if y[0] == "st" and len(y[1]) == 1 and y[1][0][0] == "arr" and len(y[1][0][1]) in (4, 8) else None
    if rx is not None and ry is not None:
        if len(rx) == len(ry):
            return mk([join(p, q) for p, q in zip(rx, ry)])
        return mk([join(p, q) for p, q in zip(lanes32(x), lanes32(y))])
    if x[0] == y[0] and x[0] in ("st", "arr") and len(x[1]) == len(y[1]):
        return (x[0], tuple(vjoin(p, q) for p, q in zip(x[1], y[1])))
    return join(x, y)


class Simd:
    """mixin for absint_models.Models"""

    def register_simd(self):
        R = self.reg
        P = r"core::arch::x86_64::_mm256_"
        R(P + r"(add|sub)_epi(32|64)$", self.s_addsub)
        R(P + r"mul_epu32$", self.s_mul_epu32)
        R(P + r"s(l|r)li_epi(32|64)(::<.*>)?$", self.s_shift_imm)
        R(P + r"srlv_epi32$", self.s_srlv)
        R(P + r"(and|or|xor)_si256$", self.s_bitop)
        R(P + r"blend_epi32(::<.*>)?$", self.s_blend)
        R(P + r"shuffle_epi32(::<.*>)?$", self.s_shuffle)
        R(P + r"permutevar8x32_epi32$", self.s_permutevar)
        R(P + r"permute4x64_epi64(::<.*>)?$", self.s_permute4x64)
        R(P + r"unpack(lo|hi)_epi32$", self.s_unpack)
        R(P + r"set_epi32$", lambda ip, fv, st, d, t, n, a, dty: mk([unsigned(ip.deconst(x), 32) for x in reversed(a)]))
        R(P + r"set1_epi32$", lambda ip, fv, st, d, t, n, a, dty: mk([unsigned(ip.deconst(a[0]), 32)] * 8))
        R(P + r"set_epi64x?$", lambda ip, fv, st, d, t, n, a, dty: mk([unsigned(ip.deconst(x), 64) for x in reversed(a)]))
        R(P + r"set1_epi64x$", lambda ip, fv, st, d, t, n, a, dty: mk([unsigned(ip.deconst(a[0]), 64)] * 4))
        R(P + r"extract_epi(32|64)(::<.*>)?$", self.s_extract)
        R(P + r"madd52(lo|hi)_epu64$", self.s_madd52)
        R(P + r"cmpeq_epi8$", lambda ip, fv, st, d, t, n, a, dty: mk([FULL32] * 8))
        R(P + r"movemask_epi8$", lambda ip, fv, st, d, t, n, a, dty: I(-(1 << 31), (1 << 31) - 1))
        R(P + r"setzero_si256$", lambda ip, fv, st, d, t, n, a, dty: mk([I(0)] * 8))
        # A5: the mask-select idiom  x ^ (m & (x ^ y)),  m in {0, all-ones}, of the vector field's ConditionallySelectable impl yields x or y
        R(r"vector::(avx2|ifma)::field::\w+ as subtle::ConditionallySelectable>::conditional_(select|assign)$", self.s_cond_select)

    # the immediate of a const-generic intrinsic, from the resolved generic arguments of the call
    def imm(self, ip, t):
        for g in getattr(ip, "cur_gargs", ()) or ():
            if isinstance(g, str) and g.startswith("#") and g[1:].lstrip("-").isdigit():
                return int(g[1:])
        m = re.search(r"::<(-?\d+)>$", t.get("callee_full") or "")
        return int(m.group(1)) if m else None

    def lane_obl(self, ip, fv, t, op, ok, why):
        # attributed to the nearest caller outside the packed_simd wrappers (the wrappers are shared by every kernel)
        who = None
        for f in reversed(getattr(ip, "fn_stack", [])):
            if "packed_simd" not in f["path"]:
                who = f["path"].replace("curve25519_dalek::backend::vector::", "")
                who = re.sub(r"<[^<>]*>|::__Impl_\w+__|<|>", "", who)[-70:]
                break
        if not ok and __import__("os").environ.get("ABSINT_DEBUG"):
            print("LANE FAIL", op, why, "| stack:", " <- ".join(f["path"].split("::")[-1] for f in reversed(getattr(ip, "fn_stack", [])[-6:])))
        ip.record(fv, "lane:" + op, "in " + (who or "?"), t["line"], ok, why)

    def s_cond_select(self, ip, fv, st, depth, t, n, a, dty):
        ip.used_assumptions = getattr(ip, "used_assumptions", set()) | {"A5: vector mask-select idiom x ^ (m & (x ^ y)) yields x or y"}
        x, y = ip.deref_val(st, a[0]), ip.deref_val(st, a[1])
        r = vjoin(x, y)
        if n.endswith("conditional_assign"):
            if a[0][0] == "ref":
                cur = st.frames[a[0][1]].get(a[0][2], TOP)
                st.frames[a[0][1]][a[0][2]] = ip.write_path(cur, a[0][3], r)
            return ("st", ())
        return r

    def s_addsub(self, ip, fv, st, depth, t, n, a, dty):
        m = re.search(r"(add|sub)_epi(32|64)$", n)
        op, w = m.group(1), int(m.group(2))
        L = lanes32 if w == 32 else lanes64
        x, y = L(a[0]), L(a[1])
        mx = (1 << w) - 1
        out, ok, worst = [], True, None
        for p, q in zip(x, y):
            if op == "add":
                lo, hi = p[1] + q[1], p[2] + q[2]
                if hi > mx:
                    ok, worst = False, (p, q)
                    out.append(I(0, mx))
                else:
                    out.append(I(lo, hi))
            else:
                lo, hi = p[1] - q[2], p[2] - q[1]
                if lo < 0:
                    ok, worst = False, (p, q)
                    out.append(I(0, mx))
                else:
                    out.append(I(lo, hi))
        self.lane_obl(ip, fv, t, "%s%d" % (op, w), ok, "" if ok else "a %d-bit lane can wrap: %s %s %s" % (w, show(worst[0]), "+" if op == "add" else "-", show(worst[1])))
        return mk(out)

    def s_mul_epu32(self, ip, fv, st, depth, t, n, a, dty):
        # a multiplicand that was computed as a 64-bit lane quantity (u64 view) must fit 32 bits: the multiplier reads only the low half
        ok, worst = True, None
        for v in (a[0], a[1]):
            r = raw(v)
            if r is not None and len(r) == 4:
                for q in r:
                    q = unsigned(q, 64)
                    if q[2] > M32:
                        ok, worst = False, q
        self.lane_obl(ip, fv, t, "mul32:operand", ok, "" if ok else "a 64-bit lane product %s is used as a 32-bit multiplicand: its high bits are dropped" % show(worst))
        x, y = lanes32(a[0]), lanes32(a[1])
        return mk([I(x[2 * k][1] * y[2 * k][1], x[2 * k][2] * y[2 * k][2]) for k in range(4)])

    def s_shift_imm(self, ip, fv, st, depth, t, n, a, dty):
        m = re.search(r"s(l|r)li_epi(32|64)", n)
        left, w = m.group(1) == "l", int(m.group(2))
        k = self.imm(ip, t)
        if k is None and len(a) > 1:
            kv = ip.deconst(a[1])
            k = kv[1] if kv[0] == "i" and kv[1] == kv[2] else None
        L = lanes32 if w == 32 else lanes64
        x = L(a[0])
        mx = (1 << w) - 1
        if k is None:
            return mk([I(0, mx)] * len(x))
        out, ok = [], True
        for p in x:
            if left:
                hi = p[2] << k
                if hi > mx:
                    ok = False
                    out.append(I(0, mx))
                else:
                    out.append(I(p[1] << k, hi))
            else:
                out.append(I(p[1] >> k, p[2] >> k))
        if left:
            self.lane_obl(ip, fv, t, "shl%d" % w, ok, "" if ok else "bits shifted out of a %d-bit lane" % w)
        return mk(out)

    def s_srlv(self, ip, fv, st, depth, t, n, a, dty):
        x = lanes32(a[0])
        c = const_lanes(a[1])
        if c is None:
            return mk([I(0, p[2]) for p in x])
        return mk([I(p[1] >> k, p[2] >> k) if k < 32 else I(0) for p, k in zip(x, c)])

    def s_bitop(self, ip, fv, st, depth, t, n, a, dty):
        op = re.search(r"(and|or|xor)_si256$", n).group(1)
        ra, rb = raw(a[0]), raw(a[1])
        w64 = (ra is not None and len(ra) == 4) and (rb is not None and len(rb) == 4)
        L = lanes64 if w64 else lanes32
        x, y = L(a[0]), L(a[1])
        out = []
        for p, q in zip(x, y):
            if op == "and":
                if p[1] == p[2] and q[1] == q[2]:
                    out.append(I(p[1] & q[1]))
                else:
                    pa = p[1] if p[1] == p[2] else (1 << p[2].bit_length()) - 1
                    pb = q[1] if q[1] == q[2] else (1 << q[2].bit_length()) - 1
                    out.append(I(0, min(p[2], q[2], pa & pb)))
            else:
                if p[1] == p[2] and q[1] == q[2]:
                    out.append(I(p[1] | q[1]) if op == "or" else I(p[1] ^ q[1]))
                else:
                    mbits = max(p[2].bit_length(), q[2].bit_length())
                    out.append(I(max(p[1], q[1]) if op == "or" else 0, (1 << mbits) - 1))
        return mk(out)

    def s_blend(self, ip, fv, st, depth, t, n, a, dty):
        imm = self.imm(ip, t)
        x, y = lanes32(a[0]), lanes32(a[1])
        if imm is None:
            return mk([join(p, q) for p, q in zip(x, y)])
        return mk([y[i] if (imm >> i) & 1 else x[i] for i in range(8)])

    def s_shuffle(self, ip, fv, st, depth, t, n, a, dty):
        imm = self.imm(ip, t)
        x = lanes32(a[0])
        if imm is None:
            j0 = x[0]
            for p in x[1:]:
                j0 = join(j0, p)
            return mk([j0] * 8)
        out = []
        for half in (0, 4):
            for j in range(4):
                out.append(x[half + ((imm >> (2 * j)) & 3)])
        return mk(out)

    def s_permutevar(self, ip, fv, st, depth, t, n, a, dty):
        x = lanes32(a[0])
        idx = const_lanes(a[1])
        if idx is None:
            j0 = x[0]
            for p in x[1:]:
                j0 = join(j0, p)
            return mk([j0] * 8)
        return mk([x[i & 7] for i in idx])

    def s_permute4x64(self, ip, fv, st, depth, t, n, a, dty):
        imm = self.imm(ip, t)
        x = lanes64(a[0])
        if imm is None:
            j0 = x[0]
            for p in x[1:]:
                j0 = join(j0, p)
            return mk([j0] * 4)
        return mk([x[(imm >> (2 * j)) & 3] for j in range(4)])

    def s_unpack(self, ip, fv, st, depth, t, n, a, dty):
        hi = "unpackhi" in n
        x, y = lanes32(a[0]), lanes32(a[1])
        out = []
        for half in (0, 4):
            o = 2 if hi else 0
            out += [x[half + o], y[half + o], x[half + o + 1], y[half + o + 1]]
        return mk(out)

    def s_extract(self, ip, fv, st, depth, t, n, a, dty):
        w = 32 if "epi32" in n else 64
        i = self.imm(ip, t)
        L = lanes32(a[0]) if w == 32 else lanes64(a[0])
        if i is None or not (0 <= i < len(L)):
            v = L[0]
            for p in L[1:]:
                v = join(v, p)
        else:
            v = L[i]
        half = 1 << (w - 1)
        if v[2] < half:
            return v
        if v[1] >= half:
            return I(v[1] - (1 << w), v[2] - (1 << w))
        return I(-half, half - 1)

    def s_madd52(self, ip, fv, st, depth, t, n, a, dty):
        # z + lo/hi 52 bits of (x mod 2^52) * (y mod 2^52): taking the low 52 bits of an operand is the instruction's defined behaviour
        # and the field code uses it on purpose for its 64-bit accumulators (paired with `>> 52` of the same value), so it is modelled,
        # not flagged; the obligation is that the 64-bit accumulator lane does not wrap
        hi = "madd52hi" in n
        z, x, y = lanes64(a[0]), lanes64(a[1]), lanes64(a[2])
        M52 = (1 << 52) - 1
        out, okz = [], True
        for r, p, q in zip(z, x, y):
            if p[2] > M52:
                p = I(0, M52)
            if q[2] > M52:
                q = I(0, M52)
            prod_lo, prod_hi = p[1] * q[1], p[2] * q[2]
            if hi:
                add = I(prod_lo >> 52, prod_hi >> 52)
            else:
                add = I(prod_lo, prod_hi) if prod_hi <= M52 else I(0, M52)
            s = r[2] + add[2]
            if s > M64:
                okz = False
                out.append(FULL64)
            else:
                out.append(I(r[1] + add[1], s))
        self.lane_obl(ip, fv, t, "madd52:accumulator", okz, "" if okz else "the 64-bit accumulator lane can wrap")
        return mk(out)


def show(x):
    import math
    if x[1] == x[2]:
        return "2^%.3f" % math.log2(x[1]) if x[1] > 1024 else str(x[1])
    return "[%s, 2^%.3f]" % (x[1], math.log2(x[2] + 1))
