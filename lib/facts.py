"""Loading and indexing the JSON facts written by the mirfacts driver."""
import json, os, re


class Crate:
    def __init__(self, path):
        with open(path) as fh:
            d = json.load(fh)
        self.name = d["crate"]
        self.cfg = d["cfg"]
        self.raw = d
        self.fns = d["fns"]          # key -> fn record
        self.consts = d["consts"]
        self.adts = d["adts"]        # pretty path -> adt
        self.impls = d["impls"]
        self.items = d["items"]
        for k, f in self.fns.items():
            f["key"] = k
            f["crate"] = self.name


class Facts:
    """All crates of one configuration/mode."""

    def __init__(self, directory):
        self.dir = directory
        self.crates = {}
        for f in sorted(os.listdir(directory)):
            if f.endswith(".json") and not f.startswith("_"):
                c = Crate(os.path.join(directory, f))
                self.crates[c.name] = c
        with open(os.path.join(directory, "_meta.json")) as fh:
            self.meta = json.load(fh)
        self.fns = {}
        self.consts = {}
        self.adts = {}
        self.impls = []
        for c in self.crates.values():
            self.fns.update(c.fns)
            self.consts.update(c.consts)
            self.adts.update(c.adts)
            self.impls.extend(c.impls)
        self._alias = {}
        self.by_path = {}
        for k, f in self.fns.items():
            self.by_path.setdefault(f["path"], []).append(f)
        self.const_by_path = {}
        for k, c in self.consts.items():
            c["key"] = k
            self.const_by_path.setdefault(c["path"], []).append(c)

    def adt_of(self, ty):
        """ADT facts for a printed type, following re-export aliases (`crate::EdwardsPoint` == `crate::edwards::EdwardsPoint`)."""
        base = re.sub(r"<.*", "", ty.strip())
        a = self.adts.get(base)
        if a is not None:
            return a
        hit = self._alias.get(base)
        if hit is None and "::" in base:
            crate, last = base.split("::")[0], base.split("::")[-1]
            c = [p for p in self.adts if p.startswith(crate + "::") and p.endswith("::" + last)]
            hit = c[0] if len(c) == 1 else ""
            self._alias[base] = hit
        return self.adts.get(hit) if hit else None

    def adt_path(self, ty):
        base = re.sub(r"<.*", "", ty.strip())
        if base in self.adts:
            return base
        self.adt_of(ty)
        return self._alias.get(base) or base

    def named_len(self, name):
        """value of an array-length constant printed by name (`[u8; SECRET_KEY_LENGTH]`)"""
        name = name.lstrip("#")
        if name.isdigit():
            return int(name)
        vals = {c[0].get("value") for p, c in self.const_by_path.items() if p.endswith("::" + name.split("::")[-1]) and isinstance(c[0].get("value"), int)}
        return vals.pop() if len(vals) == 1 else None

    def has_cfg(self, s):
        return any(s in c.cfg for c in self.crates.values())

    # ------------------------------------------------------------ lookup
    def fn(self, path=None, *, self_ty=None, trait=None, name=None, crate=None, all=False, with_mir=True):
        """Find functions by pretty path, or by (self_ty, trait, name) for impl methods.
        self_ty/trait are matched as regex `search` on the printed strings."""
        out = []
        for k, f in self.fns.items():
            if with_mir and "mir" not in f:
                continue
            if crate and f["crate"] != crate:
                continue
            if path is not None and f["path"] != path:
                continue
            if name is not None and f.get("name") != name:
                continue
            if self_ty is not None and not re.search(self_ty, f.get("self_ty", "") or ""):
                continue
            if trait is not None:
                if trait == "" and f.get("trait"):
                    continue
                if trait != "" and not re.search(trait, f.get("trait", "") or ""):
                    continue
            out.append(f)
        if all:
            return out
        if len(out) != 1:
            raise LookupError("fn lookup path=%r self_ty=%r trait=%r name=%r -> %d matches %s" % (
                path, self_ty, trait, name, len(out), [o["key"] for o in out][:6]))
        return out[0]

    def closures_of(self, fkey):
        return [f for f in self.fns.values() if f.get("parent_fn") == fkey and f["kind"] == "Closure"]

    def const(self, path):
        c = self.const_by_path.get(path)
        if not c:
            raise LookupError("const %s not found" % path)
        return c[0]

    def loc(self, f, line=None):
        sp = f.get("span") or ["?", 0]
        return "%s:%s" % (sp[0], line if line else sp[1])


# ---------------------------------------------------------------- MIR helpers

def place_str(p):
    s = "_%d" % p[0]
    for e in p[1]:
        if e == "*":
            s = "(*%s)" % s
        elif e[0] == "f":
            s = "%s.%d" % (s, e[1])
        elif e[0] == "i":
            s = "%s[_%d]" % (s, e[1])
        elif e[0] == "ci":
            s = "%s[%s%d of %d]" % (s, "-" if e[3] else "", e[1], e[2])
        elif e[0] == "sub":
            s = "%s[%d..%s%d]" % (s, e[1], "-" if e[3] else "", e[2])
        elif e[0] == "dc":
            s = "(%s as v%d)" % (s, e[1])
        else:
            s = "%s{%s}" % (s, e[0])
    return s


def const_str(k):
    if "fn" in k:
        return "fn(%s)" % k["fn"]
    if "param" in k:
        return "param %s" % k["param"]
    if "def" in k:
        return "const %s" % k["def"]
    if "promoted" in k:
        return "promoted[%d]=%s" % (k["promoted"], json.dumps(k.get("v"))[:80])
    v = k.get("v")
    if isinstance(v, (int, str)):
        return "%s_%s" % (v, k["ty"])
    return "%s:%s" % (json.dumps(v)[:80], k["ty"])


def op_str(o):
    if o[0] == "c":
        return place_str(o[1])
    if o[0] == "m":
        return "move " + place_str(o[1])
    if o[0] == "k":
        return const_str(o[1])
    return str(o)


def rv_str(rv):
    k = rv[0]
    if k == "use":
        return op_str(rv[1])
    if k == "bin":
        return "%s(%s, %s)" % (rv[1], op_str(rv[2]), op_str(rv[3]))
    if k == "un":
        return "%s(%s)" % (rv[1], op_str(rv[2]))
    if k == "cast":
        return "%s as %s (%s)" % (op_str(rv[2]), rv[3], rv[1])
    if k == "ref":
        return "&%s%s" % ("mut " if rv[1] == "mut" else "", place_str(rv[2]))
    if k == "rawptr":
        return "&raw %s %s" % (rv[1], place_str(rv[2]))
    if k == "agg":
        return "%s{%s}" % (":".join(str(x) for x in rv[1][:2]), ", ".join(op_str(o) for o in rv[2]))
    if k == "repeat":
        return "[%s; %s]" % (op_str(rv[1]), rv[2])
    if k == "disc":
        return "discriminant(%s)" % place_str(rv[1])
    return str(rv)


def callee_name(t):
    r = t.get("resolved")
    if r:
        return r["full"]
    return t.get("callee_full") or ("<indirect %s>" % t.get("callee_ty"))


def term_str(t):
    k = t["k"]
    if k == "goto":
        return "goto bb%d" % t["target"]
    if k == "switch":
        return "switch(%s) [%s, otherwise bb%d]" % (op_str(t["discr"]), ", ".join("%s:bb%d" % (v, b) for v, b in t["targets"]), t["otherwise"])
    if k == "call":
        return "%s = %s(%s) -> %s unwind %s" % (place_str(t["dest"]), callee_name(t), ", ".join(op_str(a) for a in t["args"]),
                                               "bb%s" % t["target"] if t["target"] is not None else "!", t["unwind"])
    if k == "assert":
        return "assert(%s%s, %s %s) -> bb%d" % ("" if t["expected"] else "!", op_str(t["cond"]), t["msg"], [op_str(o) for o in t["msg_ops"]], t["target"])
    if k == "drop":
        return "drop(%s: %s) -> bb%d unwind %s" % (place_str(t["place"]), t["place_ty"], t["target"], t["unwind"])
    return k


def pp(f, out=None):
    import sys
    out = out or sys.stdout
    m = f["mir"]
    out.write("fn %s  [%s] args=%d\n" % (f["path"], f["key"], m["arg_count"]))
    for i, l in enumerate(m["locals"]):
        out.write("  let _%d: %s%s\n" % (i, l["ty"], "  // " + l["name"] if "name" in l else ""))
    for i, b in enumerate(m["blocks"]):
        out.write(" bb%d%s:\n" % (i, " (cleanup)" if b.get("cleanup") else ""))
        for s in b["s"]:
            if s[0] == "=":
                out.write("    %s = %s   // L%d\n" % (place_str(s[1]), rv_str(s[2]), s[3]))
            elif s[0] in ("live", "dead"):
                pass
            else:
                out.write("    %s\n" % (s,))
        if "t" in b:
            out.write("    %s   // L%d\n" % (term_str(b["t"]), b["t"]["line"]))


if __name__ == "__main__":
    import sys
    F = Facts(sys.argv[1])
    pat = sys.argv[2]
    for k, f in F.fns.items():
        if re.search(pat, k) or re.search(pat, f["path"]):
            if "mir" in f:
                pp(f)
            else:
                print("no mir:", k)
