// mirfacts: a rustc_private driver that dumps, per crate, the facts the /verif analysers need:
// items, ADTs, impls, MIR bodies with resolved callees, evaluated constants (decoded by layout).
// Used as RUSTC_WORKSPACE_WRAPPER; argv[1] is the real rustc path and is dropped.
#![feature(rustc_private)]
#![allow(clippy::all)]

extern crate rustc_abi;
extern crate rustc_driver;
extern crate rustc_hir;
extern crate rustc_interface;
extern crate rustc_middle;
extern crate rustc_span;

use rustc_abi::{FieldsShape, Size, Variants};
use rustc_hir::def::DefKind;
use rustc_hir::def_id::{DefId, LocalDefId, LOCAL_CRATE};
use rustc_middle::mir::interpret::{AllocId, Allocation, GlobalAlloc, Scalar};
use rustc_middle::mir::{self, *};
use rustc_middle::ty::print::{with_crate_prefix, with_no_trimmed_paths, PrintTraitRefExt};
use rustc_middle::ty::{self, GenericArgsRef, Instance, Ty, TyCtxt, TypingEnv};
use rustc_span::Span;
use std::fmt::Write as _;

mod json;
use json::J;

struct Cb;

impl rustc_driver::Callbacks for Cb {
    fn after_analysis<'tcx>(
        &mut self,
        _c: &rustc_interface::interface::Compiler,
        tcx: TyCtxt<'tcx>,
    ) -> rustc_driver::Compilation {
        let out = match std::env::var("MIRFACTS_OUT") {
            Ok(o) => o,
            Err(_) => return rustc_driver::Compilation::Continue,
        };
        let krate = tcx.crate_name(LOCAL_CRATE).to_string();
        let wanted = ["curve25519_dalek", "ed25519_dalek", "x25519_dalek"];
        let extra = std::env::var("MIRFACTS_CRATES").unwrap_or_default();
        if !wanted.contains(&krate.as_str()) && !extra.split(',').any(|c| c == krate) {
            return rustc_driver::Compilation::Continue;
        }
        let cx = Cx { tcx, krate: krate.clone() };
        let s = cx.dump();
        let path = format!("{}/{}-{}.json", out, krate, std::process::id());
        std::fs::write(&path, s).expect("write facts");
        rustc_driver::Compilation::Continue
    }
}

fn main() {
    let mut args: Vec<String> = std::env::args().collect();
    if args.len() > 1 && !args[1].starts_with('-') {
        args.remove(1);
    }
    rustc_driver::run_compiler(&args, &mut Cb);
}

struct Cx<'tcx> {
    tcx: TyCtxt<'tcx>,
    krate: String,
}

fn fix_crate(s: String, krate: &str) -> String {
    // with_crate_prefix prints local paths as `crate::…`; replace by the crate name.
    if !s.contains("crate::") {
        return s;
    }
    let b = s.as_bytes();
    let mut out = String::with_capacity(s.len() + 16);
    let mut i = 0;
    while i < b.len() {
        if s[i..].starts_with("crate::")
            && (i == 0 || !(b[i - 1].is_ascii_alphanumeric() || b[i - 1] == b'_'))
        {
            out.push_str(krate);
            out.push_str("::");
            i += 7;
        } else {
            let ch = s[i..].chars().next().unwrap();
            out.push(ch);
            i += ch.len_utf8();
        }
    }
    out
}

impl<'tcx> Cx<'tcx> {
    fn p<T: std::fmt::Display>(&self, t: T) -> String {
        let s = with_crate_prefix!(with_no_trimmed_paths!(format!("{}", t)));
        fix_crate(s, &self.krate)
    }
    fn dbg<T: std::fmt::Debug>(&self, t: T) -> String {
        let s = with_crate_prefix!(with_no_trimmed_paths!(format!("{:?}", t)));
        fix_crate(s, &self.krate)
    }
    fn path(&self, d: DefId) -> String {
        let s = with_crate_prefix!(with_no_trimmed_paths!(self.tcx.def_path_str(d)));
        fix_crate(s, &self.krate)
    }
    fn path_args(&self, d: DefId, a: GenericArgsRef<'tcx>) -> String {
        let s = with_crate_prefix!(with_no_trimmed_paths!(self.tcx.def_path_str_with_args(d, a)));
        fix_crate(s, &self.krate)
    }
    fn key(&self, d: DefId) -> String {
        format!(
            "{}{}",
            self.tcx.crate_name(d.krate),
            self.tcx.def_path(d).to_string_no_crate_verbose()
        )
    }
    fn span(&self, sp: Span) -> J {
        let sm = self.tcx.sess.source_map();
        let lo = sm.lookup_char_pos(sp.lo());
        let hi = sm.lookup_char_pos(sp.hi());
        let f = match &lo.file.name {
            rustc_span::FileName::Real(r) => match r.local_path() {
                Some(p) => p.to_string_lossy().to_string(),
                None => format!("{:?}", lo.file.name),
            },
            o => format!("{:?}", o),
        };
        J::arr(vec![
            J::s(&f),
            J::n(lo.line as i128),
            J::n(hi.line as i128),
            J::b(sp.from_expansion()),
        ])
    }

    fn dump(&self) -> String {
        let tcx = self.tcx;
        let mut root = J::obj();
        root.set("crate", J::s(&self.krate));
        root.set("cfg_env", J::s(&std::env::var("MIRFACTS_CFG").unwrap_or_default()));
        // crate-level cfg echo (features and --cfg flags)
        let mut cfgs = vec![];
        for (name, val) in tcx.sess.config.iter() {
            let n = name.to_string();
            if n == "feature" || n.starts_with("curve25519") || n == "debug_assertions" || n == "overflow_checks" {
                cfgs.push(J::s(&format!("{}={}", n, val.map(|v| v.to_string()).unwrap_or_default())));
            }
        }
        root.set("cfg", J::arr(cfgs));
        root.set("overflow_checks", J::b(tcx.sess.overflow_checks()));
        root.set("debug_assertions", J::b(tcx.sess.opts.debug_assertions));

        let mut adts = J::obj();
        let mut fns = J::obj();
        let mut consts = J::obj();
        let mut impls = vec![];
        let mut items = J::obj();

        // All definitions in the local crate.
        let defs: Vec<LocalDefId> = tcx.iter_local_def_id().collect();
        for ld in defs {
            let d = ld.to_def_id();
            let kind = tcx.def_kind(d);
            match kind {
                DefKind::Struct | DefKind::Enum | DefKind::Union => {
                    adts.set(&self.path(d), self.adt(d));
                }
                DefKind::Impl { .. } => {
                    impls.push(self.impl_(d));
                }
                DefKind::Fn | DefKind::AssocFn | DefKind::Closure => {
                    if let Some(j) = self.func(ld, kind) {
                        fns.set(&self.key(d), j);
                    }
                }
                DefKind::Const { .. } | DefKind::AssocConst { .. } | DefKind::Static { .. } => {
                    if let Some(j) = self.konst(ld, kind) {
                        consts.set(&self.key(d), j);
                    }
                }
                DefKind::Mod | DefKind::Trait | DefKind::TyAlias | DefKind::Macro(..) | DefKind::Use => {
                    let mut o = J::obj();
                    o.set("kind", J::s(&format!("{:?}", kind)));
                    o.set("path", J::s(&self.path(d)));
                    o.set("vis", J::s(&self.vis(d)));
                    if let DefKind::TyAlias = kind {
                        let t = tcx.type_of(d).instantiate_identity().skip_norm_wip();
                        o.set("ty", J::s(&self.p(t)));
                    }
                    items.set(&self.key(d), o);
                }
                _ => {}
            }
        }
        root.set("adts", adts);
        root.set("impls", J::arr(impls));
        root.set("fns", fns);
        root.set("consts", consts);
        root.set("items", items);
        root.to_string()
    }

    fn vis(&self, d: DefId) -> String {
        match self.tcx.visibility(d) {
            ty::Visibility::Public => "pub".to_string(),
            ty::Visibility::Restricted(m) => {
                if m.is_crate_root() {
                    "crate".to_string()
                } else {
                    format!("in:{}", self.path(m))
                }
            }
        }
    }

    /// Effective visibility: is this item reachable from outside the crate?
    fn exported(&self, ld: LocalDefId) -> bool {
        self.tcx.effective_visibilities(()).is_exported(ld)
    }

    fn adt(&self, d: DefId) -> J {
        let tcx = self.tcx;
        let adt = tcx.adt_def(d);
        let mut o = J::obj();
        o.set("kind", J::s(&format!("{:?}", adt.adt_kind())));
        o.set("vis", J::s(&self.vis(d)));
        if let Some(ld) = d.as_local() {
            o.set("exported", J::b(self.exported(ld)));
            o.set("span", self.span(tcx.def_span(d)));
        }
        o.set("repr", J::s(&format!("{:?}", adt.repr())));
        let generics = tcx.generics_of(d);
        o.set("n_generics", J::n(generics.own_params.len() as i128));
        let mut vs = vec![];
        for v in adt.variants() {
            let mut vo = J::obj();
            vo.set("name", J::s(v.name.as_str()));
            let mut fs = vec![];
            for f in &v.fields {
                let mut fo = J::obj();
                fo.set("name", J::s(f.name.as_str()));
                let t = tcx.type_of(f.did).instantiate_identity().skip_norm_wip();
                fo.set("ty", J::s(&self.p(t)));
                fo.set("vis", J::s(&self.vis(f.did)));
                fs.push(fo);
            }
            vo.set("fields", J::arr(fs));
            vs.push(vo);
        }
        o.set("variants", J::arr(vs));
        o
    }

    fn impl_(&self, d: DefId) -> J {
        let tcx = self.tcx;
        let mut o = J::obj();
        o.set("key", J::s(&self.key(d)));
        let self_ty = tcx.type_of(d).instantiate_identity().skip_norm_wip();
        o.set("self_ty", J::s(&self.p(self_ty)));
        if let DefKind::Impl { of_trait: true } = tcx.def_kind(d) {
            let tr = tcx.impl_trait_ref(d).instantiate_identity().skip_norm_wip();
            o.set("trait", J::s(&self.p(tr.print_only_trait_path())));
            o.set("trait_def", J::s(&self.path(tr.def_id)));
        }
        o.set("span", self.span(tcx.def_span(d)));
        let mut ms = vec![];
        for it in tcx.associated_items(d).in_definition_order() {
            let mut m = J::obj();
            m.set("name", J::s(it.name().as_str()));
            m.set("key", J::s(&self.key(it.def_id)));
            m.set("kind", J::s(&format!("{:?}", tcx.def_kind(it.def_id))));
            ms.push(m);
        }
        o.set("items", J::arr(ms));
        // automatically derived?
        o.set("derived", J::b(tcx.is_automatically_derived(d)));
        o
    }

    fn func(&self, ld: LocalDefId, kind: DefKind) -> Option<J> {
        let tcx = self.tcx;
        let d = ld.to_def_id();
        let mut o = J::obj();
        o.set("path", J::s(&self.path(d)));
        o.set("kind", J::s(&format!("{:?}", kind)));
        o.set("span", self.span(tcx.def_span(d)));
        if matches!(kind, DefKind::Fn | DefKind::AssocFn) {
            o.set("vis", J::s(&self.vis(d)));
            o.set("exported", J::b(self.exported(ld)));
            let sig = tcx.fn_sig(d).instantiate_identity().skip_norm_wip().skip_binder();
            o.set("inputs", J::arr(sig.inputs().iter().map(|t| J::s(&self.p(*t))).collect()));
            o.set("output", J::s(&self.p(sig.output())));
            o.set("is_const", J::b(tcx.is_const_fn(d)));
            if let Some(parent) = tcx.opt_parent(d) {
                match tcx.def_kind(parent) {
                    DefKind::Impl { of_trait } => {
                        o.set("impl", J::s(&self.key(parent)));
                        let self_ty = tcx.type_of(parent).instantiate_identity().skip_norm_wip();
                        o.set("self_ty", J::s(&self.p(self_ty)));
                        if of_trait {
                            let tr = tcx.impl_trait_ref(parent).instantiate_identity().skip_norm_wip();
                            o.set("trait", J::s(&self.p(tr.print_only_trait_path())));
                        }
                        o.set("derived", J::b(tcx.is_automatically_derived(parent)));
                    }
                    DefKind::Trait => {
                        o.set("in_trait", J::s(&self.path(parent)));
                    }
                    _ => {}
                }
            }
            let attrs = tcx.codegen_fn_attrs(d);
            o.set("inline", J::s(&format!("{:?}", attrs.inline)));
            if !attrs.target_features.is_empty() {
                o.set(
                    "target_features",
                    J::arr(attrs.target_features.iter().map(|f| J::s(f.name.as_str())).collect()),
                );
            }
        } else {
            o.set("parent_fn", J::s(&self.key(tcx.typeck_root_def_id(d))));
        }
        o.set("name", J::s(&tcx.opt_item_name(d).map(|s| s.to_string()).unwrap_or_default()));
        // generic parameter names (types and consts, parents first; lifetimes skipped) - matches the order of `gargs` at call sites
        {
            let mut names: Vec<J> = vec![];
            let mut stack = vec![];
            let mut g = tcx.generics_of(d);
            loop {
                stack.push(g);
                match g.parent {
                    Some(p) => g = tcx.generics_of(p),
                    None => break,
                }
            }
            for g in stack.iter().rev() {
                for p in &g.own_params {
                    match p.kind {
                        ty::GenericParamDefKind::Lifetime => {}
                        _ => names.push(J::s(p.name.as_str())),
                    }
                }
            }
            o.set("generics", J::arr(names));
        }
        // in test module? (cfg(test) code is not compiled under `cargo check` lib target)
        if tcx.is_mir_available(d) && tcx.hir_maybe_body_owned_by(ld).is_some() {
            let body = tcx.optimized_mir(d);
            o.set("mir", self.body(body, d));
        }
        Some(o)
    }

    fn konst(&self, ld: LocalDefId, kind: DefKind) -> Option<J> {
        let tcx = self.tcx;
        let d = ld.to_def_id();
        // skip anonymous / inline consts and generic-dependent consts
        if tcx.opt_item_name(d).is_none() {
            return None;
        }
        let mut o = J::obj();
        o.set("path", J::s(&self.path(d)));
        o.set("kind", J::s(&format!("{:?}", kind)));
        o.set("span", self.span(tcx.def_span(d)));
        o.set("vis", J::s(&self.vis(d)));
        o.set("exported", J::b(self.exported(ld)));
        let ty = tcx.type_of(d).instantiate_identity().skip_norm_wip();
        o.set("ty", J::s(&self.p(ty)));
        if tcx.generics_of(d).requires_monomorphization(tcx) {
            o.set("generic", J::b(true));
            // A constant declared in a generic impl may still not depend on the parameters
            // (e.g. `Context::<K>::MAX_LENGTH`): evaluate it when its MIR mentions no type parameter.
            if let DefKind::AssocConst { .. } = kind {
                if tcx.hir_maybe_body_owned_by(ld).is_some() && ty.is_integral() {
                    use rustc_middle::ty::TypeVisitableExt;
                    let body = tcx.mir_for_ctfe(d);
                    let mut clean = true;
                    for l in body.local_decls.iter() {
                        if l.ty.has_non_region_param() {
                            clean = false;
                        }
                    }
                    for bb in body.basic_blocks.iter() {
                        if let Some(t) = &bb.terminator {
                            if let TerminatorKind::Call { .. } = t.kind {
                                clean = false;
                            }
                        }
                        for st in &bb.statements {
                            if let StatementKind::Assign(b) = &st.kind {
                                if let Rvalue::Use(Operand::Constant(c), ..) = &b.1 {
                                    if c.const_.has_non_region_param() {
                                        clean = false;
                                    }
                                }
                            }
                        }
                    }
                    if clean {
                        if let Ok(cv) = tcx.const_eval_poly(d) {
                            o.set("value", self.const_value(cv, ty));
                        }
                    }
                }
            }
            return Some(o);
        }
        // trait-declared associated consts without default have no body
        if let DefKind::AssocConst { .. } = kind {
            if let Some(parent) = tcx.opt_parent(d) {
                if tcx.def_kind(parent) == DefKind::Trait && tcx.hir_maybe_body_owned_by(ld).is_none() {
                    return Some(o);
                }
                if let DefKind::Impl { of_trait } = tcx.def_kind(parent) {
                    let self_ty = tcx.type_of(parent).instantiate_identity().skip_norm_wip();
                    o.set("self_ty", J::s(&self.p(self_ty)));
                    if of_trait {
                        let tr = tcx.impl_trait_ref(parent).instantiate_identity().skip_norm_wip();
                        o.set("trait", J::s(&self.p(tr.print_only_trait_path())));
                    }
                }
            }
        }
        match kind {
            DefKind::Static { .. } => {
                if let Ok(alloc) = tcx.eval_static_initializer(d) {
                    let a = alloc.inner();
                    o.set("value", self.decode(a, Size::ZERO, ty, 0));
                    o.set("size", J::n(a.len() as i128));
                }
            }
            _ => {
                if let Ok(cv) = tcx.const_eval_poly(d) {
                    o.set("value", self.const_value(cv, ty));
                }
            }
        }
        Some(o)
    }

    fn const_value(&self, cv: mir::ConstValue, ty: Ty<'tcx>) -> J {
        let tcx = self.tcx;
        match cv {
            mir::ConstValue::Scalar(Scalar::Int(i)) => {
                if ty.is_integral() || ty.is_bool() || ty.is_char() {
                    let size = i.size();
                    let bits = i.to_bits(size);
                    if ty.is_signed() {
                        J::n(size.sign_extend(bits) as i128)
                    } else {
                        J::big(bits)
                    }
                } else {
                    // newtype around a scalar: build a tiny allocation view
                    let size = i.size();
                    let bits = i.to_bits(size);
                    let mut bytes = vec![0u8; size.bytes() as usize];
                    for (k, b) in bytes.iter_mut().enumerate() {
                        *b = (bits >> (8 * k)) as u8;
                    }
                    self.decode_bytes(&bytes, None, Size::ZERO, ty, 0)
                }
            }
            mir::ConstValue::Scalar(Scalar::Ptr(ptr, _)) => {
                let (prov, off) = ptr.into_raw_parts();
                self.decode_ptr(prov.alloc_id(), off, ty, None, 0)
            }
            mir::ConstValue::ZeroSized => {
                let mut o = J::obj();
                o.set("zst", J::s(&self.p(ty)));
                if let ty::FnDef(d, args) = ty.kind() {
                    o.set("fn", J::s(&self.path_args(*d, args)));
                    o.set("fn_key", J::s(&self.key(*d)));
                }
                o
            }
            mir::ConstValue::Slice { alloc_id, meta } => {
                let a = tcx.global_alloc(alloc_id).unwrap_memory();
                let a = a.inner();
                let n = meta as usize;
                let pointee = match ty.kind() {
                    ty::Ref(_, t, _) => *t,
                    _ => ty,
                };
                match pointee.kind() {
                    ty::Str => {
                        let bytes = a.inspect_with_uninit_and_ptr_outside_interpreter(0..n);
                        J::s(&String::from_utf8_lossy(bytes))
                    }
                    ty::Slice(et) => {
                        let esz = tcx
                            .layout_of(TypingEnv::fully_monomorphized().as_query_input(*et))
                            .map(|l| l.size)
                            .unwrap_or(Size::ZERO);
                        let mut v = vec![];
                        for i in 0..n {
                            v.push(self.decode(a, esz * (i as u64), *et, 1));
                        }
                        let mut o = J::obj();
                        o.set("slice", J::arr(v));
                        o
                    }
                    _ => J::s("?slice"),
                }
            }
            mir::ConstValue::Indirect { alloc_id, offset } => {
                let a = tcx.global_alloc(alloc_id).unwrap_memory();
                self.decode(a.inner(), offset, ty, 0)
            }
        }
    }

    fn decode_ptr(&self, aid: AllocId, off: Size, ptr_ty: Ty<'tcx>, meta: Option<u64>, depth: usize) -> J {
        let tcx = self.tcx;
        let pointee = match ptr_ty.kind() {
            ty::Ref(_, t, _) => Some(*t),
            ty::RawPtr(t, _) => Some(*t),
            _ => None,
        };
        let mut o = J::obj();
        match tcx.global_alloc(aid) {
            GlobalAlloc::Static(sd) => {
                o.set("static", J::s(&self.path(sd)));
                o.set("static_key", J::s(&self.key(sd)));
                o.set("offset", J::n(off.bytes() as i128));
            }
            GlobalAlloc::Memory(a) => {
                if let Some(pt) = pointee {
                    if depth < 6 {
                        match pt.kind() {
                            ty::Slice(et) => {
                                let esz = tcx
                                    .layout_of(TypingEnv::fully_monomorphized().as_query_input(*et))
                                    .map(|l| l.size)
                                    .unwrap_or(Size::ZERO);
                                let n = meta.unwrap_or(0);
                                let mut v = vec![];
                                for i in 0..n {
                                    v.push(self.decode(a.inner(), off + esz * i, *et, depth + 1));
                                }
                                o.set("ref_slice", J::arr(v));
                            }
                            ty::Str => {
                                let n = meta.unwrap_or(0) as usize;
                                let s = off.bytes() as usize;
                                let bytes = a.inner().inspect_with_uninit_and_ptr_outside_interpreter(s..s + n);
                                o.set("ref_str", J::s(&String::from_utf8_lossy(bytes)));
                            }
                            _ => {
                                o.set("ref", self.decode(a.inner(), off, pt, depth + 1));
                            }
                        }
                    }
                }
            }
            GlobalAlloc::Function { instance } => {
                o.set("fn", J::s(&self.path_args(instance.def_id(), instance.args)));
            }
            _ => {
                o.set("other_alloc", J::b(true));
            }
        }
        o
    }

    fn decode(&self, a: &Allocation, off: Size, ty: Ty<'tcx>, depth: usize) -> J {
        let bytes = a.inspect_with_uninit_and_ptr_outside_interpreter(0..a.len());
        self.decode_bytes(bytes, Some(a), off, ty, depth)
    }

    fn decode_bytes(&self, bytes: &[u8], a: Option<&Allocation>, off: Size, ty: Ty<'tcx>, depth: usize) -> J {
        let tcx = self.tcx;
        let layout = match tcx.layout_of(TypingEnv::fully_monomorphized().as_query_input(ty)) {
            Ok(l) => l,
            Err(_) => return J::s("?layout"),
        };
        let o = off.bytes() as usize;
        let sz = layout.size.bytes() as usize;
        if o + sz > bytes.len() {
            return J::s("?oob");
        }
        let rd = |o: usize, n: usize| -> u128 {
            let mut v: u128 = 0;
            for k in 0..n {
                v |= (bytes[o + k] as u128) << (8 * k);
            }
            v
        };
        match ty.kind() {
            ty::Bool | ty::Char | ty::Uint(_) => J::big(rd(o, sz)),
            ty::Int(_) => J::n(Size::from_bytes(sz as u64).sign_extend(rd(o, sz)) as i128),
            ty::Array(et, _) => {
                let (stride, count) = match &layout.fields {
                    FieldsShape::Array { stride, count } => (*stride, *count),
                    _ => return J::s("?array"),
                };
                let mut v = Vec::with_capacity(count as usize);
                for i in 0..count {
                    v.push(self.decode_bytes(bytes, a, off + stride * i, *et, depth));
                }
                J::arr(v)
            }
            ty::Tuple(ts) => {
                let mut v = vec![];
                for (i, t) in ts.iter().enumerate() {
                    v.push(self.decode_bytes(bytes, a, off + layout.fields.offset(i), t, depth));
                }
                J::arr(v)
            }
            ty::Adt(adt, args) if adt.is_struct() => {
                let mut obj = J::obj();
                obj.set("adt", J::s(&self.path(adt.did())));
                let mut fo = J::obj();
                for (i, f) in adt.non_enum_variant().fields.iter().enumerate() {
                    let ft = f.ty(tcx, args);
                    let ft = tcx.normalize_erasing_regions(TypingEnv::fully_monomorphized(), ty::Unnormalized::new_wip(ft));
                    fo.set(f.name.as_str(), self.decode_bytes(bytes, a, off + layout.fields.offset(i), ft, depth));
                }
                obj.set("f", fo);
                obj
            }
            ty::Adt(adt, args) if adt.is_enum() => {
                // only decode single-variant or simple tagged enums with direct tag
                let mut obj = J::obj();
                obj.set("enum", J::s(&self.path(adt.did())));
                match &layout.variants {
                    Variants::Single { index } => {
                        let v = adt.variant(*index);
                        obj.set("variant", J::s(v.name.as_str()));
                        let mut fo = J::obj();
                        for (i, f) in v.fields.iter().enumerate() {
                            let ft = f.ty(tcx, args);
                            let ft = tcx.normalize_erasing_regions(TypingEnv::fully_monomorphized(), ty::Unnormalized::new_wip(ft));
                            fo.set(f.name.as_str(), self.decode_bytes(bytes, a, off + layout.fields.offset(i), ft, depth));
                        }
                        obj.set("f", fo);
                    }
                    _ => {
                        obj.set("raw", J::s(&hex(&bytes[o..o + sz])));
                    }
                }
                obj
            }
            ty::Ref(..) | ty::RawPtr(..) => {
                if let Some(al) = a {
                    let psz = tcx.data_layout.pointer_size().bytes() as usize;
                    if let Some(prov) = al.provenance().ptrs().get(&off) {
                        let addr = rd(o, psz) as u64;
                        let meta = if sz > psz { Some(rd(o + psz, psz) as u64) } else { None };
                        return self.decode_ptr(prov.alloc_id(), Size::from_bytes(addr), ty, meta, depth);
                    }
                }
                J::s("?ptr")
            }
            _ => {
                let mut obj = J::obj();
                obj.set("raw", J::s(&hex(&bytes[o..o + sz])));
                obj.set("ty", J::s(&self.p(ty)));
                obj
            }
        }
    }

    // ---------------------------------------------------------------- MIR

    fn body(&self, body: &Body<'tcx>, d: DefId) -> J {
        let mut o = J::obj();
        o.set("arg_count", J::n(body.arg_count as i128));
        if let Some(sa) = body.spread_arg {
            o.set("spread_arg", J::n(sa.as_usize() as i128));
        }
        let mut names: Vec<Option<String>> = vec![None; body.local_decls.len()];
        for vdi in &body.var_debug_info {
            if let VarDebugInfoContents::Place(p) = &vdi.value {
                if p.projection.is_empty() {
                    names[p.local.as_usize()] = Some(vdi.name.to_string());
                }
            }
        }
        let mut ls = vec![];
        for (i, l) in body.local_decls.iter_enumerated() {
            let mut lo = J::obj();
            lo.set("ty", J::s(&self.p(l.ty)));
            if let Some(n) = &names[i.as_usize()] {
                lo.set("name", J::s(n));
            }
            if l.mutability.is_mut() {
                lo.set("mut", J::b(true));
            }
            lo.set("line", J::n(self.line(l.source_info.span)));
            ls.push(lo);
        }
        o.set("locals", J::arr(ls));
        // upvar debug names for closures (captured variables)
        let mut upv = vec![];
        for vdi in &body.var_debug_info {
            if let VarDebugInfoContents::Place(p) = &vdi.value {
                if !p.projection.is_empty() {
                    upv.push(J::arr(vec![J::s(vdi.name.as_str()), self.place(p)]));
                }
            }
        }
        if !upv.is_empty() {
            o.set("debug_places", J::arr(upv));
        }
        let mut bs = vec![];
        for (_bb, data) in body.basic_blocks.iter_enumerated() {
            let mut bo = J::obj();
            if data.is_cleanup {
                bo.set("cleanup", J::b(true));
            }
            let mut ss = vec![];
            for st in &data.statements {
                if let Some(j) = self.stmt(st, body) {
                    ss.push(j);
                }
            }
            bo.set("s", J::arr(ss));
            if let Some(t) = &data.terminator {
                bo.set("t", self.term(t, body, d));
            }
            bs.push(bo);
        }
        o.set("blocks", J::arr(bs));
        o
    }

    fn line(&self, sp: Span) -> i128 {
        // for macro expansions use the outermost call site
        let sp = sp.source_callsite();
        self.tcx.sess.source_map().lookup_char_pos(sp.lo()).line as i128
    }

    fn place(&self, p: &Place<'tcx>) -> J {
        let mut proj = vec![];
        for e in p.projection.iter() {
            proj.push(match e {
                ProjectionElem::Deref => J::s("*"),
                ProjectionElem::Field(f, t) => J::arr(vec![J::s("f"), J::n(f.as_usize() as i128), J::s(&self.p(t))]),
                ProjectionElem::Index(l) => J::arr(vec![J::s("i"), J::n(l.as_usize() as i128)]),
                ProjectionElem::ConstantIndex { offset, min_length, from_end } => J::arr(vec![
                    J::s("ci"),
                    J::n(offset as i128),
                    J::n(min_length as i128),
                    J::b(from_end),
                ]),
                ProjectionElem::Subslice { from, to, from_end } => {
                    J::arr(vec![J::s("sub"), J::n(from as i128), J::n(to as i128), J::b(from_end)])
                }
                ProjectionElem::Downcast(_, v) => J::arr(vec![J::s("dc"), J::n(v.as_usize() as i128)]),
                ProjectionElem::OpaqueCast(t) => J::arr(vec![J::s("oc"), J::s(&self.p(t))]),
                ProjectionElem::UnwrapUnsafeBinder(t) => J::arr(vec![J::s("ub"), J::s(&self.p(t))]),
            });
        }
        J::arr(vec![J::n(p.local.as_usize() as i128), J::arr(proj)])
    }

    fn operand(&self, op: &Operand<'tcx>, body: &Body<'tcx>) -> J {
        match op {
            Operand::Copy(p) => J::arr(vec![J::s("c"), self.place(p)]),
            Operand::Move(p) => J::arr(vec![J::s("m"), self.place(p)]),
            Operand::Constant(c) => J::arr(vec![J::s("k"), self.constant(c, body)]),
            #[allow(unreachable_patterns)]
            _ => J::arr(vec![J::s("?op"), J::s(&self.dbg(op))]),
        }
    }

    fn constant(&self, c: &ConstOperand<'tcx>, _body: &Body<'tcx>) -> J {
        let tcx = self.tcx;
        let ty = c.const_.ty();
        let mut o = J::obj();
        o.set("ty", J::s(&self.p(ty)));
        // named constant / promoted?
        match c.const_ {
            mir::Const::Unevaluated(uv, _) => {
                if let Some(p) = uv.promoted {
                    o.set("promoted", J::n(p.as_usize() as i128));
                } else {
                    o.set("def", J::s(&self.path(uv.def)));
                    o.set("def_key", J::s(&self.key(uv.def)));
                }
            }
            mir::Const::Ty(_, ct) => {
                if let ty::ConstKind::Param(p) = ct.kind() {
                    o.set("param", J::s(p.name.as_str()));
                    return o;
                }
            }
            _ => {}
        }
        if let ty::FnDef(d, args) = ty.kind() {
            o.set("fn", J::s(&self.path_args(*d, args)));
            o.set("fn_key", J::s(&self.key(*d)));
            // resolve trait-method items (e.g. `BatchCompressState::from` passed to `map`) to their impl
            use rustc_middle::ty::TypeVisitableExt;
            if !args.has_non_region_param() {
                let env = TypingEnv::fully_monomorphized();
                let r = std::panic::catch_unwind(std::panic::AssertUnwindSafe(|| Instance::try_resolve(tcx, env, *d, args)));
                if let Ok(Ok(Some(inst))) = r {
                    o.set("fn_resolved_key", J::s(&self.key(inst.def_id())));
                    o.set("fn_resolved", J::s(&self.path(inst.def_id())));
                }
            }
            return o;
        }
        // Evaluate when monomorphic.
        let needs_subst = {
            use rustc_middle::ty::TypeVisitableExt;
            c.const_.has_non_region_param()
        };
        if needs_subst {
            o.set("generic", J::b(true));
            // constants inside generic functions usually do not depend on the parameters (promoted `&CONST`):
            // try to evaluate them in the body's own typing environment
            if !{
                use rustc_middle::ty::TypeVisitableExt;
                ty.has_non_region_param()
            } {
                let env = TypingEnv::post_analysis(tcx, _body.source.def_id());
                let r = std::panic::catch_unwind(std::panic::AssertUnwindSafe(|| c.const_.eval(tcx, env, c.span)));
                if let Ok(Ok(cv)) = r {
                    o.set("v", self.const_value(cv, ty));
                }
            }
            return o;
        }
        let env = TypingEnv::fully_monomorphized();
        match c.const_.eval(tcx, env, c.span) {
            Ok(cv) => {
                o.set("v", self.const_value(cv, ty));
            }
            Err(_) => {
                o.set("eval_err", J::b(true));
            }
        }
        o
    }

    fn stmt(&self, st: &Statement<'tcx>, body: &Body<'tcx>) -> Option<J> {
        let line = self.line(st.source_info.span);
        let exp = st.source_info.span.from_expansion();
        let j = match &st.kind {
            StatementKind::Assign(b) => {
                let (p, rv) = &**b;
                J::arr(vec![J::s("="), self.place(p), self.rvalue(rv, body), J::n(line), J::b(exp)])
            }
            StatementKind::SetDiscriminant { place, variant_index } => J::arr(vec![
                J::s("setdisc"),
                self.place(place),
                J::n(variant_index.as_usize() as i128),
                J::n(line),
            ]),
            StatementKind::StorageDead(l) => J::arr(vec![J::s("dead"), J::n(l.as_usize() as i128)]),
            StatementKind::StorageLive(l) => J::arr(vec![J::s("live"), J::n(l.as_usize() as i128)]),
            StatementKind::Intrinsic(b) => match &**b {
                NonDivergingIntrinsic::Assume(op) => J::arr(vec![J::s("assume"), self.operand(op, body)]),
                NonDivergingIntrinsic::CopyNonOverlapping(c) => J::arr(vec![
                    J::s("copy_nonoverlapping"),
                    self.operand(&c.src, body),
                    self.operand(&c.dst, body),
                    self.operand(&c.count, body),
                ]),
            },
            _ => return None,
        };
        Some(j)
    }

    fn rvalue(&self, rv: &Rvalue<'tcx>, body: &Body<'tcx>) -> J {
        match rv {
            Rvalue::Use(op, ..) => J::arr(vec![J::s("use"), self.operand(op, body)]),
            Rvalue::Repeat(op, n) => {
                let cnt = n.try_to_target_usize(self.tcx).map(|v| J::n(v as i128)).unwrap_or(J::s(&self.p(*n)));
                J::arr(vec![J::s("repeat"), self.operand(op, body), cnt])
            }
            Rvalue::Ref(_, bk, p) => J::arr(vec![
                J::s("ref"),
                J::s(match bk {
                    BorrowKind::Shared => "shared",
                    BorrowKind::Fake(_) => "fake",
                    BorrowKind::Mut { .. } => "mut",
                }),
                self.place(p),
            ]),
            Rvalue::RawPtr(k, p) => J::arr(vec![J::s("rawptr"), J::s(&format!("{:?}", k)), self.place(p)]),
            Rvalue::Cast(k, op, t) => J::arr(vec![
                J::s("cast"),
                J::s(&format!("{:?}", k)),
                self.operand(op, body),
                J::s(&self.p(*t)),
            ]),
            Rvalue::BinaryOp(op, b) => {
                let (l, r) = &**b;
                J::arr(vec![J::s("bin"), J::s(&format!("{:?}", op)), self.operand(l, body), self.operand(r, body)])
            }
            Rvalue::UnaryOp(op, a) => J::arr(vec![J::s("un"), J::s(&format!("{:?}", op)), self.operand(a, body)]),
            Rvalue::Discriminant(p) => J::arr(vec![J::s("disc"), self.place(p)]),
            Rvalue::Aggregate(k, ops) => {
                let kind = match &**k {
                    AggregateKind::Array(t) => J::arr(vec![J::s("array"), J::s(&self.p(*t))]),
                    AggregateKind::Tuple => J::arr(vec![J::s("tuple")]),
                    AggregateKind::Adt(d, v, args, _, uf) => J::arr(vec![
                        J::s("adt"),
                        J::s(&self.path(*d)),
                        J::n(v.as_usize() as i128),
                        J::s(&self.path_args(*d, args)),
                        match uf {
                            Some(f) => J::n(f.as_usize() as i128),
                            None => J::null(),
                        },
                    ]),
                    AggregateKind::Closure(d, _args) => J::arr(vec![J::s("closure"), J::s(&self.key(*d))]),
                    AggregateKind::Coroutine(d, _) => J::arr(vec![J::s("coroutine"), J::s(&self.key(*d))]),
                    AggregateKind::CoroutineClosure(d, _) => J::arr(vec![J::s("coroutine_closure"), J::s(&self.key(*d))]),
                    AggregateKind::RawPtr(t, _) => J::arr(vec![J::s("rawptr"), J::s(&self.p(*t))]),
                };
                J::arr(vec![J::s("agg"), kind, J::arr(ops.iter().map(|o| self.operand(o, body)).collect())])
            }
            Rvalue::CopyForDeref(p) => J::arr(vec![J::s("use"), J::arr(vec![J::s("c"), self.place(p)])]),
            Rvalue::ThreadLocalRef(d) => J::arr(vec![J::s("tls"), J::s(&self.path(*d))]),
            Rvalue::WrapUnsafeBinder(op, t) => J::arr(vec![J::s("wrapub"), self.operand(op, body), J::s(&self.p(*t))]),
            #[allow(unreachable_patterns)]
            _ => J::arr(vec![J::s("?rv"), J::s(&self.dbg(rv))]),
        }
    }

    fn term(&self, t: &Terminator<'tcx>, body: &Body<'tcx>, owner: DefId) -> J {
        let tcx = self.tcx;
        let line = self.line(t.source_info.span);
        let exp = t.source_info.span.from_expansion();
        let mut o = J::obj();
        o.set("line", J::n(line));
        if exp {
            o.set("exp", J::b(true));
        }
        let unwind_j = |u: &UnwindAction| -> J {
            match u {
                UnwindAction::Cleanup(bb) => J::n(bb.as_usize() as i128),
                UnwindAction::Continue => J::s("continue"),
                UnwindAction::Unreachable => J::s("unreachable"),
                UnwindAction::Terminate(_) => J::s("terminate"),
            }
        };
        match &t.kind {
            TerminatorKind::Goto { target } => {
                o.set("k", J::s("goto"));
                o.set("target", J::n(target.as_usize() as i128));
            }
            TerminatorKind::SwitchInt { discr, targets } => {
                o.set("k", J::s("switch"));
                o.set("discr", self.operand(discr, body));
                o.set("discr_ty", J::s(&self.p(discr.ty(body, tcx))));
                let mut ts = vec![];
                for (v, bb) in targets.iter() {
                    ts.push(J::arr(vec![J::big(v), J::n(bb.as_usize() as i128)]));
                }
                o.set("targets", J::arr(ts));
                o.set("otherwise", J::n(targets.otherwise().as_usize() as i128));
            }
            TerminatorKind::Return => {
                o.set("k", J::s("return"));
            }
            TerminatorKind::Unreachable => {
                o.set("k", J::s("unreachable"));
            }
            TerminatorKind::UnwindResume => {
                o.set("k", J::s("resume"));
            }
            TerminatorKind::UnwindTerminate(_) => {
                o.set("k", J::s("terminate"));
            }
            TerminatorKind::Drop { place, target, unwind, .. } => {
                o.set("k", J::s("drop"));
                o.set("place", self.place(place));
                o.set("place_ty", J::s(&self.p(place.ty(body, tcx).ty)));
                o.set("target", J::n(target.as_usize() as i128));
                o.set("unwind", unwind_j(unwind));
            }
            TerminatorKind::Assert { cond, expected, msg, target, unwind } => {
                o.set("k", J::s("assert"));
                o.set("cond", self.operand(cond, body));
                o.set("expected", J::b(*expected));
                let (mk, mops): (&str, Vec<&Operand<'tcx>>) = match &**msg {
                    AssertKind::BoundsCheck { len, index } => ("bounds", vec![len, index]),
                    AssertKind::Overflow(op, a, b) => {
                        o.set("op", J::s(&format!("{:?}", op)));
                        ("overflow", vec![a, b])
                    }
                    AssertKind::OverflowNeg(a) => ("overflow_neg", vec![a]),
                    AssertKind::DivisionByZero(a) => ("div_zero", vec![a]),
                    AssertKind::RemainderByZero(a) => ("rem_zero", vec![a]),
                    AssertKind::MisalignedPointerDereference { .. } => ("misaligned", vec![]),
                    AssertKind::NullPointerDereference => ("null_deref", vec![]),
                    _ => ("other", vec![]),
                };
                o.set("msg", J::s(mk));
                o.set("msg_ops", J::arr(mops.into_iter().map(|x| self.operand(x, body)).collect()));
                o.set("target", J::n(target.as_usize() as i128));
                o.set("unwind", unwind_j(unwind));
            }
            TerminatorKind::Call { func, args, destination, target, unwind, .. } => {
                o.set("k", J::s("call"));
                o.set("dest", self.place(destination));
                match target {
                    Some(t) => o.set("target", J::n(t.as_usize() as i128)),
                    None => o.set("target", J::null()),
                }
                o.set("unwind", unwind_j(unwind));
                o.set("args", J::arr(args.iter().map(|a| self.operand(&a.node, body)).collect()));
                o.set(
                    "arg_tys",
                    J::arr(args.iter().map(|a| J::s(&self.p(a.node.ty(body, tcx)))).collect()),
                );
                let fty = func.ty(body, tcx);
                if let ty::FnDef(cd, cargs) = fty.kind() {
                    o.set("callee", J::s(&self.path(*cd)));
                    o.set("callee_key", J::s(&self.key(*cd)));
                    o.set("callee_full", J::s(&self.path_args(*cd, cargs)));
                    // generic args (types as strings; consts evaluated)
                    let mut ga = vec![];
                    for a in cargs.iter() {
                        if let Some(t) = a.as_type() {
                            ga.push(J::s(&self.p(t)));
                        } else if let Some(c) = a.as_const() {
                            match c.try_to_target_usize(tcx) {
                                Some(v) => ga.push(J::arr(vec![J::s("const"), J::n(v as i128)])),
                                None => match c.try_to_leaf() {
                                    Some(si) => {
                                        let sz = si.size();
                                        ga.push(J::arr(vec![J::s("const"), J::big(si.to_bits(sz))]))
                                    }
                                    None => ga.push(J::arr(vec![J::s("constparam"), J::s(&self.p(c))])),
                                },
                            }
                        }
                    }
                    o.set("gargs", J::arr(ga));
                    // resolve
                    let env = TypingEnv::post_analysis(tcx, owner);
                    let resolved = std::panic::catch_unwind(std::panic::AssertUnwindSafe(|| {
                        Instance::try_resolve(tcx, env, *cd, cargs)
                    }));
                    match resolved {
                        Ok(Ok(Some(inst))) => {
                            let rd = inst.def_id();
                            let mut r = J::obj();
                            r.set("path", J::s(&self.path(rd)));
                            r.set("key", J::s(&self.key(rd)));
                            r.set("full", J::s(&self.path_args(rd, inst.args)));
                            {
                                let mut ga = vec![];
                                for a in inst.args.iter() {
                                    if let Some(t) = a.as_type() {
                                        ga.push(J::s(&self.p(t)));
                                    } else if let Some(c) = a.as_const() {
                                        match c.try_to_target_usize(tcx) {
                                            Some(v) => ga.push(J::arr(vec![J::s("const"), J::n(v as i128)])),
                                            None => match c.try_to_leaf() {
                                                Some(si) => {
                                                    let sz = si.size();
                                                    ga.push(J::arr(vec![J::s("const"), J::big(si.to_bits(sz))]))
                                                }
                                                None => ga.push(J::arr(vec![J::s("constparam"), J::s(&self.p(c))])),
                                            },
                                        }
                                    }
                                }
                                r.set("gargs", J::arr(ga));
                            }
                            r.set("kind", J::s(match inst.def {
                                ty::InstanceKind::Item(_) => "item",
                                ty::InstanceKind::Intrinsic(_) => "intrinsic",
                                ty::InstanceKind::Virtual(..) => "virtual",
                                ty::InstanceKind::ClosureOnceShim { .. } => "closure_once_shim",
                                ty::InstanceKind::DropGlue(..) => "drop_glue",
                                ty::InstanceKind::CloneShim(..) => "clone_shim",
                                ty::InstanceKind::FnPtrShim(..) => "fnptr_shim",
                                ty::InstanceKind::ReifyShim(..) => "reify_shim",
                                _ => "other",
                            }));
                            r.set("local", J::b(rd.is_local()));
                            // self type for impl methods
                            if let Some(p) = tcx.opt_parent(rd) {
                                if let DefKind::Impl { of_trait } = tcx.def_kind(p) {
                                    let st = tcx.type_of(p).instantiate_identity().skip_norm_wip();
                                    r.set("self_ty", J::s(&self.p(st)));
                                    if of_trait {
                                        let tr = tcx.impl_trait_ref(p).instantiate_identity().skip_norm_wip();
                                        r.set("trait", J::s(&self.p(tr.print_only_trait_path())));
                                    }
                                }
                            }
                            o.set("resolved", r);
                        }
                        _ => {
                            o.set("resolved", J::null());
                        }
                    }
                    // trait method? record the trait
                    if let Some(p) = tcx.opt_parent(*cd) {
                        if tcx.def_kind(p) == DefKind::Trait {
                            o.set("callee_trait", J::s(&self.path(p)));
                        }
                    }
                } else {
                    o.set("callee_op", self.operand(func, body));
                    o.set("callee_ty", J::s(&self.p(fty)));
                }
            }
            TerminatorKind::FalseEdge { real_target, .. } => {
                o.set("k", J::s("goto"));
                o.set("target", J::n(real_target.as_usize() as i128));
            }
            TerminatorKind::FalseUnwind { real_target, .. } => {
                o.set("k", J::s("goto"));
                o.set("target", J::n(real_target.as_usize() as i128));
            }
            other => {
                o.set("k", J::s("other"));
                let mut s = String::new();
                let _ = write!(s, "{:?}", other);
                o.set("dbg", J::s(&s));
            }
        }
        o
    }
}

fn hex(b: &[u8]) -> String {
    let mut s = String::with_capacity(b.len() * 2);
    for x in b {
        let _ = write!(s, "{:02x}", x);
    }
    s
}
