// Minimal JSON value + serializer (no dependencies).
pub enum J {
    Null,
    Bool(bool),
    Num(String),
    Str(String),
    Arr(Vec<J>),
    Obj(Vec<(String, J)>),
}

impl J {
    pub fn null() -> J {
        J::Null
    }
    pub fn b(v: bool) -> J {
        J::Bool(v)
    }
    pub fn n(v: i128) -> J {
        J::Num(v.to_string())
    }
    pub fn big(v: u128) -> J {
        J::Num(v.to_string())
    }
    pub fn s(v: &str) -> J {
        J::Str(v.to_string())
    }
    pub fn arr(v: Vec<J>) -> J {
        J::Arr(v)
    }
    pub fn obj() -> J {
        J::Obj(Vec::new())
    }
    pub fn set(&mut self, k: &str, v: J) {
        if let J::Obj(o) = self {
            o.push((k.to_string(), v));
        }
    }
    pub fn to_string(&self) -> String {
        let mut s = String::new();
        self.write(&mut s);
        s
    }
    fn write(&self, out: &mut String) {
        match self {
            J::Null => out.push_str("null"),
            J::Bool(b) => out.push_str(if *b { "true" } else { "false" }),
            J::Num(n) => out.push_str(n),
            J::Str(s) => esc(s, out),
            J::Arr(v) => {
                out.push('[');
                for (i, x) in v.iter().enumerate() {
                    if i > 0 {
                        out.push(',');
                    }
                    x.write(out);
                }
                out.push(']');
            }
            J::Obj(v) => {
                out.push('{');
                for (i, (k, x)) in v.iter().enumerate() {
                    if i > 0 {
                        out.push(',');
                    }
                    esc(k, out);
                    out.push(':');
                    x.write(out);
                }
                out.push('}');
            }
        }
    }
}

fn esc(s: &str, out: &mut String) {
    out.push('"');
    for c in s.chars() {
        match c {
            '"' => out.push_str("\\\""),
            '\\' => out.push_str("\\\\"),
            '\n' => out.push_str("\\n"),
            '\r' => out.push_str("\\r"),
            '\t' => out.push_str("\\t"),
            c if (c as u32) < 0x20 => {
                out.push_str(&format!("\\u{:04x}", c as u32));
            }
            c => out.push(c),
        }
    }
    out.push('"');
}
