"""C02 - scalar arithmetic mod l, canonical output.  NOT decided: that the limb kernels add, sub (and with them the final
conditional subtraction of montgomery_reduce) compute the exact value (assumption A1).  mul_internal / square_internal are decided
exact and montgomery_reduce is decided to divide by R modulo l up to that subtraction (KERNEL, polynomial limb domain).  Decided
here, each a necessary condition of the statement:

 MAGNITUDE  every call of montgomery_reduce, in every context reachable from the public Scalar API, receives a value
            below l * R (R = 2^260 / 2^261): only then does its single conditional subtraction return the canonical
            representative (interval abstract interpretation; the bound is computed from the limb intervals).
 CHAIN      the inversion addition chain raises to exactly l - 2 (monomial domain, lib/eng_expchain.py).
 CANON      every raw construction `Scalar { bytes }` in the three crates is one of the reviewed kinds (output of pack(),
            guarded canonical decoder, reducing decoder immediately followed by reduce(), integer conversion, select,
            documented clamped multiplier); every pack() receives the result of a reducing kernel.
 DECODE     from_canonical_bytes: the CtOption flag depends on is_canonical; is_canonical compares self with self.reduce().
 INT        From<u8..u128> writes the integer's little-endian bytes at offset 0 of a zeroed array.
"""
import re
import ctx
from mirlib import view, cname, expr_of, root
from eng_absint import Driver
from eng_expchain import run_chain, exponents
import oracle as O
import ex

LEVEL = "other"
TECHNIQUE = ("MONT (Montgomery radix as a symbol), LIMBPOLY (exact products), BITS (byte <-> limb codecs) abstract domains on the MIR interpreter; ABSINT interval analysis with a magnitude contract at every montgomery_reduce call + EXPCHAIN monomial domain over the inversion chain + "
             "constructor / pack() inventory and decoder flag rules over resolved MIR (PATH); serial u64 and u32 scalar backends")

L = O.L
SC = "curve25519_dalek::scalar::Scalar"

REDUCING = r"::(add|sub|mul|square|montgomery_mul|montgomery_square|montgomery_reduce|from_montgomery|as_montgomery|invert|montgomery_invert|from_bytes_wide)$"

# reviewed raw constructions of Scalar { bytes }: (function path regex, kind, reason)
CLAMPED_RX = r"(edwards::EdwardsPoint|montgomery::MontgomeryPoint|traits::BasepointTable)::mul(_base)?_clamped$"
AGG_OK = [
    (r"scalar::<impl .*Scalar(52|29)>::pack$", "pack", "bytes = as_bytes() of the unpacked value (reducedness is the CANON.pack rule)"),
    (r"scalar::Scalar as core::convert::From<u(8|16|32|64|128)>>::from$", "int", "little-endian bytes of an integer below 2^128 < l (rule INT)"),
    (r"scalar::Scalar as group::ff::PrimeField>::from_repr_vartime$", "guarded", "guard decided by C17 (high-bit test and equality with reduce dominate Some)"),
    (r"scalar::Scalar as subtle::ConditionallySelectable>::conditional_select$", "select", "byte-wise select between two scalars"),
    (r"(edwards::EdwardsPoint|montgomery::MontgomeryPoint|traits::BasepointTable)::mul(_base)?_clamped$", "clamped", "documented unreduced multiplier clamp_integer(bytes) < 2^255, used only as a multiplier (C07)"),
    (r"scalar::Scalar::from_bytes_mod_order$", "then-reduce", "raw bytes, must be followed by reduce() (checked)"),
    (r"scalar::Scalar::from_canonical_bytes$", "guarded-canonical", "candidate wrapped in CtOption with the canonicity flag (rule DECODE)"),
    (r"scalar::Scalar::from_bits(_clamped)?$", "legacy", "legacy_compatibility only: documented as possibly unreduced (Scalar invariant #1 only)"),
    (r"scalar::Scalar as (zeroize::Zeroize|core::default::Default)", "zero", "the zero scalar"),
]


def run(tier, R):
    cfgs = [("serial64", "checked", "u64"), ("serial32", "checked", "u32")]
    if tier == "thorough":
        cfgs += [("simd", "checked", "u64"), ("simd-legacy", "checked", "u64")]
    FS = ctx.facts_for(R, [(c, m) for c, m, _ in cfgs])
    R.trust("rustc MIR; mirfacts; lib/absint.py + models; lib/eng_expchain.py transfer functions (mul adds exponents, square doubles)")
    R.assume("A1/A2 as in C11 (conditional subtraction yields < l; Karatsuba column sums are the true sums)")
    R.assume("Montgomery theory: for an input T < l*R and LFACTOR = -l^-1 mod 2^limb (C12), (T + n*l)/R < 2l, so one conditional subtraction of l is canonical")
    R.assume("MONT: mul_internal = product, montgomery_reduce = division by R, montgomery_invert(x) = R^2/x (its chain is C02.chain), from_montgomery = division by R (documented contracts; limb code not entered)")
    R.note("NOT decided: numerical exactness of mul_internal / square_internal / montgomery_reduce / add / sub (value-level); constants L, LFACTOR, R, RR are C12's")
    for cfg, mode, backend in cfgs:
        F = FS.get((cfg, mode))
        if F is None:
            continue
        I = lambda s, c=cfg: "%s:%s" % (c, s)
        magnitude(F, R, I, backend)
        chain(F, R, I)
        canon(F, R, I)
        decode(F, R, I)
        ints(F, R, I)
        mont(F, R, I)
        operands(F, R, I)


# ------------------------------------------------------------------------------------------------------------ OPERANDS
def operands(F, R, I):
    """add(a, b) and sub(a, b) of the unpacked scalar type return a canonical value only for a + b - l in (-l, l) resp. a - b in (-l, l): a
    *constant* operand must respect that for every value of the other one (in [0, l)): both constants of add and the minuend of sub must be
    below l (the subtrahend may be l itself: `sub(x, L)` is the conditional subtraction of montgomery_reduce / add)."""
    import eng_mont as MT
    from absint import Interp
    lb, nl = MT.backend(F)
    ip = Interp(F, None)
    n = nconst = 0
    for f in sorted(F.fns.values(), key=lambda f: f["key"]):
        if "mir" not in f or f["crate"] != "curve25519_dalek":
            continue
        fv = view(F, f)
        for bi, t in fv.calls:
            m = re.search(r"scalar::Scalar(52|29)::(add|sub)$", cname(t))
            if not m:
                continue
            n += 1
            for ai, a in enumerate(t["args"][:2]):
                e = ex.strip(expr_of(fv, a, 6))
                if e[0] != "const" or len(e) < 4:
                    continue
                val = None
                try:
                    if isinstance(e[1], dict):
                        # an evaluated constant (possibly behind a promoted reference): {'ref': {'adt': .., 'f': {'0': [limbs]}}}
                        d = e[1].get("ref", e[1])
                        limbs = d["f"]["0"]
                        val = sum(int(x) << (lb * i) for i, x in enumerate(limbs))
                    elif e[3] is not None:
                        cs = F.const_by_path.get(str(e[3]))
                        v = ip.deconst(ip.from_json(cs[0]["value"], cs[0].get("ty", "")))
                        val = sum(x[1] << (lb * i) for i, x in enumerate(v[1][0][1]))
                except (KeyError, IndexError, TypeError, AttributeError):
                    val = None
                if val is None:
                    continue
                nconst += 1
                inst = I("%s(%s)@%s" % (m.group(2), "minuend" if ai == 0 and m.group(2) == "sub" else ("subtrahend" if m.group(2) == "sub" else "operand %d" % ai), short(f)))
                limit_ok = val <= L if (m.group(2) == "sub" and ai == 1) else val < L
                (R.ok if limit_ok else R.viol)("C02.canon.operand", inst, ("constant operand %d %s l" % (val, "<=" if val == L else "<")) if limit_ok else
                                               "the constant %d (>= l) is used as %s: for the other operand 0 the result is l itself, not a canonical scalar" % (
                                                   val, "the minuend of sub" if m.group(2) == "sub" else "an operand of add"), *(() if limit_ok else (fv.loc(t["line"]),)))
    R.floor("C02.canon.operand", I("add / sub call sites of the unpacked scalar type scanned"), n, 4)
    R.floor("C02.canon.operand", I("constant operands checked"), nconst, 2)


# ------------------------------------------------------------------------------------------------------------ MONT
def mont(F, R, I):
    """MONT domain (lib/eng_mont.py): fractions with the Montgomery radix as a symbol; every public scalar operation returns the plain value
    (no stray factor of R), batch_invert replaces every entry by its inverse and returns the inverse of the product."""
    import eng_mont as MT
    from eng_formula import fvar, fadd, fmul, finv, fneg, is_zero, show
    a, b = fvar("a"), fvar("b")
    SC = r"[\w:]*Scalar"
    cases = [("&Scalar * &Scalar", r"<&'a %s as core::ops::Mul<&'b %s>>::mul$" % (SC, SC), [a, b], fmul(a, b)),
             ("&Scalar + &Scalar", r"<&'a %s as core::ops::Add<&'b %s>>::add$" % (SC, SC), [a, b], fadd(a, b)),
             ("&Scalar - &Scalar", r"<&'a %s as core::ops::Sub<&'b %s>>::sub$" % (SC, SC), [a, b], fadd(a, b, -1)),
             ("-&Scalar", r"<&'a %s as core::ops::Neg>::neg$" % SC, [a], fneg(a)),
             ("Scalar::reduce", r"scalar::Scalar::reduce$", [a], a),
             ("Scalar::invert", r"scalar::Scalar::invert$", [a], finv(a)),
             ("UnpackedScalar::mul", r"scalar::Scalar(52|29)::mul$", [a, b], fmul(a, b)),
             ("UnpackedScalar::square", r"scalar::Scalar(52|29)::square$", [a], fmul(a, a)),
             ("UnpackedScalar::as_montgomery", r"scalar::Scalar(52|29)::as_montgomery$", [a], fmul(a, fvar("R")))]
    n = 0

    def one(rx):
        fs = [f for f in F.fns.values() if "mir" in f and f["kind"] != "Closure" and re.search(rx, f["path"])]
        return fs[0] if len(fs) == 1 else None
    for name, rx, args, want in cases:
        f = one(rx)
        if f is None:
            R.anchor_missing("C02.mont", I(name), "function not found / ambiguous")
            continue
        n += 1
        try:
            ret, ip, root = MT.run(F, f, args)
        except Exception as e:
            R.viol("C02.mont", I(name), "analysis failed: %r" % (e,), F.loc(f))
            continue
        ok = ret is not None and ret[0] == "fe" and is_zero(fadd(ret, want, -1))
        (R.ok if ok else R.viol)("C02.mont", I(name), ("= %s (%d Montgomery-level operations)" % (show(want), ip.models.ops)) if ok else
                                 "returns %s, expected %s" % (show(ret) if ret is not None and ret[0] == "fe" else "a value outside the domain", show(want)), *(() if ok else (F.loc(f),)))
    f = one(r"scalar::Scalar(52|29)::from_bytes_wide$")
    if f is None:
        R.anchor_missing("C02.mont", I("UnpackedScalar::from_bytes_wide"), "function not found")
    else:
        n += 1
        from absint import I as Iv
        try:
            ret, ip, root = MT.run(F, f, [("arr", (Iv(0, 255),) * 64)], fresh=["lo", "hi"])
            want = fadd(fvar("lo"), fmul(fvar("hi"), fvar("R")))
            ok = ret is not None and ret[0] == "fe" and is_zero(fadd(ret, want, -1)) and not ip.models.fresh
            msg = "= lo + hi R for the two limb vectors it assembles (which input bits they hold is C02.codec)" if ok else \
                "returns %s, expected lo + hi R" % (show(ret) if ret is not None and ret[0] == "fe" else "a value outside the domain")
        except Exception as e:
            ok, msg = False, "analysis failed: %r" % (e,)
        (R.ok if ok else R.viol)("C02.mont", I("UnpackedScalar::from_bytes_wide"), msg, *(() if ok else (F.loc(f),)))
    f = one(r"scalar::Scalar::batch_invert$")
    if f is None:
        R.anchor_missing("C02.mont", I("Scalar::batch_invert"), "function not found")
    else:
        n += 1
        bad = []
        for k in range(5):
            xs = [fvar("x%d" % i) for i in range(k)]
            try:
                ret, ip, root = MT.run(F, f, [("arr", tuple(xs))])
            except Exception as e:
                bad.append("n=%d: analysis failed: %r" % (k, e))
                continue
            prod = None
            for x in xs:
                prod = x if prod is None else fmul(prod, x)
            want_ret = finv(prod) if prod is not None else fadd(a, a, -1)
            if k == 0:
                from eng_formula import fconst
                want_ret = fconst(1)
            out = root.get(0)
            if ret is None or ret[0] != "fe" or not is_zero(fadd(ret, want_ret, -1)):
                bad.append("n=%d: returns %s, expected the inverse of the product" % (k, show(ret) if ret is not None and ret[0] == "fe" else "?"))
            for i, x in enumerate(xs):
                got = out[1][i] if out and out[0] == "arr" and len(out[1]) == k else None
                if got is None or got[0] != "fe" or not is_zero(fadd(got, finv(x), -1)):
                    bad.append("n=%d: element %d becomes %s, expected its inverse" % (k, i, show(got) if got is not None and got[0] == "fe" else "?"))
        (R.viol if bad else R.ok)("C02.mont", I("Scalar::batch_invert"), bad[0] if bad else "slices of 0..4 non-zero scalars: every entry becomes its inverse, the return value is the inverse of the product",
                                  *((F.loc(f),) if bad else ()))
    # Sum / Product over iterators of 0..3 symbolic scalars: the fold returns the ring sum / product (round-7 seed C02.7: a hand-written
    # wide accumulator in Sum that loses a carry; the only forms decided are compositions of the Scalar ring operations)
    from absint import I as Iv2
    from eng_formula import fconst as fc2
    for nm, rx, op, unit in (("Scalar::sum", r"scalar::Scalar as core::iter::Sum<T>>::sum$", fadd, 0), ("Scalar::product", r"scalar::Scalar as core::iter::Product<T>>::product$", fmul, 1)):
        f = one(rx)
        if f is None:
            R.anchor_missing("C02.mont", I(nm), "function not found")
            continue
        n += 1
        bad = []
        for k in range(4):
            xs = [fvar("x%d" % i) for i in range(k)]
            try:
                ret, ip, root = MT.run(F, f, [("it", "vals", ("arr", tuple(xs)), Iv2(0), Iv2(k))])
            except Exception as e:
                bad.append("n=%d: analysis failed: %r" % (k, e))
                continue
            if k == 0:
                v = ret
                while v is not None and v[0] == "st" and len(v[1]) == 1:
                    v = v[1][0]
                okk = v is not None and v[0] == "arr" and len(v[1]) == 32 and all(x[0] == "i" and x[1] == x[2] for x in v[1]) and \
                    sum(x[1] << (8 * j) for j, x in enumerate(v[1])) == unit
                if not okk and not (ret is not None and ret[0] == "fe" and is_zero(fadd(ret, fc2(unit), -1))):
                    lit = v is not None and v[0] == "arr" and all(x[0] == "i" and x[1] == x[2] for x in v[1])
                    bad.append(("n=0: the empty %s is not %d" % ("sum" if unit == 0 else "product", unit)) if lit or (ret is not None and ret[0] == "fe") else
                               "n=0: the result is neither a literal nor a composition of scalar ring operations (undecided form)")
                continue
            want = xs[0]
            for x in xs[1:]:
                want = op(want, x)
            if ret is None or ret[0] != "fe" or not is_zero(fadd(ret, want, -1)):
                bad.append("n=%d: returns %s, expected %s" % (k, show(ret) if ret is not None and ret[0] == "fe" else "a value that is not a composition of scalar ring operations (undecided form)", show(want)))
        (R.viol if bad else R.ok)("C02.mont", I(nm), bad[0] if bad else "iterators of 0..3 scalars: the result is the ring %s of the items" % ("sum" if unit == 0 else "product"),
                                  *((F.loc(f),) if bad else ()))
    R.floor("C02.mont", I("scalar operations decided in the Montgomery-radix domain"), n, 13)
    import kernel_rules as KR
    nk = 0
    for inst, f_, ok, msg in KR.scalar_products(F):
        nk += 1 if f_ else 0
        (R.ok if ok else R.viol)("C02.kernel", I(inst), msg, *(() if ok else (F.loc(f_) if f_ else "",)))
    nm = 0
    for inst, f_, ok, msg in KR.montgomery_reduce(F):
        nm += 1
        (R.ok if ok else R.viol)("C02.kernel", I(inst), msg, *(() if ok else (F.loc(f_) if f_ else "",)))
    R.floor("C02.kernel", I("scalar product kernels decided exact"), nk, 2)
    R.floor("C02.kernel", I("Montgomery reductions decided"), nm, 1)
    # byte <-> limb codecs in the bit-provenance domain
    import codec_rules as CR
    nc = 0
    for inst, f_, ok, msg in CR.scalar_codecs(F):
        nc += 1
        (R.ok if ok else R.viol)("C02.codec", I(inst), msg, *(() if ok else (F.loc(f_),)))
    R.floor("C02.codec", I("scalar codecs decided bit by bit"), nc, 3)


# ------------------------------------------------------------------------------------------------------------ MAGNITUDE
def magnitude(F, R, I, backend):
    bits, n = (52, 5) if backend == "u64" else (29, 9)
    bound = L << (bits * n)
    D = Driver(F, backend)
    seen = {}

    def hook(ip, g, args, st):
        a = ip.deref_val(st, args[0])
        if a[0] != "arr" or any(x[0] != "i" for x in a[1]):
            hi = None
        else:
            hi = sum(x[2] << (bits * k) for k, x in enumerate(a[1]))
        stack = getattr(ip, "fn_stack", [])
        root_ = short(stack[-1]) if stack else getattr(ip, "current_root", "?")
        ok = hi is not None and hi < bound
        prev = seen.get(root_)
        if prev is None or (not ok and prev[0]):
            seen[root_] = (ok, hi)
    D.ip.call_contracts = [(re.compile(r"scalar::Scalar(52|29)::montgomery_reduce$"), hook)]
    roots = [f for f in D.root_candidates(r"^curve25519_dalek::", r"fmt$|Visitor|serde|Deserialize|Serialize|::hash$|ops::Index(Mut)?<usize>|::random$|PrimeFieldBits|Field>::(sqrt|sqrt_ratio)$")
             if re.search(r"scalar::Scalar\b|scalar::Scalar as|scalar::Scalar>", f["path"] + " " + (f.get("self_ty") or ""))]
    for f in sorted(roots, key=lambda f: f["key"]):
        D.run_root(f, check_ret=False)
    R.floor("C02.magnitude", I("public Scalar functions analysed"), len(D.roots_run), 40)
    for f, why in D.errors:
        R.viol("C02.magnitude", I("analysis:" + short(f)), "analysis did not complete: %s" % why, F.loc(f))
    n_ctx = 0
    for root_, (ok, hi) in sorted(seen.items()):
        n_ctx += 1
        if ok:
            R.ok("C02.magnitude", I("montgomery_reduce<-" + root_), "input < l*R in every context (max 2^%.3f, bound 2^%.3f)" % (lg(hi), lg(bound)))
        else:
            R.viol("C02.magnitude", I("montgomery_reduce<-" + root_),
                   "montgomery_reduce can receive a value >= l*R (upper bound %s, limit 2^%.3f) when reached from %s: one conditional subtraction no longer yields the canonical representative"
                   % ("unknown" if hi is None else "2^%.3f" % lg(hi), lg(bound), root_))
    R.floor("C02.magnitude", I("callers of montgomery_reduce analysed"), n_ctx, 3)


def lg(x):
    import math
    return math.log2(x) if x and x > 0 else 0.0


# ------------------------------------------------------------------------------------------------------------ CHAIN
def chain(F, R, I):
    n = 0
    for pat in (r"^curve25519_dalek::scalar::Scalar::invert$", r"scalar::<impl .*Scalar(52|29)>::invert$", r"scalar::<impl .*Scalar(52|29)>::montgomery_invert$"):
        for f in [f for f in F.fns.values() if "mir" in f and re.search(pat, f["path"])]:
            n += 1
            try:
                ret, ip = run_chain(F, f, ["x"])
            except Exception as e:      # analyser failure = not decided = violation (fail closed)
                R.viol("C02.chain", I(short(f)), "monomial analysis failed: %r" % (e,), F.loc(f))
                continue
            ex_ = exponents(ret)
            if ex_ == {"x": L - 2} and ip.models.kernel_calls >= 200:
                R.ok("C02.chain", I(short(f)), "result is x^(l-2) (%d kernel applications)" % ip.models.kernel_calls)
            else:
                R.viol("C02.chain", I(short(f)), "inversion chain does not compute x^(l-2): got %s" % (describe(ex_),), F.loc(f))
    R.floor("C02.chain", I("inversion chains"), n, 3)


def describe(e):
    if e is None:
        return "a value that is not a pure power of the input"
    return ", ".join("%s^(l-2%+d)" % (v, x - (L - 2)) if abs(x - (L - 2)) < 2**64 else "%s^(%d-bit exponent)" % (v, x.bit_length()) for v, x in e.items())


# ------------------------------------------------------------------------------------------------------------ CANON
def canon(F, R, I):
    n_agg = n_pack = 0
    for f in sorted(F.fns.values(), key=lambda f: f["key"]):
        if "mir" not in f:
            continue
        fv = view(F, f)
        live = fv.live_blocks()
        for bi, b in enumerate(fv.blocks):
            if b.get("cleanup") or bi not in live:
                continue
            for s in b["s"]:
                if s[0] == "=" and s[2][0] == "agg" and s[2][1][0] == "adt" and s[2][1][1] == SC:
                    n_agg += 1
                    kind = None
                    for rx, k, why in AGG_OK:
                        if re.search(rx, f["path"]):
                            kind = (k, why)
                            break
                    inst = I("Scalar{..}@" + short(f))
                    if kind is None and not f.get("exported") and str(f.get("vis", "")).startswith("in:"):
                        # a private constructor helper: classified by its callers - all of them integer conversions that are decided (C02.int) to
                        # produce the little-endian bytes of an integer below 2^128
                        cs = [F.fns[k] for k in callers_of(F, f["key"]) if k in F.fns]
                        ints_ = [re.search(r"scalar::Scalar as core::convert::From<u(8|16|32|64|128)>>::from$", c["path"]) for c in cs]
                        if cs and all(ints_) and all((INT_SEM(F).get("From<u%s>" % m_.group(1)) or (None,))[0] is True for m_ in ints_):
                            kind = ("int", "private helper called only from the integer conversions %s, each decided by C02.int to yield the little-endian bytes of an integer below 2^128 < l" %
                                    ", ".join(sorted("From<u%s>" % m_.group(1) for m_ in ints_)))
                        elif cs and all(re.search(CLAMPED_RX, c["path"]) for c in cs):
                            # the documented unreduced multiplier, built in a private helper of the clamped multiplications: the bytes must be clamp_integer(..)
                            e_ = ex.strip(expr_of(fv, s[2][2][0], 8))
                            if ex.is_call(e_, r"scalar::clamp_integer$"):
                                kind = ("clamped", "private helper called only from %s; bytes = clamp_integer(..) (the documented unreduced multiplier, C07)" % ", ".join(sorted(short(c) for c in cs)))
                    if kind is None:
                        R.viol("C02.canon.construct", inst, "raw construction of Scalar { bytes } outside the reviewed set: nothing establishes that the bytes are canonical", fv.loc(s[3]))
                        continue
                    if kind[0] == "then-reduce":
                        # the only use of the aggregate must be the receiver of reduce(), whose result is returned
                        ok = any(re.search(r"scalar::Scalar::reduce$", cname(t)) for _, t in fv.calls) and \
                            ex.is_call(ex.strip(expr_of(fv, ["m", [0, []]], 4), through_calls=False), r"scalar::Scalar::reduce$")
                        if ok:
                            R.ok("C02.canon.construct", inst, "raw bytes are passed through reduce() and its result is returned")
                        else:
                            R.viol("C02.canon.construct", inst, "from_bytes_mod_order no longer returns reduce() of the raw scalar", fv.loc(s[3]))
                    else:
                        R.ok("C02.canon.construct", inst, kind[1])
            t = b.get("t")
            if t and t["k"] == "call" and re.search(r"scalar::<impl .*Scalar(52|29)>::pack$", cname(t)):
                n_pack += 1
                ok, what = reduced_origin(F, fv, t["args"][0])
                inst = I("pack@%s#%d" % (short(f), sum(1 for bj, tj in fv.calls if bj < bi and re.search(r"Scalar(52|29)>::pack$", cname(tj)))))
                if ok:
                    R.ok("C02.canon.pack", inst, "argument is produced by %s" % what)
                else:
                    R.viol("C02.canon.pack", inst, "pack() receives %s: not the result of a reducing kernel, so the packed bytes need not be below l" % what, fv.loc(t["line"]))
    R.floor("C02.canon.construct", I("raw Scalar constructions"), n_agg, 12)
    R.floor("C02.canon.pack", I("pack() call sites"), n_pack, 10)


def reduced_origin(F, fv, operand, depth=0):
    e = ex.strip(expr_of(fv, operand, 6), through_calls=False)
    while isinstance(e, tuple) and e[0] in ("ref", "deref", "copy") and len(e) > 1 and isinstance(e[1], tuple):
        e = ex.strip(e[1], through_calls=False)
    if ex.is_call(e, REDUCING):
        return True, e[1].split("::")[-1] + "()"
    if isinstance(e, tuple) and e[0] == "call" and depth < 3:
        # a local helper all of whose return values are produced by a reducing kernel
        gs = [g for g in F.fns.values() if "mir" in g and g["kind"] != "Closure" and g["path"] == e[1] and g.get("crate") == "curve25519_dalek"]
        if len(gs) == 1:
            gv = view(F, gs[0])
            ok, w = reduced_origin(F, gv, ["m", [0, []]], depth + 1)
            if ok:
                return True, "%s() -> %s" % (e[1].split("::")[-1], w)
    if isinstance(e, tuple) and e[0] == "const":
        return True, "a constant (C12)"
    if isinstance(e, tuple) and e[0] == "local" and depth < 3:
        # a mutable accumulator: every definition must be reducing
        whats = set()
        for d in fv.defs.get(e[1], []):
            if d.kind == "call":
                n = cname(d.term)
                if not re.search(REDUCING, n):
                    return False, "the result of %s" % n.split("::")[-1]
                whats.add(n.split("::")[-1] + "()")
            elif d.kind == "assign":
                if d.rv[0] == "use" and d.rv[1][0] == "k":
                    whats.add("a constant")
                    continue
                if d.rv[0] == "use":
                    ok, w = reduced_origin(F, fv, d.rv[1], depth + 1)
                    if not ok:
                        return False, w
                    whats.add(w)
                    continue
                return False, "a value built in place"
        if whats:
            return True, " / ".join(sorted(whats))
    return False, "the value `%s`" % ex.show(e, 3)[:60]


# ------------------------------------------------------------------------------------------------------------ DECODE
def decode(F, R, I):
    fs = F.fn("curve25519_dalek::scalar::Scalar::from_canonical_bytes", all=True)
    if len(fs) != 1:
        R.anchor_missing("C02.decode", I("from_canonical_bytes"))
        return
    fv = view(F, fs[0])
    # the CtOption::new(candidate, flag) call: flag must mention is_canonical(candidate) and the high bit of byte 31
    hit = [t for _, t in fv.calls if re.search(r"subtle::CtOption(::)?<.*>::new$", cname(t))]
    if len(hit) != 1:
        R.viol("C02.decode", I("from_canonical_bytes:ctoption"), "expected exactly one CtOption::new in from_canonical_bytes, found %d" % len(hit), F.loc(fs[0]))
    else:
        flag = expr_of(fv, hit[0]["args"][1], 10)
        # (the separate high-bit test in the source is implied by is_canonical - reduce() of a value >= 2^255 differs from it -
        #  so it is deliberately not required: dropping it would not change behaviour)
        if ex.mentions_call(flag, r"scalar::Scalar::is_canonical$"):
            R.ok("C02.decode", I("from_canonical_bytes:is_canonical"), "flag depends on it")
        else:
            R.viol("C02.decode", I("from_canonical_bytes:is_canonical"), "the CtOption flag of from_canonical_bytes no longer depends on is_canonical", fv.loc(hit[0]["line"]))
    fs = F.fn("curve25519_dalek::scalar::Scalar::is_canonical", all=True)
    if len(fs) != 1:
        R.anchor_missing("C02.decode", I("is_canonical"))
        return
    fv = view(F, fs[0])
    e = expr_of(fv, ["m", [0, []]], 8)
    ok = ex.is_call(ex.strip(e, through_calls=False), r"ct_eq$") and ex.mentions_call(e, r"scalar::Scalar::reduce$") and ex.mentions_arg(e, 1)
    if ok:
        R.ok("C02.decode", I("is_canonical"), "self.ct_eq(&self.reduce())")
    else:
        R.viol("C02.decode", I("is_canonical"), "is_canonical is no longer the constant-time comparison of self with self.reduce()", F.loc(fs[0]))


# ------------------------------------------------------------------------------------------------------------ INT
_INT_SEM = {}


def INT_SEM(F):
    """From<uN> for Scalar decided in the bit-provenance domain: instance -> (True | False | None, message)"""
    if id(F) not in _INT_SEM:
        import codec_rules as CR
        _INT_SEM[id(F)] = {inst: (ok, msg) for inst, f_, ok, msg in CR.int_conversions(F)}
    return _INT_SEM[id(F)]


_CALLERS = {}


def callers_of(F, key):
    if id(F) not in _CALLERS:
        m = {}
        for g in F.fns.values():
            if "mir" not in g:
                continue
            for b in g["mir"]["blocks"]:
                t = b.get("t") or {}
                if t.get("k") == "call":
                    ck = (t.get("resolved") or {}).get("key") or t.get("callee_key")
                    if ck:
                        m.setdefault(ck, set()).add(g["key"])
        _CALLERS[id(F)] = m
    return _CALLERS[id(F)].get(key, set())


def ints(F, R, I):
    n = 0
    for f in F.fns.values():
        m = re.search(r"scalar::Scalar as core::convert::From<u(8|16|32|64|128)>>::from$", f["path"])
        if not m or "mir" not in f:
            continue
        n += 1
        fv = view(F, f)
        width = int(m.group(1)) // 8
        inst = I("From<u%s>" % m.group(1))
        # zeroed 32-byte array
        zero = any(s[0] == "=" and s[2][0] == "repeat" and ex.is_const(expr_of(fv, s[2][1], 2), 0) for b in fv.blocks for s in b["s"])
        good = False
        if width == 1:
            # s_bytes[0] = x
            for b in fv.blocks:
                for s in b["s"]:
                    if s[0] == "=" and s[1][1] and isinstance(s[1][1][0], list) and s[1][1][0][0] in ("ci", "i"):
                        good = good or ex.mentions_arg(expr_of(fv, s[2][1], 4) if s[2][0] == "use" else ("x",), 1)
        for _, t in fv.calls:
            if re.search(r"copy_from_slice$", cname(t)):
                dst = expr_of(fv, t["args"][0], 8)
                src = expr_of(fv, t["args"][1], 8)
                starts0 = bool(ex.find(dst, lambda x: isinstance(x, tuple) and x[0] == "agg" and "Range" in str(x[1]) and ex.is_const(ex.strip(x[2][0]), 0)))
                good = starts0 and ex.mentions_call(src, r"::to_le_bytes$") and ex.mentions_arg(src, 1)
        sem = INT_SEM(F).get("From<u%s>" % m.group(1))
        if sem is not None and sem[0] is True:
            R.ok("C02.int", inst, sem[1] + " (bit-provenance domain)")
        elif sem is not None and sem[0] is False:
            R.viol("C02.int", inst, sem[1], F.loc(f))
        elif zero and good:
            R.ok("C02.int", inst, "little-endian bytes of the argument at offset 0 of a zeroed [u8; 32]")
        else:
            R.viol("C02.int", inst, "integer conversion is not `zeroed bytes; bytes[0..%d] = x.to_le_bytes()`" % width, F.loc(f))
    R.floor("C02.int", I("integer conversions"), n, 5)


def short(f):
    return f["path"].replace("curve25519_dalek::", "").replace("backend::serial::", "")[-100:]
