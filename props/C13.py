"""C13 - batch verification: structural clauses of verify_batch (length check, per-entry canonical S, R decoding,
identity test, transcript covers all inputs before the RNG is derived, no other entropy, scalar/point pairing)."""
import re
import ctx
from mirlib import view, cname, expr_of, root
from pathlib2 import Guard, established, success_sites, dominated, reachable_fns
import ex

LEVEL = "other"
TECHNIQUE = ("BATCHEQ: abstract interpretation of verify_batch on symbolic batches (scalar polynomials, polynomial combinations of points, transcript / RNG tokens); fallback PATH on ed25519_dalek::batch::verify_batch: must-pass-through of the length / canonical-S / R-decoding / identity checks before Ok; "
             "happens-before (CFG reachability) of every transcript append relative to build_rng; ORDER of the per-entry hash; structural matching "
             "of the scalar and point iterator pipelines (PAIR) including the bodies of the closures they use; NOCALL of any entropy source")

D = 60  # expression depth for iterator pipelines


def run(tier, R):
    cfgs = [("simd", "release")]
    if tier == "thorough":
        cfgs += [("simd-legacy", "release"), ("serial64", "release"), ("notables", "release")]
    FS = ctx.facts_for(R, cfgs)
    R.trust("rustc MIR + resolution; mirfacts; mirlib")
    R.assume("optional_multiscalar_mul computes sum s_i P_i (C04); merlin transcript/RNG semantics; single verification semantics are C09's")
    for (cfg, mode), F in FS.items():
        check_cfg(F, R, cfg)


def m(e, pat, n=None):
    """if e (after stripping refs/derefs) is a call matching pat return its arg list else None"""
    for through in (False, True):
        x = ex.strip(e, through_calls=through)
        if isinstance(x, tuple) and x[0] == "call" and re.search(pat, x[1]) and (n is None or len(x[2]) == n):
            return x[2]
    return None


def closure_key(e):
    e = ex.strip(e)
    if isinstance(e, tuple) and e[0] == "agg" and e[1][0] == "closure":
        return e[1][1], e[2]
    return None, None


def closure_ret(F, key):
    f = F.fns.get(key)
    if not f or "mir" not in f:
        return None, None
    fv = view(F, f)
    sites = fv.exit_sites()
    if len(sites) != 1:
        return fv, None
    s = sites[0]
    if s["kind"] == "call":
        return fv, ("call", cname(s["term"]), [expr_of(fv, a, D) for a in s["term"]["args"]])
    if s["kind"] == "agg":
        return fv, ("agg", ["adt", s["adt"], s["variant"]], [expr_of(fv, o, D) for o in s["ops"]])
    if s["kind"] == "other" and "rv" in s:
        from mirlib import _expr_rv
        return fv, _expr_rv(fv, s["rv"], D)
    return fv, None


TRY_FROM = r"InternalSignature as core::convert::TryFrom<&ed25519::Signature>>::try_from$"


def is_try_from(F, fe):
    """the mapping function is InternalSignature::try_from, or a closure returning try_from(its argument)"""
    f = ex.strip(fe)
    if f[0] == "fnitem":
        return re.search(TRY_FROM, f[1]) is not None
    ck, _ = closure_key(f)
    if ck:
        cfv, ce = closure_ret(F, ck)
        a = m(ce, TRY_FROM, 1) if ce else None
        return bool(a) and ex.is_arg(a[0], 2)
    return False


def iter_src(e):
    """slice::iter(x) / into_iter(x) / Vec::iter -> the source expression x, else None"""
    a = m(e, r"slice::<impl \[.*\]>::iter$|IntoIterator.*::into_iter$", 1)
    if a is None:
        return None
    return ex.strip(a[0])


class Collector:
    """records the verdicts of the syntactic rules so that they can be merged with the semantic ones"""

    def __init__(self):
        self.items = []

    def ok(self, rule, inst, detail=""):
        self.items.append(("ok", rule, inst, detail, ()))

    def viol(self, rule, inst, msg, *loc):
        self.items.append(("viol", rule, inst, msg, loc))

    def floor(self, *a):
        self.items.append(("floor", a))

    def anchor_missing(self, *a):
        self.items.append(("anchor", a))


# syntactic rule -> the semantic clause (BATCHEQ) that decides the same thing independently of the code's shape
CLAUSE = {"C13.length_check": "lengths", "C13.canonical_S": "reject_S", "C13.R_decodes": "reject_R", "C13.identity": "identity",
          "C13.transcript.before_rng": "binding", "C13.transcript.no_lazy_append": "binding", "C13.transcript.hrams": "binding",
          "C13.transcript.s_halves": "binding", "C13.hram_order": "equation", "C13.pairing": "equation", "C13.equation": "equation", "C13.transcript": "binding"}


def check_cfg(F, R, cfg):
    I = lambda s: "%s:%s" % (cfg, s)
    try:
        vb = F.fn("ed25519_dalek::batch::verify_batch")
    except LookupError:
        R.anchor_missing("C13.anchor", I("verify_batch"))
        return
    sem = semantic(F, vb, cfg)
    C = Collector()
    syntactic(F, C, cfg, vb)
    # merge: a clause decided by the semantic engine overrides the shape-dependent rule; an inconclusive semantic run (a value left
    # the abstract domain) falls back to the syntactic verdict, which fails closed
    for it in C.items:
        if it[0] == "floor":
            R.floor(*it[1])
            continue
        if it[0] == "anchor":
            R.anchor_missing(*it[1])
            continue
        kind, rule, inst, msg, loc = it
        st = sem.get(CLAUSE.get(rule), ("unknown", ""))[0]
        if kind == "ok":
            R.ok(rule, inst, msg)
        elif st == "ok":
            R.ok(rule, inst, "syntactic form not recognised (%s); the clause is decided by C13.sem.%s" % (msg[:120], CLAUSE[rule]))
        else:
            R.viol(rule, inst, msg + ("" if st == "viol" else " [semantic analysis inconclusive: %s]" % sem.get(CLAUSE.get(rule), ("", "no semantic counterpart"))[1][:160]), *loc)
    for clause in ("equation", "binding", "lengths", "reject_S", "reject_R", "identity", "accepts"):
        st, msg = sem.get(clause, ("unknown", "not evaluated"))
        if st == "ok":
            R.ok("C13.sem." + clause, I("verify_batch"), msg)
        elif st == "viol":
            R.viol("C13.sem." + clause, I("verify_batch"), msg, view(F, vb).loc())
        else:
            R.note("C13.sem.%s inconclusive in %s (%s): the syntactic rules decide" % (clause, cfg, msg[:200]))
    R.floor("C13.sem", I("clauses decided in the BATCHEQ domain"), sum(1 for c in sem.values() if c[0] == "ok"), 0)


def semantic(F, vb, cfg):
    """BATCHEQ (lib/eng_batcheq.py): verify_batch evaluated on symbolic batches of 0, 1, 2, 3 and 5 entries."""
    import eng_batcheq as BQ
    out = {}
    a = F.adts.get("ed25519_dalek::verifying::VerifyingKey")
    if not a:
        return {c: ("unknown", "VerifyingKey not found") for c in ("equation", "binding", "lengths", "reject_S", "reject_R", "identity", "accepts")}
    kf = [x["name"] for x in a["variants"][0]["fields"]]

    def go(n, **kw):
        try:
            return BQ.run(F, vb, n, kf, **kw)
        except Exception as e:
            return None, e
    # equation and binding
    eq, bd, acc = [], [], []
    for n in (0, 1, 2, 3, 5):
        ret, ip = go(n)
        if ret is None and isinstance(ip, Exception):
            eq.append(("unknown", "analysis failed for n=%d: %r" % (n, ip)))
            continue
        tests = ip.models.identity_tests
        if len(tests) == 1 and tests[0] is not None and tests[0][0] == "pl":
            ok, why = BQ.expected(n, tests)
            eq.append(("ok" if ok else "viol", ("n=%d: " % n) + why))
        elif len(tests) > 1 and all(t is not None and t[0] == "pl" for t in tests):
            eq.append(("viol", "n=%d: %d combinations are tested against the identity" % (n, len(tests))))
        else:
            eq.append(("unknown", "n=%d: %s" % (n, "; ".join(ip.models.notes[-2:]) or "the tested value is outside the domain")))
        if n:
            if eq[-1][0] == "unknown" and len(ip.models.draws) < n:
                bd.append(("unknown", "n=%d: the random draws could not be followed" % n))
            else:
                ok, why = BQ.binding(n, ip)
                bd.append(("ok" if ok else "viol", ("n=%d: " % n) + why))
        v = BQ.variants(ret)
        acc.append(("unknown", "n=%d: return value unknown" % n) if v is None else (("ok", "n=%d: Ok is reachable" % n) if 0 in v else ("viol", "n=%d: verify_batch can never return Ok" % n)))

    def fold(xs, okmsg):
        for st in ("viol", "unknown"):
            for x in xs:
                if x[0] == st:
                    return x
        return ("ok", okmsg)
    out["equation"] = fold(eq, "for batches of 0, 1, 2, 3, 5 symbolic entries the value tested against the identity is "
                               "sum z_i R_i + sum z_i H(R_i, A_i, m_i) A_i - (sum z_i s_i) B with R_i = decompress(sig_i[0..32]), s_i = scalar(sig_i[32..64]), distinct z_i")
    out["binding"] = fold(bd, "every z_i is 16 bytes drawn from the RNG of a transcript that has absorbed every H(R_i, A_i, m_i) and every S half (n = 1, 2, 3, 5)")
    out["accepts"] = fold(acc, "Ok is reachable for every batch size analysed")
    # scenarios: the outcome must be Err and nothing else
    conclusive = out["equation"][0] != "unknown"

    def only_err(name, okmsg, runs, applicable=lambda ip: True):
        res = []
        for n, kw in runs:
            ret, ip = go(n, **kw)
            v = BQ.variants(ret) if not isinstance(ip, Exception) else None
            if v is None:
                res.append(("unknown", "%s: return value unknown" % (kw,)))
            elif not applicable(ip):
                res.append(("unknown", "%s: the forced failure was never exercised" % (kw,)))
            elif v == {1}:
                res.append(("ok", ""))
            elif ip.models.inconclusive or ip.models.msm_calls == 0:
                res.append(("unknown", "%s: %s" % (kw, "; ".join(ip.models.notes[-1:]) or "no multiscalar multiplication reached")))
            else:
                res.append(("viol", "with %s verify_batch can return Ok" % (", ".join("%s=%s" % kv for kv in kw.items()),)))
        out[name] = fold(res, okmsg)
    only_err("lengths", "every combination of mismatched slice lengths tried (1,2,2) (2,1,2) (2,2,1) (0,1,1) (3,3,2) returns Err only",
             [(2, dict(lens=l)) for l in ((1, 2, 2), (2, 1, 2), (2, 2, 1), (0, 1, 1), (3, 3, 2))])
    only_err("reject_S", "when the canonical decoding of any one S fails (entry 0, 1 or 2 of 3) the result is Err only",
             [(3, dict(fail_sc=[j])) for j in range(3)], lambda ip: ip.models.sc_decodes > 0 and any("from_canonical_bytes" in x for x in ip.models.notes))
    only_err("reject_R", "when any one R fails to decompress (entry 0, 1 or 2 of 3) the result is Err only",
             [(3, dict(fail_dec=[j])) for j in range(3)], lambda ip: ip.models.r_decodes > 0)
    only_err("identity", "when the tested combination is not the identity the result is Err only (n = 0, 2)",
             [(0, dict(force_identity=0)), (2, dict(force_identity=0))], lambda ip: len(ip.models.identity_tests) > 0)
    return out


def syntactic(F, R, cfg, vb):
    I = lambda s: "%s:%s" % (cfg, s)
    fv = view(F, vb)
    IS = "ed25519_dalek::signature::InternalSignature"
    VK = "ed25519_dalek::verifying::VerifyingKey"

    def fidx(adt, name):
        a = F.adts.get(adt)
        for i, f in enumerate(a["variants"][0]["fields"]) if a else []:
            if f["name"] == name:
                return i
        return None
    r_idx, s_idx, point_idx = fidx(IS, "R"), fidx(IS, "s"), fidx(VK, "point")
    oks = [s["bb"] for s in success_sites(fv)]
    R.floor("C13.ok_exits", I("Ok exits"), len(oks), 1)

    # ---------------------------------------------------------------- 1. length check
    pair_edges = {}
    for bi, b in enumerate(fv.blocks):
        t = b.get("t")
        if not t or t["k"] != "switch":
            continue
        e = ex.strip(expr_of(fv, t["discr"]))
        if e[0] == "bin" and e[1] in ("Ne", "Eq"):
            la, lb = m(e[2], r"\]>::len$", 1), m(e[3], r"\]>::len$", 1)
            if la and lb:
                a, b_ = ex.strip(la[0]), ex.strip(lb[0])
                if a[0] == "arg" and b_[0] == "arg" and a[1] != b_[1]:
                    eqval = 0 if e[1] == "Ne" else 1
                    for v, tb in t["targets"]:
                        if v == eqval:
                            pair_edges.setdefault(frozenset((a[1], b_[1])), []).append((bi, tb, ("sw", v)))
                    if eqval == 1 and [v for v, _ in t["targets"]] == [0]:
                        pair_edges.setdefault(frozenset((a[1], b_[1])), []).append((bi, t["otherwise"], ("sw", "otherwise")))
    dom_pairs = [p for p, es in pair_edges.items() if dominated(fv, oks, es)]
    comp = {1: 1, 2: 2, 3: 3}
    for p in dom_pairs:
        a, b_ = tuple(p)
        ca, cb = comp[a], comp[b_]
        for k in comp:
            if comp[k] == cb:
                comp[k] = ca
    good = len(set(comp.values())) == 1
    (R.ok if good else R.viol)("C13.length_check", I("verify_batch"),
                               "Ok only after len(messages)=len(signatures)=len(verifying_keys) (pairs %s)" % [sorted(p) for p in dom_pairs] if good else
                               "Ok is reachable without the three slice lengths having been compared equal (dominating comparisons: %s)" % [sorted(p) for p in dom_pairs],
                               *(() if good else (fv.loc(),)))

    # ---------------------------------------------------------------- 2. canonical S of every entry
    def sigs_pred(fv_, t):
        e = expr_of(fv_, t["args"][0], D)
        a = m(e, r"Iterator>::map::<", 2)
        if not a:
            return False
        src = iter_src(a[0])
        return src is not None and ex.is_arg(src, 2) and is_try_from(F, a[1])

    G_S = Guard("signatures.iter().map(InternalSignature::try_from).collect::<Result<Vec<_>,_>>() is Ok",
                r"Iterator>::collect::<core::result::Result<", want=1, arg_pred=sigs_pred)
    ok, why = established(F, vb, [G_S])
    (R.ok if ok else R.viol)("C13.canonical_S", I("verify_batch"), "Ok only after every signature converted (canonical S) over the whole slice" if ok else why, *(() if ok else (fv.loc(),)))
    sig_sites = G_S.sites(fv)
    internal_sigs = None
    if len(sig_sites) == 1:
        internal_sigs = sig_sites[0][1]["dest"][0]

    def is_internal_sigs(e):
        """expression denotes the Vec<InternalSignature> obtained from that collect"""
        return bool(ex.find(e, lambda x: x[0] == "call" and re.search(r"Iterator>::collect::<core::result::Result<", x[1])
                            and m(x[2][0], r"Iterator>::map::<", 2) and is_try_from(F, m(x[2][0], r"Iterator>::map::<", 2)[1])))

    # ---------------------------------------------------------------- 3./4. multiscalar result and identity test
    oms = fv.find_calls(r"VartimeMultiscalarMul>::optional_multiscalar_mul")
    if len(oms) != 1:
        R.viol("C13.equation", I("verify_batch"), "expected exactly one optional_multiscalar_mul call, found %d" % len(oms), fv.loc())
        return
    om_t = oms[0][1]
    G_some = Guard("optional_multiscalar_mul(..) is Some (every R decoded)", r"VartimeMultiscalarMul>::optional_multiscalar_mul", want=1)
    ok, why = established(F, vb, [G_some])
    (R.ok if ok else R.viol)("C13.R_decodes", I("verify_batch"), "Ok only if the multiscalar call returned Some" if ok else why, *(() if ok else (fv.loc(),)))

    def id_pred(fv_, t):
        return ex.mentions_call(expr_of(fv_, t["args"][0], D), r"optional_multiscalar_mul")

    G_id = Guard("id.is_identity()", r"IsIdentity>::is_identity$", want=1, arg_pred=id_pred)
    ok, why = established(F, vb, [G_id])
    (R.ok if ok else R.viol)("C13.identity", I("verify_batch"), "Ok only on the true edge of is_identity(result)" if ok else why, *(() if ok else (fv.loc(),)))

    # ---------------------------------------------------------------- 5. transcript: appends happen before build_rng, cover hrams and s halves; rng has no other entropy
    br = fv.find_calls(r"merlin::Transcript::build_rng$")
    fin = fv.find_calls(r"merlin::TranscriptRngBuilder::finalize")
    apps = fv.find_calls(r"merlin::Transcript::append_message$")
    if len(br) != 1 or len(fin) != 1:
        R.viol("C13.transcript", I("verify_batch"), "expected one build_rng and one finalize call", fv.loc())
    else:
        br_bb = br[0][0]
        after = fv.reach(start=br_bb) - {br_bb}
        late = [bi for bi, t in apps if bi in after]
        (R.viol if late else R.ok)("C13.transcript.before_rng", I("verify_batch"),
                                   "transcript.append_message at line(s) %s is reachable after build_rng (not absorbed into the randomness)" % [fv.line_of(b) for b in late] if late
                                   else "no append_message is reachable from build_rng", *((fv.loc(),) if late else ()))
        # appends in closures of verify_batch run lazily: forbid
        lazy = []
        for c in F.closures_of(vb["key"]):
            for bi, t in view(F, c).calls:
                if re.search(r"merlin::Transcript::append_message$", cname(t)):
                    lazy.append(c["key"])
        (R.viol if lazy else R.ok)("C13.transcript.no_lazy_append", I("verify_batch"),
                                   "append_message inside a lazily evaluated closure: %s" % lazy if lazy else "all appends are in the function body", *((fv.loc(),) if lazy else ()))
        labels = {}
        for bi, t in apps:
            lab = ex.const_bytes(expr_of(fv, t["args"][1]))
            data = expr_of(fv, t["args"][2], D)
            labels.setdefault(lab, []).append((bi, data))
        # hram: data from iterating the collected per-entry hashes; sig.s: s_bytes of iterating `signatures`
        good_h = False
        hram_closure = None
        for bi, data in labels.get(b"hram", []):
            src = loop_iter_source(fv, data)
            col = m(src, r"Iterator>::collect::<", 1) if src is not None else None
            if in_full_loop(fv, bi, br_bb) and col:
                a = m(col[0], r"Iterator>::map::<", 2)
                if a:
                    rng = ex.strip(a[0])
                    ck, caps = closure_key(a[1])
                    if rng[0] == "agg" and ex.is_const(rng[2][0], 0) and m(rng[2][1], r"\]>::len$", 1) and ex.is_arg(m(rng[2][1], r"\]>::len$", 1)[0], 2) and ck:
                        hram_closure = (ck, caps)
                        good_h = True
        (R.ok if good_h else R.viol)("C13.transcript.hrams", I("verify_batch"),
                                     "every H(R||A||M) for i in 0..signatures.len() is appended (label 'hram') inside a loop over the whole vector" if good_h else
                                     "the per-entry hashes are not all appended to the transcript before build_rng", *(() if good_h else (fv.loc(),)))
        good_s = False
        for bi, data in labels.get(b"sig.s", []):
            a = m(data, r"ed25519::Signature::s_bytes$", 1)
            if a and in_full_loop(fv, bi, br_bb):
                it = loop_iter_source(fv, a[0])
                good_s = it is not None and ex.is_arg(it, 2)
        (R.ok if good_s else R.viol)("C13.transcript.s_halves", I("verify_batch"),
                                     "s_bytes() of every element of `signatures` is appended (label 'sig.s')" if good_s else
                                     "the S halves of all signatures are not appended to the transcript before build_rng", *(() if good_s else (fv.loc(),)))
        # per-entry hash order [R_i, A_i, M_i] with one index
        if hram_closure:
            check_hram_closure(F, R, I, fv, hram_closure)
        # finalize with ZeroRng, whose fill_bytes writes nothing
        t = fin[0][1]
        zr = re.search(r"finalize::<ed25519_dalek::batch::ZeroRng>$", cname(t)) is not None
        same_tr = ex.mentions_call(expr_of(fv, t["args"][0]), r"Transcript::build_rng$")
        zf = [f for f in F.fns.values() if f.get("self_ty") == "ed25519_dalek::batch::ZeroRng" and f.get("name") in ("fill_bytes", "try_fill_bytes") and "mir" in f]
        inert = bool(zf) and all(all(re.search(r"ed25519_dalek::batch::ZeroRng as rand_core::RngCore>::fill_bytes$", cname(t)) and f["name"] != "fill_bytes"
                                     for _, t in view(F, f).calls)
                                 and not any(s[0] == "=" and "*" in s[1][1] for b in f["mir"]["blocks"] for s in b["s"]) for f in zf)
        good = zr and same_tr and inert
        (R.ok if good else R.viol)("C13.rng.deterministic", I("verify_batch"),
                                   "rng = transcript.build_rng().finalize(&mut ZeroRng); ZeroRng::fill_bytes writes nothing" if good else
                                   "the batch RNG is not derived from the transcript with the inert ZeroRng (zero_rng=%s same_transcript=%s inert=%s)" % (zr, same_tr, inert),
                                   *(() if good else (fv.loc(),)))
    # NOCALL: no entropy source anywhere in batch.rs
    bad = []
    batch_fns = [f for f in F.fns.values() if f["crate"] == "ed25519_dalek" and f["key"].startswith("ed25519_dalek::batch::") and "mir" in f]
    for f in batch_fns:
        for bi, t in view(F, f).calls:
            if re.search(r"getrandom|OsRng|thread_rng|rand::rngs|std::time|SystemTime|RandomState", cname(t)):
                bad.append(cname(t)[:80])
    (R.viol if bad else R.ok)("C13.rng.no_entropy", I("batch module"), ("entropy source called: %s" % bad) if bad else "no OS/thread RNG, clock or hasher-seed call in %d batch functions" % len(batch_fns))
    R.floor("C13.rng.no_entropy", I("batch functions scanned (closures not counted)"), len([f for f in batch_fns if f["kind"] != "Closure"]), 6)

    # ---------------------------------------------------------------- 6. PAIR: scalar chain vs point chain
    sc = expr_of(fv, om_t["args"][0], D)
    pt = expr_of(fv, om_t["args"][1], D)
    msg = check_pairing(F, fv, sc, pt, r_idx, s_idx, point_idx, is_internal_sigs)
    (R.viol if msg else R.ok)("C13.pairing", I("verify_batch"), msg or
                              "scalars [-(sum z_i s_i), z_1.., z_i*h_i..] pair with points [B, R_1.., A_1..]; zs one per signature from the transcript rng", *((fv.loc(),) if msg else ()))


def in_full_loop(fv, bb, before_bb):
    """bb lies on a cycle (loop body) and the loop is entered before `before_bb`"""
    r = fv.reach(start=bb)
    on_cycle = any(bb in [t for t, _ in fv.succ(x)] for x in r)
    return on_cycle and before_bb in r


def loop_iter_source(fv, e):
    """element expression `(next(&mut it) as Some).0` -> the collection the iterator was created from"""
    nx = ex.find(e, lambda x: x[0] == "call" and re.search(r"Iterator>::next$", x[1]))
    if not nx:
        return None
    it = ex.strip(nx[0][2][0])
    if it[0] != "local":
        return None
    # the iterator local: defined by move of into_iter(...) result
    for d in fv.defs.get(it[1], []):
        if d.kind == "assign":
            from mirlib import _expr_rv
            src = _expr_rv(fv, d.rv, D)
            s = iter_src(src)
            if s is not None:
                s2 = iter_src(s)
                return s2 if s2 is not None else s
    return None


def check_hram_closure(F, R, I, pfv, hc):
    ck, caps = hc
    f = F.fns.get(ck)
    fv = view(F, f)
    from pathlib2 import paths, call_sequence
    ps = paths(fv)
    good = False
    msg = "per-entry hash closure has loops/branches"
    if ps is not None and len(ps) == 1:
        seq = call_sequence(fv, ps[0], r"Digest>::update")
        items = []
        for b, t in seq:
            e = expr_of(fv, t["args"][1], D)
            idx = ex.find(e, lambda x: x[0] == "idx")
            kind = None
            if m(e, r"ed25519::Signature::r_bytes$", 1):
                kind = "R"
            elif m(e, r"VerifyingKey::as_bytes$", 1):
                kind = "A"
            elif idx and ex.strip(e)[0] == "idx":
                kind = "M"
            if idx:
                base, ix = ex.strip(idx[0][1]), ex.strip(idx[0][2])
                cap = None
                if base[0] == "arg" and base[1] == 1:
                    mm = re.findall(r"\.(\d+)", base[2])
                    if mm:
                        # which parent argument was captured in this slot
                        ce = ex.strip(caps[int(mm[0])])
                        cap = ce[1] if ce[0] == "arg" else None
                items.append((kind, cap, ix))
            else:
                items.append((kind, None, None))
        want_kinds = [("R", 2), ("A", 3), ("M", 1)]
        good = [(k, c) for k, c, _ in items] == want_kinds and all(ex.is_arg(ix, 2) for _, _, ix in items)
        msg = "hash inputs are %s" % [(k, "arg%s" % c) for k, c, _ in items]
    (R.ok if good else R.viol)("C13.hram_order", I("verify_batch::hram closure"),
                               "h_i = H(signatures[i].R || verifying_keys[i] || messages[i]) with one index i" if good else
                               "per-entry challenge hash is not H(R_i || A_i || M_i) over the same index: " + msg, *(() if good else (fv.loc(),)))


def check_pairing(F, fv, sc, pt, r_idx, s_idx, point_idx, is_internal_sigs):
    CH = r"Iterator>::chain::<"
    a = m(sc, CH, 2)
    b = m(pt, CH, 2)
    if not a or not b:
        return "scalar/point arguments are not chain(..) pipelines"
    a2, b2 = m(a[0], CH, 2), m(b[0], CH, 2)
    if not a2 or not b2:
        return "scalar/point arguments are not three-segment chains"
    s_segs = [a2[0], a2[1], a[1]]
    p_segs = [b2[0], b2[1], b[1]]
    # points: [once(Some(BASEPOINT)), map(iter(internal sigs), |sig| sig.R.decompress()), map(iter(arg3), |pk| Some(pk.point))]
    o = m(p_segs[0], r"core::iter::once::<", 1)
    if not o:
        return "first point segment is not once(..)"
    some_b = ex.strip(o[0])
    if not (some_b[0] == "agg" and some_b[1][1] == "core::option::Option" and ex.strip(some_b[2][0])[0] == "const"
            and str(ex.strip(some_b[2][0])[3]).endswith("constants::ED25519_BASEPOINT_POINT")):
        return "first point is not Some(ED25519_BASEPOINT_POINT)"
    mr = m(p_segs[1], r"Iterator>::map::<", 2)
    if not mr or iter_src(mr[0]) is None or not is_internal_sigs(iter_src(mr[0])):
        return "second point segment does not iterate the converted signatures"
    ck, _ = closure_key(mr[1])
    cfv, ce = closure_ret(F, ck) if ck else (None, None)
    if not (ce and m(ce, r"CompressedEdwardsY::decompress$", 1) and ex.is_arg(m(ce, r"CompressedEdwardsY::decompress$", 1)[0], 2, r"\.%d" % r_idx)):
        return "R points are not sig.R.decompress()"
    ma = m(p_segs[2], r"Iterator>::map::<", 2)
    if not ma or iter_src(ma[0]) is None or not ex.is_arg(iter_src(ma[0]), 3):
        return "third point segment does not iterate verifying_keys"
    ck, _ = closure_key(ma[1])
    cfv, ce = closure_ret(F, ck) if ck else (None, None)
    if not (ce and ce[0] == "agg" and ce[1][1] == "core::option::Option" and ex.is_arg(ce[2][0], 2, r"\.%d" % point_idx)):
        return "A points are not Some(pk.point)"
    # scalars: zs
    zs = m(s_segs[1], r"Iterator>::cloned::<", 1)
    zs_src = iter_src(zs[0]) if zs else None
    if zs_src is None:
        return "second scalar segment is not zs.iter().cloned()"
    zs_root = zs_src
    # zs = collect(map(iter(internal sigs), closure: Scalar::from(gen_u128(&mut rng))))
    zc = m(zs_root, r"Iterator>::collect::<", 1)
    zm = m(zc[0], r"Iterator>::map::<", 2) if zc else None
    if not zm or iter_src(zm[0]) is None or not is_internal_sigs(iter_src(zm[0])):
        return "zs is not one value per converted signature"
    ck, caps = closure_key(zm[1])
    cfv, ce = closure_ret(F, ck) if ck else (None, None)
    fr = m(ce, r"Scalar as core::convert::From<u128>>::from$", 1) if ce else None
    g = m(fr[0], r"ed25519_dalek::batch::gen_u128::<", 1) if fr else None
    if not g:
        return "z_i is not Scalar::from(gen_u128(rng))"
    if not (caps and ex.mentions_call(caps[0], r"TranscriptRngBuilder::finalize")):
        return "z_i does not draw from the transcript rng"

    def is_zs(e):
        s = iter_src(e)
        return s is not None and ex.strip(s) == ex.strip(zs_root)
    # first scalar: once(neg(sum(map(zip(map(iter(sigs), |sig| sig.s), iter(zs)), |(s,z)| z*s))))
    o = m(s_segs[0], r"core::iter::once::<", 1)
    ng = m(o[0], r"Scalar as core::ops::Neg>::neg$", 1) if o else None
    sm = m(ng[0], r"Iterator>::sum::<", 1) if ng else None
    mp = m(sm[0], r"Iterator>::map::<", 2) if sm else None
    zp = m(mp[0], r"Iterator>::zip::<", 2) if mp else None
    if not zp:
        return "basepoint coefficient is not -(sum over zip(..))"
    ms = m(zp[0], r"Iterator>::map::<", 2)
    if not ms or iter_src(ms[0]) is None or not is_internal_sigs(iter_src(ms[0])) or not is_zs(zp[1]):
        return "basepoint coefficient does not zip signatures' s with zs"
    ck, _ = closure_key(ms[1])
    cfv, ce = closure_ret(F, ck) if ck else (None, None)
    if not (ce and ex.is_arg(ce, 2, r"\.%d" % s_idx)):
        return "basepoint coefficient does not use sig.s"
    ck, _ = closure_key(mp[1])
    cfv, ce = closure_ret(F, ck) if ck else (None, None)
    mul = m(ce, r"ops::Mul.*::mul$", 2) if ce else None
    if not (mul and {ex.strip(x)[2].replace("*", "") for x in mul if ex.strip(x)[0] == "arg"} == {".0", ".1"}):
        return "basepoint coefficient terms are not z*s"
    # third: map(zip(iter(hrams as scalars), iter(zs)), |(h,z)| h*z)
    mh = m(s_segs[2], r"Iterator>::map::<", 2)
    zh = m(mh[0], r"Iterator>::zip::<", 2) if mh else None
    if not zh:
        return "third scalar segment is not map(zip(hrams, zs))"
    sides = [zh[0], zh[1]]
    hs = [x for x in sides if not is_zs(x)]
    if len(hs) != 1 or not any(is_zs(x) for x in sides):
        return "third scalar segment does not zip hrams with zs"
    hsrc = iter_src(hs[0])
    hc = m(hsrc, r"Iterator>::collect::<", 1) if hsrc else None
    hm = m(hc[0], r"Iterator>::map::<", 2) if hc else None
    if not (hm and ex.strip(hm[1])[0] == "fnitem" and re.search(r"Scalar::from_bytes_mod_order_wide$", ex.strip(hm[1])[1])):
        return "hram scalars are not from_bytes_mod_order_wide of the hashes"
    if not ex.find(hm[0], lambda x: x[0] == "call" and re.search(r"Iterator>::collect::<", x[1])):
        return "hram scalars are not derived from the collected hashes"
    ck, _ = closure_key(mh[1])
    cfv, ce = closure_ret(F, ck) if ck else (None, None)
    mul = m(ce, r"ops::Mul.*::mul$", 2) if ce else None
    if not (mul and {ex.strip(x)[2].replace("*", "") for x in mul if ex.strip(x)[0] == "arg"} == {".0", ".1"}):
        return "third scalar segment terms are not h*z"
    return None
