"""C11 - no limb overflow: every overflow check, debug assertion, bounds check and lane precondition reachable from the
public API of curve25519-dalek is unreachable for all inputs admitted by the (checked, inductive) type invariants."""
import re, time
import ctx
from eng_absint import Driver, excess_bits
from absint import show_val

LEVEL = "proof"
TECHNIQUE = ("ABSINT: interval abstract interpretation of checked-mode MIR (overflow checks and debug assertions are explicit Assert / panic "
             "edges): path-following executor with forks joined at post-dominators, loop fixpoints with widening, value partitioning for "
             "recentering idioms, parity/shift-aware branch refinement; roots = every exported function of curve25519-dalek with its parameters "
             "at the type invariants; produced values are checked against the same invariants (inductive)")

EXCLUDE = (r"fmt$|Visitor|serde|Deserialize|Serialize|::hash$|ops::Index(Mut)?<usize>|backend::serial::\w+::field::|"
           r"group::ff::Field>::(sqrt|sqrt_ratio|random)$|::random$|Group>::random$|PrimeFieldBits|"
           # documented as non-inductive ("it is not safe to repeatedly negate a point": b < 1.0 -> needs b < 0.999): analysed only in the
           # contexts that reach it (LookupTable::select / Sub on fresh table entries), never as a root over the whole invariant
           r"vector::(avx2|ifma)::edwards::CachedPoint as core::ops::Neg>::neg$|vector::(avx2|ifma)::edwards::ExtendedPoint as core::ops::Sub<&.*CachedPoint>>::sub$")
# reviewed residuals: obligations the interval domain cannot discharge, each with its reason (keys have no line numbers)
RESIDUALS = [
    (r"precomputed_straus::.*optional_mixed_multiscalar_mul$", r"^call:panic$", r"sp >= static_nafs\.len\(\)|^adt\{\}, &\(\(tuple\{",
     "assert!(sp >= static_nafs.len()) / assert_eq!(dp, dynamic_nafs.len()): the documented precondition of the precomputed multiscalar API (traits.rs: the iterators must have consistent lengths); the abstract collections have independent lengths"),
    (r"precomputed_straus::.*optional_mixed_multiscalar_mul$", r"^call:index$", r"",
     "dynamic_nafs[i], dynamic_lookup_tables[i], static_nafs[i], static_lookup_tables[i] with i below the vector's own length or a length asserted equal / not larger two statements earlier: relational, outside the interval domain"),
    (r"edwards::EdwardsPoint as .*traits::(Vartime)?MultiscalarMul>::(optional_)?multiscalar_mul$", r"^call:panic$", r"^adt\{\}, &\(\(tuple\{",
     "assert_eq! on the size hints of the two input iterators: the documented domain of (optional_)multiscalar_mul is two iterators of the same length (traits.rs: 'It is an error to call this function with two iterators of different lengths'); the abstract collections have independent lengths"),
    (r"edwards::EdwardsPoint::nonspec_map_to_curve$", r"^call:expect$", r"^to_edwards\(&elligator_encode",
     "expect() on to_edwards(elligator_encode(..)): to_edwards is None only for u = -1 (C15 checks that its None exits are exactly that test) and -1 is not the u-coordinate of a curve point, which is what elligator_encode returns (algebraic fact, not an interval fact)"),
    (r"scalar::Scalar::batch_invert$", r"^call:panic$", r"acc\.pack\(\) != Scalar::ZERO",
     "debug_assert!(acc.pack() != Scalar::ZERO): the documented precondition of batch_invert is that all inputs are non-zero (outside the documented domain otherwise)"),
    (r"field::<impl .*FieldElement\w+>::batch_invert$", r"^call:panic$", r"acc\.is_zero",
     "assert!(!acc.is_zero()): acc is the product of the inputs with zeros skipped, so it is never zero (algebraic fact, not an interval fact)"),
    (r"packed_simd::u64x4 as core::ops::Sub>::sub::__Impl_sub__>::_impl_sub$", r"^lane:sub64$", r"^in ::_impl_negate_lazy$",
     "A6 (IFMA, thorough tier only): F51x4Unreduced::negate_lazy subtracts the multiplier's output limbs from the limbs of 16p (2^55 - 304).  A true output limb of the "
     "IFMA multiplier is below that, but its interval bound is 2^55 + 2^34 because the low and high 52-bit halves of one 104-bit product (madd52lo / madd52hi) are "
     "bounded independently; relational, outside the interval domain.  The undocumented precondition is taken as an assumption"),
    (r"packed_simd::u64x4 as core::ops::Add>::add::__Impl_add__>::_impl_add$", r"^lane:add64$", r"^in ifma::field::F51x4Unreduced as ::add::_impl_add$",
     "A6 (consequence): the sum that follows the negate_lazy above sees its possibly-wrapped result as [0, 2^64)"),
    (r"window::NafLookupTable\d::<T>::select$", r"^call:panic$", r"^adt\{\}, &\(\(tuple",
     "A4: debug_assert_eq!(x & 1, 1): non-zero NAF digits are odd (established by the parity test in non_adjacent_form; parity of array contents is outside the interval domain)"),
]

QUICK = [("simd", "u64"), ("serial32", "u32")]
THOROUGH = QUICK + [("serial64", "u64"), ("notables-serial64", "u64"), ("ifma", "u64")]


def run(tier, R):
    cfgs = QUICK if tier == "quick" else THOROUGH
    FS = ctx.facts_for(R, [(c, "checked") for c, _ in cfgs])
    R.trust("rustc MIR construction with -C overflow-checks=on -C debug-assertions=on; mirfacts exporter; lib/absint.py interpreter and lib/absint_models.py library models; the invariant table in lib/eng_absint.py (checked inductively: every produced value is re-checked against it)")
    R.assume("A1: the conditional subtraction in Scalar52/29::sub yields a value < l (top limb bound); relational, outside the interval domain")
    R.assume("A2: the Karatsuba Scalar29::mul_internal/square_internal outputs are the true column sums (wrapping intermediates cancel)")
    R.assume("A3: user-supplied iterators / slices behave as abstract collections of values satisfying the element invariant")
    R.assume("A4: non-zero NAF digits are odd (debug_assert_eq!(x & 1, 1) in NafLookupTable*::select)")
    if tier != "quick":
        R.assume("A6 (ifma configuration): the IFMA multiplier's output limbs are below the limbs of 16p, so negate_lazy does not wrap (two obligations, relational)")
    R.note("vector (AVX2 / IFMA) and fiat backends: see DESIGN.md section 9 for their status in this check")
    R.note("generic entry points (multiscalar Straus / Pippenger, Sum / Product folds, batch_invert, double_and_compress_batch, mul_bits_be) are analysed with abstract collections (A3); Pippenger is analysed once per window width (trace partitioning)")
    for (cfg, backend) in cfgs:
        F = FS.get((cfg, "checked"))
        if F is None:
            continue
        check_cfg(F, R, cfg, backend)


def check_cfg(F, R, cfg, backend):
    I = lambda s: "%s:%s" % (cfg, s)
    t0 = time.time()
    D = Driver(F, backend)
    roots = D.root_candidates(r"^curve25519_dalek::", EXCLUDE)
    # operations on the vector backend's point types are analysed as roots too, with the documented invariants of ExtendedPoint
    # (b < 0.007) and CachedPoint (b < 1.0); bare FieldElement2625x4 parameters have no type invariant and are reached in context
    for f in sorted(roots, key=lambda f: f["key"]):
        D.run_root(f)
    R.floor("C11.roots", I("exported functions analysed as roots"), len(D.roots_run), 250)
    # kernel contracts: the field kernels with their documented input bound (u64: limbs < 2^54; u32: b < 1.75) as precondition
    n0 = len(D.roots_run)
    kroots = D.root_candidates(r"^curve25519_dalek::backend::serial::(u64|u32)::field::", r"from_limbs|::add$|::add_assign$|fmt$|zeroize|::test", exported_only=False)
    kroots = [f for f in kroots if re.match(r"(sub|sub_assign|neg|negate|mul|mul_assign|square|square2|pow2k|as_bytes|from_bytes|conditional_select|conditional_assign|conditional_swap)$", f.get("name") or "")
              and not re.search(r"::(reduce|mul|pow2k|from_bytes|square_inner)::", f["key"])]
    for f in sorted(kroots, key=lambda f: f["key"]):
        ov = None
        if f.get("name") == "pow2k":
            from absint import I as _I
            ov = {1: _I(1, 300)}
        D.run_root(f, ov, check_ret=False)
    R.floor("C11.roots", I("field kernels analysed with their documented precondition"), len(D.roots_run) - n0, 12)
    for f, why in D.errors:
        R.viol("C11.analysis", I(short(f)), "analysis did not complete: %s" % why, F.loc(f))
    n = 0
    for key, o in sorted(D.ip.obl.items(), key=lambda kv: (kv[1].fn["path"], kv[1].kind, kv[1].detail)):
        n += 1
        inst = "%s:%s:%s" % (short(o.fn), o.kind, o.detail)
        if o.ok:
            R.ok("C11.obligation", I(inst), "")
            continue
        res = None
        for fp, kp, dp, why in RESIDUALS:
            if re.search(fp, o.fn["path"]) and re.search(kp, o.kind) and re.search(dp, o.detail):
                res = why
        if res:
            R.ok("C11.assumed", I(inst), res)
        else:
            R.viol("C11.obligation", I(inst), "%s in %s may fail: %s" % (o.kind, short(o.fn), o.why), o.loc)
    R.floor("C11.obligation", I("overflow/bounds/assertion obligations"), n, 500)
    nr = 0
    worst = {}
    for f, kind, ok, why, val in D.ret_obl:
        nr += 1
        inst = "%s:%s" % (short(f), kind)
        if ok:
            R.ok("C11.invariant", I(inst), "produced value satisfies its type invariant")
        else:
            R.viol("C11.invariant", I(inst), "value produced by %s violates the type invariant (%s): the invariant table is not inductive here" % (short(f), why), F.loc(f))
        ty = (f.get("output") or "").split("::")[-1]
        if val is not None and ty:
            worst[ty] = max(worst.get(ty, -99), excess_bits(val, backend))
    R.floor("C11.invariant", I("invariant re-establishment obligations"), nr, 200)
    R.extra.setdefault("absint", {})[cfg] = {
        "roots": len(D.roots_run), "skipped_roots": len(D.skipped), "steps": D.ip.steps, "wall_s": round(time.time() - t0, 1),
        "obligations": n, "invariant_obligations": nr,
        "assumptions_used": sorted(getattr(D.ip, "used_assumptions", set())),
        "unmodelled_callees": dict(sorted(D.ip.unmodelled.items(), key=lambda x: -x[1])[:12]),
        "max_limb_excess_bits_by_returned_type": {k: round(v, 3) for k, v in sorted(worst.items()) if v > -50},
        "skipped_reasons": sorted({w.split(" of type ")[-1] for _, w in D.skipped})[:20],
    }


def short(f):
    p = f["path"].replace("curve25519_dalek::", "").replace("backend::serial::", "")
    return p[-110:]
