"""C17 - ff/group trait impls: constants satisfy their defining relations (exhaustive arithmetic, incl. the generator's
order via the factorisation of l-1 and the Tonelli-Shanks exponent literal); from_repr / from_repr_vartime / invert /
into_subgroup / from_bytes success flags derive from the canonical, non-zero and torsion-free predicates;
clear_cofactor = x8; GroupEncoding = compress/decompress; SubgroupPoint cannot be built from an unchecked point."""
import re
import ctx
from mirlib import view, cname, expr_of, root, op_local, op_const
from pathlib2 import Guard, established, success_sites, dominated, expr_guard_edges
from eng_consts import Consts, selfcheck
import oracle as O
import ex

LEVEL = "other"
TECHNIQUE = ("CONSTS: exhaustive arithmetic on the evaluated ff constants (big-integer oracle); PATH: must-pass-through / flag implication / "
             "delegation identity on every ff and group trait method of Scalar, EdwardsPoint, SubgroupPoint (RistrettoPoint's decoder is C06's); "
             "group feature builds of all serial backends")

SC = "curve25519_dalek::scalar::Scalar"
EP = "curve25519_dalek::edwards::EdwardsPoint"
SP = "curve25519_dalek::edwards::SubgroupPoint"
L = O.L
# factorisation of l-1 (verified below: product and primality), used to decide that the advertised generator has order l-1
LM1_FACTORS = [2, 2, 3, 11, 198211423230930754013084525763697, 276602624281642239937218680557139826668747]


def is_prime(n):
    if n < 2:
        return False
    for p in (2, 3, 5, 7, 11, 13, 17, 19, 23, 29, 31, 37):
        if n % p == 0:
            return n == p
    d, s = n - 1, 0
    while d % 2 == 0:
        d //= 2
        s += 1
    for a in (2, 3, 5, 7, 11, 13, 17, 19, 23, 29, 31, 37, 41, 43, 47, 53, 59, 61, 67, 71):
        x = pow(a, d, n)
        if x in (1, n - 1):
            continue
        for _ in range(s - 1):
            x = x * x % n
            if x == n - 1:
                break
        else:
            return False
    return True


def run(tier, R):
    selfcheck()
    prod = 1
    for q in LM1_FACTORS:
        prod *= q
    assert prod == L - 1 and all(is_prime(q) for q in LM1_FACTORS) and is_prime(L)
    cfgs = [("simd", "release"), ("serial32", "release")]
    if tier == "thorough":
        cfgs += [("serial64", "release"), ("fiat64", "release"), ("fiat32", "release"), ("notables", "release")]
    FS = ctx.facts_for(R, cfgs)
    R.trust("rustc const evaluation and MIR; mirfacts; lib/oracle.py; Miller-Rabin (20 bases) for the two large factors of l-1")
    R.assume("ff's generic helpers sqrt_tonelli_shanks / sqrt_ratio_generic are correct given correct constants (external crate); scalar arithmetic is exact (C02)")
    for (cfg, mode), F in FS.items():
        if not F.has_cfg("feature=group"):
            R.viol("C17.cfg", "%s:group feature" % cfg, "configuration was expected to enable the group feature")
            continue
        check_cfg(F, R, cfg)


def rc(fv, o, pat):
    r = root(fv, o)
    if r[0] == "call" and re.search(pat, cname(r[2])):
        return r[2]
    return None


def check_cfg(F, R, cfg):
    I = lambda s: "%s:%s" % (cfg, s)
    C = Consts(F, R, cfg)
    C.ff_constants(rule="C17.ff")
    # generator order: g^((l-1)/q) != 1 for every prime q | l-1
    gs = [c for c in F.consts.values() if c["path"].endswith("::MULTIPLICATIVE_GENERATOR") and c.get("self_ty") == SC and "value" in c]
    if gs:
        from eng_consts import bytes_le
        g = bytes_le(gs[0]["value"])[0]
        good = all(pow(g, (L - 1) // q, L) != 1 for q in set(LM1_FACTORS)) and pow(g, L - 1, L) == 1
        (R.ok if good else R.viol)("C17.ff", I("PrimeField::MULTIPLICATIVE_GENERATOR:order"), "g has order exactly l-1 (checked against every prime factor of l-1)" if good else
                                   "MULTIPLICATIVE_GENERATOR does not generate the multiplicative group")

    def method(self_ty, trait, name):
        fs = [f for f in F.fns.values() if "mir" in f and f.get("self_ty") == self_ty and re.search(trait, f.get("trait") or "") and f.get("name") == name]
        if len(fs) != 1:
            R.anchor_missing("C17.anchor", I("<%s as %s>::%s" % (self_ty.split("::")[-1], trait, name)), "%d matches" % len(fs))
            return None
        return fs[0]

    def delegates(rule, self_ty, trait, name, callee_pat, argmap, desc):
        f = method(self_ty, trait, name)
        if not f:
            return
        fv = view(F, f)
        good = False
        for s in fv.exit_sites():
            if s["kind"] == "call" and re.search(callee_pat, cname(s["term"])):
                good = all(root(fv, s["term"]["args"][i])[:2] == ("arg", a) for i, a in enumerate(argmap))
        (R.ok if good else R.viol)(rule, I("<%s as %s>::%s" % (self_ty.split("::")[-1], trait.strip("$").split("::")[-1], name)), desc if good else "does not delegate as documented: expected " + desc,
                                   *(() if good else (fv.loc(),)))

    # ------------------------------------------------------------------ PrimeField / Field for Scalar
    delegates("C17.from_repr", SC, r"ff::PrimeField$", "from_repr", r"Scalar::from_canonical_bytes$", [1], "from_repr = from_canonical_bytes")
    f_tr = method(SC, r"ff::PrimeField$", "to_repr")
    if f_tr:
        fv_ = view(F, f_tr)
        a_sc = F.adts.get(SC)
        bi_ = [i for i, fl in enumerate(a_sc["variants"][0]["fields"]) if fl["name"] == "bytes"] if a_sc else []
        e_tr = ex.strip(expr_of(fv_, ["m", [0, []]], 6))
        direct = bool(bi_) and isinstance(e_tr, tuple) and e_tr[:2] == ("arg", 1) and e_tr[2] in (".%d" % bi_[0], "*.%d" % bi_[0])
        if direct:
            R.ok("C17.to_repr", I("<Scalar as PrimeField>::to_repr"), "to_repr = self.bytes (what to_bytes returns)")
        else:
            delegates("C17.to_repr", SC, r"ff::PrimeField$", "to_repr", r"Scalar::to_bytes$", [1], "to_repr = to_bytes")
    delegates("C17.sqrt_ratio", SC, r"ff::Field$", "sqrt_ratio", r"ff::helpers::sqrt_ratio_generic", [1, 2], "sqrt_ratio = ff::helpers::sqrt_ratio_generic(num, div)")
    delegates("C17.square", SC, r"ff::Field$", "square", r"ops::Mul.*::mul$", [1, 1], "square = self * self")
    delegates("C17.double", SC, r"ff::Field$", "double", r"ops::Add.*::add$", [1, 1], "double = self + self")
    delegates("C17.from_uniform", SC, r"ff::FromUniformBytes<64>$", "from_uniform_bytes", r"Scalar::from_bytes_mod_order_wide$", [1], "from_uniform_bytes = from_bytes_mod_order_wide")
    f = method(SC, r"ff::PrimeField$", "from_repr_vartime")
    if f:
        fv = view(F, f)
        sites = success_sites(fv)
        # (a) high bit clear
        hi_edges = []
        for bi, b in enumerate(fv.blocks):
            t = b.get("t")
            if t and t["k"] == "switch":
                e = ex.strip(expr_of(fv, t["discr"]))
                if e[0] == "bin" and e[1] in ("Ne", "Eq") and ex.is_const(e[3], 0):
                    sh = ex.strip(e[2])
                    if sh[0] == "bin" and sh[1] == "Shr" and ex.is_const(sh[3], 7):
                        by = ex.strip(sh[2])
                        if by[0] == "idx" and ex.is_const(by[2], 31) and ex.is_arg(by[1], 1, ""):
                            clear = 0 if e[1] == "Ne" else 1
                            for v, tb in t["targets"]:
                                if v == clear:
                                    hi_edges.append((bi, tb, ("sw", v)))
                            if clear == 1 and [v for v, _ in t["targets"]] == [0]:
                                hi_edges.append((bi, t["otherwise"], ("sw", "otherwise")))
        good = bool(hi_edges) and bool(sites) and dominated(fv, [s["bb"] for s in sites], hi_edges)
        (R.ok if good else R.viol)("C17.from_repr_vartime.high_bit", I("from_repr_vartime"), "Some only when bit 255 of the input is clear" if good else "Some reachable with the top bit set", *(() if good else (fv.loc(),)))

        # (b) candidate == candidate.reduce()
        def eq_pred(fv_, t):
            sides = []
            for a in t["args"]:
                r = root(fv_, a)
                red = rc(fv_, a, r"Scalar::reduce$")
                if red is not None:
                    sides.append(("reduce", root(fv_, red["args"][0])))
                else:
                    sides.append(("plain", r))
            kinds = sorted(k for k, _ in sides)
            if kinds != ["plain", "reduce"]:
                return False
            plain = [r for k, r in sides if k == "plain"][0]
            red = [r for k, r in sides if k == "reduce"][0]
            return plain[:2] == red[:2] and is_candidate(fv_, plain)

        def is_candidate(fv_, r):
            if r[0] != "local":
                return False
            ds = [d for d in fv_.defs.get(r[1], []) if not d.via_mutref]
            return len(ds) == 1 and ds[0].kind == "assign" and ds[0].rv[0] == "agg" and ds[0].rv[1][1] == SC and root(fv_, ds[0].rv[2][0])[:2] == ("arg", 1)
        g = Guard("candidate == candidate.reduce()", r"Scalar as core::cmp::PartialEq>::eq$|impl core::cmp::PartialEq for .*Scalar>::eq$", want=1, arg_pred=eq_pred,
                  alt=[(r"Scalar as core::cmp::PartialEq>::ne$|impl core::cmp::PartialEq for .*Scalar>::ne$", 0)])
        ok, why = established(F, f, [g])
        (R.ok if ok else R.viol)("C17.from_repr_vartime.canonical", I("from_repr_vartime"), "Some only when Scalar{bytes: repr} equals its reduction" if ok else why, *(() if ok else (fv.loc(),)))
        pay = all(s["kind"] == "agg" and is_candidate(fv, root(fv, s["ops"][0])) for s in sites) and bool(sites)
        (R.ok if pay else R.viol)("C17.from_repr_vartime.payload", I("from_repr_vartime"), "Some(Scalar{bytes: repr})" if pay else "payload is not the candidate built from the input bytes", *(() if pay else (fv.loc(),)))
    f = method(SC, r"ff::Field$", "invert")
    if f:
        fv = view(F, f)
        news = fv.find_calls(r"subtle::CtOption(::)?<.*>::new$")
        good = False
        if len(news) == 1:
            t = news[0][1]
            imps = ex.implications(expr_of(fv, t["args"][1]), True)
            iz = [a for a, v in imps if v is False and ex.is_call(a, r"Scalar::is_zero$|::is_zero$") and ex.is_arg(ex.call_args(a)[0], 1)]
            if not iz:
                # the same test spelled out: !self.ct_eq(&Scalar::ZERO) (either operand order)
                def zero_const(x):
                    x = ex.strip(x)
                    while isinstance(x, tuple) and x[0] in ("proj", "ref", "deref") and len(x) > 1 and isinstance(x[1], tuple):
                        x = ex.strip(x[1])
                    if not (isinstance(x, tuple) and x[0] == "const"):
                        return False
                    if str(x[3] or "").endswith("Scalar::ZERO"):
                        return True
                    v_ = x[1]
                    while isinstance(v_, dict) and "ref" in v_:
                        v_ = v_["ref"]
                    b_ = v_.get("f", {}).get("bytes") if isinstance(v_, dict) and str(v_.get("adt", "")).endswith("scalar::Scalar") else None
                    return isinstance(b_, list) and len(b_) == 32 and all(z == 0 for z in b_)
                for a, v in imps:
                    if v is False and ex.is_call(a, r"Scalar as subtle::ConstantTimeEq>::ct_eq$"):
                        p0, p1 = ex.call_args(a)
                        if (ex.is_arg(p0, 1) and zero_const(p1)) or (ex.is_arg(p1, 1) and zero_const(p0)):
                            iz.append(a)
            inv = rc(fv, t["args"][0], r"Scalar::invert$")
            good = bool(iz) and inv is not None and root(fv, inv["args"][0])[:2] == ("arg", 1)
        (R.ok if good else R.viol)("C17.invert", I("Field::invert"), "CtOption::new(self.invert(), !self.is_zero())" if good else "Field::invert is not None exactly for zero", *(() if good else (fv.loc(),)))
    f = method(SC, r"ff::Field$", "sqrt")
    if f:
        fv = view(F, f)
        good = False
        t = (L - 1) >> 2
        want = [((t - 1) // 2 >> (64 * i)) & (2**64 - 1) for i in range(4)]
        for s in fv.exit_sites():
            if s["kind"] == "call" and re.search(r"ff::helpers::sqrt_tonelli_shanks", cname(s["term"])):
                e = ex.strip(expr_of(fv, s["term"]["args"][1]))
                vals = None
                if e[0] == "agg" and e[1][0] == "array":
                    vals = [ex.strip(x)[1] for x in e[2]]
                elif e[0] == "const" and isinstance(e[1], list):
                    vals = e[1]
                good = vals == want and root(fv, s["term"]["args"][0])[:2] == ("arg", 1)
        (R.ok if good else R.viol)("C17.sqrt_exponent", I("Field::sqrt"), "sqrt_tonelli_shanks(self, (t-1)/2) with t = (l-1)/2^S" if good else "Field::sqrt is not sqrt_tonelli_shanks(self, (t-1)/2) with t = (l-1)/2^S (the only form this rule decides)", *(() if good else (fv.loc(),)))
    f = method(SC, r"ff::PrimeField$", "is_odd")
    if f:
        fv = view(F, f)
        good = False
        for s in fv.exit_sites():
            if s["kind"] == "call" and re.search(r"Choice as core::convert::From<u8>>::from$", cname(s["term"])):
                e = ex.strip(expr_of(fv, s["term"]["args"][0]))
                if e[0] == "bin" and e[1] == "BitAnd":
                    a, b = ex.strip(e[2]), ex.strip(e[3])
                    x = a if ex.is_const(b, 1) else (b if ex.is_const(a, 1) else None)
                    good = x is not None and x[0] == "idx" and ex.is_const(x[2], 0) and ex.mentions_arg(x[1], 1)
        (R.ok if good else R.viol)("C17.is_odd", I("PrimeField::is_odd"), "bit 0 of byte 0" if good else "is_odd is not bit 0 of the canonical bytes", *(() if good else (fv.loc(),)))

    # ------------------------------------------------------------------ group traits for EdwardsPoint / SubgroupPoint
    f = method(EP, r"GroupEncoding$", "from_bytes")
    if f:
        fv = view(F, f)
        news = fv.find_calls(r"subtle::CtOption(::)?<.*>::new$")
        good = False
        if len(news) == 1:
            t = news[0][1]
            s2 = rc(fv, t["args"][0], r"edwards::decompress::step_2$")
            fl = root(fv, t["args"][1])
            s1s = fv.find_calls(r"edwards::decompress::step_1$")
            if s2 and len(s1s) == 1 and fl[0] == "local" and fl[2] == ".0":
                s1t = s1s[0][1]
                ds = [d for d in fv.defs.get(fl[1], []) if not d.via_mutref]
                from_s1 = len(ds) == 1 and ds[0].kind == "call" and ds[0].term is s1t
                xyz = []
                for o in s2["args"][1:]:
                    r = root(fv, o)
                    xyz.append(r[2] if r[0] == "local" and r[1] == fl[1] else None)
                same_repr = root(fv, s2["args"][0])[:2] == root(fv, s1t["args"][0])[:2]
                good = from_s1 and xyz == [".1", ".2", ".3"] and same_repr
        epa_ = F.adts.get(EP)
        if not good and epa_:
            # structural form not recognised (or the native decoder's private helpers were renamed): decide the group decoder itself
            import tables
            import formula_rules as FR_
            fe_ty_ = epa_["variants"][0]["fields"][0]["ty"]
            sem = [FR_.decode_instance(F, fe_ty_, r"EdwardsPoint as group::GroupEncoding>::from_bytes$", "GroupEncoding::from_bytes", sg_, raw_bytes=True) for sg_ in (0, 1)]
            t_ok, t_msg = tables.ctoption_flag_table(F, f, r"::sqrt_ratio_i$")
            if all(x[2] for x in sem) and t_ok:
                R.ok("C17.edwards_from_bytes", I("GroupEncoding for EdwardsPoint::from_bytes"), "structural form not recognised; decided semantically: for both sign bits the value is the point "
                     "(+-r, y, 1, x y) with r the root of (y^2-1)/(d y^2+1), and " + t_msg)
                good = None
        if good is None:
            pass
        else:
          (R.ok if good else R.viol)("C17.edwards_from_bytes", I("GroupEncoding for EdwardsPoint::from_bytes"), "CtOption::new(step_2(repr, X,Y,Z of step_1), validity flag of step_1) (= decompress)" if good else
                                   "group decoding does not use the native decoder's flag and coordinates", *(() if good else (fv.loc(),)))
    delegates("C17.edwards_from_bytes", EP, r"GroupEncoding$", "from_bytes_unchecked", r"GroupEncoding>::from_bytes$", [1], "from_bytes_unchecked = from_bytes")
    f = method(EP, r"GroupEncoding$", "to_bytes")
    if f:
        fv = view(F, f)
        good = any(s["kind"] == "call" and re.search(r"CompressedEdwardsY::to_bytes$", cname(s["term"])) and rc(fv, s["term"]["args"][0], r"EdwardsPoint::compress$") is not None for s in fv.exit_sites())
        if not good:
            # `let CompressedEdwardsY(bytes) = self.compress(); bytes`: field 0 of the compressed point
            e_ = ex.strip(expr_of(fv, ["m", [0, []]], 8), through_calls=False)
            good = isinstance(e_, tuple) and e_[0] == "proj" and e_[2] == ".0" and ex.is_call(e_[1], r"EdwardsPoint::compress$") and ex.is_arg(ex.call_args(e_[1])[0], 1)
        (R.ok if good else R.viol)("C17.to_bytes", I("GroupEncoding for EdwardsPoint::to_bytes"), "compress().to_bytes()" if good else "to_bytes is not compress().to_bytes()", *(() if good else (fv.loc(),)))
    f = method(EP, r"CofactorGroup$", "clear_cofactor")
    if f:
        fv = view(F, f)
        good = any(s["kind"] == "agg" and s.get("adt") == SP and rc(fv, s["ops"][0], r"EdwardsPoint::mul_by_cofactor$") is not None for s in fv.exit_sites())
        (R.ok if good else R.viol)("C17.clear_cofactor", I("clear_cofactor"), "SubgroupPoint(self.mul_by_cofactor()) (x8, see C03.cofactor)" if good else "clear_cofactor is not multiplication by the cofactor", *(() if good else (fv.loc(),)))
    f = method(EP, r"CofactorGroup$", "into_subgroup")
    if f:
        fv = view(F, f)
        news = fv.find_calls(r"subtle::CtOption(::)?<.*>::new$")
        good = False
        if len(news) == 1:
            t = news[0][1]
            imps = ex.implications(expr_of(fv, t["args"][1]), True)
            tf = [a for a, v in imps if v is True and ex.is_call(a, r"CofactorGroup>::is_torsion_free$") and ex.mentions_arg(a, 1)]
            r = root(fv, t["args"][0])
            wrap = False
            if r[0] == "local":
                ds = fv.defs.get(r[1], [])
                wrap = len(ds) == 1 and ds[0].kind == "assign" and ds[0].rv[0] == "agg" and ds[0].rv[1][1] == SP and root(fv, ds[0].rv[2][0])[:2] == ("arg", 1)
            good = bool(tf) and wrap
        (R.ok if good else R.viol)("C17.into_subgroup", I("into_subgroup"), "CtOption::new(SubgroupPoint(self), is_torsion_free(self))" if good else "into_subgroup's flag is not the torsion-free predicate of the same point", *(() if good else (fv.loc(),)))
    f = method(EP, r"CofactorGroup$", "is_torsion_free")
    if f:
        fv = view(F, f)
        good = False
        for s in fv.exit_sites():
            is_id = s["kind"] == "call" and re.search(r"(group::Group|traits::IsIdentity)>::is_identity$", cname(s["term"]))
            if s["kind"] == "call" and (is_id or re.search(r"ConstantTimeEq.*::ct_eq$", cname(s["term"]))):
                m = rc(fv, s["term"]["args"][0], r"ops::Mul.*::mul$")
                # either compared with the identity directly or through an identity predicate (C17.is_identity decides that those are ct_eq with the identity)
                idt = True if is_id else rc(fv, s["term"]["args"][1], r"::identity$")
                if m and idt:
                    names = []
                    for o in m["args"]:
                        e = ex.strip(expr_of(fv, o))
                        names.append(str(e[3]) if e[0] == "const" else ("arg%d" % e[1] if e[0] == "arg" else "?"))
                    good = any(n.endswith("constants::BASEPOINT_ORDER_PRIVATE") or n.endswith("constants::BASEPOINT_ORDER") for n in names) and "arg1" in names
        (R.ok if good else R.viol)("C17.is_torsion_free", I("CofactorGroup::is_torsion_free"), "(self * l).ct_eq(identity)" if good else "is_torsion_free is not [l]P == identity", *(() if good else (fv.loc(),)))
    # identity predicates of the group traits make exactly the comparisons of equality with the identity (FORMULA domain)
    import formula_rules as FR
    epa = F.adts.get(EP)
    if epa:
        fe_ty = epa["variants"][0]["fields"][0]["ty"]
        nid = 0
        for inst, f_, ok, msg in FR.identity_predicates(F, fe_ty):
            nid += 1 if f_ else 0
            (R.ok if ok else R.viol)("C17.is_identity", I(inst), msg, *(() if ok else (F.loc(f_) if f_ else "",)))
        R.floor("C17.is_identity", I("Group::is_identity impls decided"), nid, 3)
        ns = 0
        for inst, f_, ok, msg in FR.point_sums(F, r"edwards::SubgroupPoint"):
            ns += 1
            (R.ok if ok else R.viol)("C17.sum", I(inst), msg, *(() if ok else (F.loc(f_),)))
        R.floor("C17.sum", I("SubgroupPoint Sum impl decided"), ns, 1)
    good_from_bytes = False
    for nm in ("from_bytes", "from_bytes_unchecked"):
        f = method(SP, r"GroupEncoding$", nm)
        if f:
            fv = view(F, f)
            good = False
            for s in fv.exit_sites():
                if s["kind"] == "call" and re.search(r"subtle::CtOption(::)?<.*>::and_then", cname(s["term"])):
                    src = rc(fv, s["term"]["args"][0], r"EdwardsPoint as group::GroupEncoding>::%s$" % nm)
                    ce = ex.strip(expr_of(fv, s["term"]["args"][1]))
                    ck = ce[1][1] if ce[0] == "agg" and ce[1][0] == "closure" else None
                    cf = F.fns.get(ck) if ck else None
                    inner = False
                    if cf:
                        cv = view(F, cf)
                        inner = any(x["kind"] == "call" and re.search(r"CofactorGroup>::into_subgroup$", cname(x["term"])) and root(cv, x["term"]["args"][0])[:2] == ("arg", 2) for x in cv.exit_sites())
                    elif ce[0] == "fnitem" and re.search(r"CofactorGroup(>)?::into_subgroup$", str(ce[1])):
                        inner = True          # `and_then(CofactorGroup::into_subgroup)`: the function itself instead of a closure around it
                    good = src is not None and inner
                elif nm == "from_bytes_unchecked" and good_from_bytes and s["kind"] == "call" and \
                        re.search(r"SubgroupPoint as group::GroupEncoding>::from_bytes$", cname(s["term"])) and root(fv, s["term"]["args"][0])[:2] == ("arg", 1):
                    good = True               # delegates to the checked decoder (already decided) on the same bytes
            if nm == "from_bytes":
                good_from_bytes = good
            (R.ok if good else R.viol)("C17.subgroup_from_bytes", I("GroupEncoding for SubgroupPoint::" + nm), "EdwardsPoint::%s(bytes).and_then(into_subgroup)" % nm if good else
                                       "SubgroupPoint decoding does not go through the Edwards decoder and into_subgroup", *(() if good else (fv.loc(),)))
    # SubgroupPoint constructor inventory: only into_subgroup / clear_cofactor may wrap an arbitrary EdwardsPoint parameter
    a = F.adts.get(SP)
    vis = a["variants"][0]["fields"][0]["vis"] if a else "pub"
    (R.ok if vis != "pub" else R.viol)("C17.subgroup_encapsulation", I("SubgroupPoint.0 visibility"), "field visibility %s" % vis if vis != "pub" else "SubgroupPoint's inner point is public")
    n = 0
    for f in F.fns.values():
        if "mir" not in f or f.get("derived") or f["crate"] != "curve25519_dalek":
            continue
        fv = view(F, f)
        for b in fv.blocks:
            for s in b["s"]:
                if s[0] == "=" and s[2][0] == "agg" and s[2][1][0] == "adt" and s[2][1][1] == SP:
                    n += 1
                    key = f["path"].split("curve25519_dalek::")[-1] + ("<%s>" % f["trait"].split("::")[-1] if f.get("trait") else "")
                    if f.get("name") in ("into_subgroup", "clear_cofactor") and re.search(r"CofactorGroup$", f.get("trait") or ""):
                        R.ok("C17.subgroup_constructors", I(key), "checked constructor")
                        continue
                    e = expr_of(fv, s[2][2][0])
                    bad = [fv.locals[x[1]]["ty"] for x in ex.find(e, lambda x: x[0] == "arg") if re.search(r"edwards::EdwardsPoint|CompressedEdwardsY|\[u8", fv.locals[x[1]]["ty"]) and "Subgroup" not in fv.locals[x[1]]["ty"]]
                    (R.viol if bad else R.ok)("C17.subgroup_constructors", I(key), ("SubgroupPoint wrapped around unchecked input of type %s" % bad) if bad else "built from subgroup points / scalars / constants only",
                                              *((fv.loc(s[3]),) if bad else ()))
    R.floor("C17.subgroup_constructors", I("SubgroupPoint aggregate sites"), n, 10)
