"""C16 - serde: every hand-written Deserialize path of a validated type goes through the native validating decoder,
Serialize emits the canonical encoder's bytes, 32-element framing, trailing-element rejection, StaticSecret unclamped."""
import re
import ctx
from mirlib import view, cname, expr_of, root, same_value, op_local
from pathlib2 import Guard, established, success_sites, dominated, reachable_fns
import ex

LEVEL = "other"
TECHNIQUE = ("PATH over every serde Visitor / Serialize / Deserialize impl of the three crates (discovered from the impl table, not listed by hand): "
             "must-pass-through of the native validator on every Ok exit, data-dependence of the validated bytes on the 32 elements read, "
             "loop-completion dominance for framing, constant agreement (32) between serialize_tuple and deserialize_tuple, NOCALL of non-validating constructors")

VISITOR = r"serde::de::Visitor"
# validated type -> regex of acceptable validating decoders (success of which is required for Ok)
VALIDATORS = {
    "curve25519_dalek::scalar::Scalar": (r"curve25519_dalek::(scalar::)?Scalar::from_canonical_bytes$", "Scalar::from_canonical_bytes"),
    "curve25519_dalek::edwards::EdwardsPoint": (r"curve25519_dalek::edwards::CompressedEdwardsY::decompress$", "CompressedEdwardsY::decompress"),
    "curve25519_dalek::ristretto::RistrettoPoint": (r"curve25519_dalek::ristretto::CompressedRistretto::decompress$", "CompressedRistretto::decompress"),
    "ed25519_dalek::verifying::VerifyingKey": (r"ed25519_dalek::verifying::VerifyingKey as core::convert::TryFrom<&\[u8\]>>::try_from$|ed25519_dalek::verifying::VerifyingKey::from_bytes$", "VerifyingKey::try_from(&[u8]) / from_bytes"),
    "ed25519_dalek::signing::SigningKey": (r"ed25519_dalek::signing::SigningKey as core::convert::TryFrom<&\[u8\]>>::try_from$|ed25519_dalek::signing::SigningKey as core::convert::From<&?\[u8; \w+\]>>::from$|ed25519_dalek::signing::SigningKey::from_bytes$", "SigningKey::try_from / from / from_bytes"),
}
RAW = {"curve25519_dalek::edwards::CompressedEdwardsY", "curve25519_dalek::ristretto::CompressedRistretto"}
FORBIDDEN = r"Scalar::from_bytes_mod_order(_wide)?$|Scalar::from_bits(_clamped)?$|scalar::clamp_integer$"


def norm_ty(t):
    return t.replace("curve25519_dalek::Scalar", "curve25519_dalek::scalar::Scalar").replace("curve25519_dalek::EdwardsPoint", "curve25519_dalek::edwards::EdwardsPoint") \
        .replace("curve25519_dalek::RistrettoPoint", "curve25519_dalek::ristretto::RistrettoPoint")


def result_ok_type(out):
    m_ = re.match(r"core::result::Result<(.*), [^,]*>$", out)
    if not m_:
        return None
    t = m_.group(1)
    return norm_ty(t)


def run(tier, R):
    cfgs = [("simd", "release")]
    if tier == "thorough":
        cfgs += [("serial32", "release"), ("fiat64", "release"), ("notables", "release"), ("simd-legacy", "release")]
    FS = ctx.facts_for(R, cfgs)
    R.trust("rustc MIR + resolution; mirfacts; mirlib")
    R.assume("serde derive output for #[derive(Serialize, Deserialize)] newtypes is transparent over the inner bytes; serde formats respect the tuple/bytes framing they are asked for")
    for (cfg, mode), F in FS.items():
        check_cfg(F, R, cfg)
        key_bytes(F, R, cfg)


def key_bytes(F, R, cfg):
    """semantic (BATCHEQ models, lib/sig_rules.py): the byte decoders the visitors of VerifyingKey delegate to keep the input bytes"""
    import sig_rules as SR
    I = lambda s: "%s:%s" % (cfg, s)
    n = 0
    for inst, f, status, msg in SR.key_decode_rules(F):
        if status == "ok":
            n += 1
            R.ok("C16.sem.key_bytes", I(inst), msg)
        elif status == "viol":
            n += 1
            R.viol("C16.sem.key_bytes", I(inst), msg, F.loc(f) if f else "")
        elif status == "missing":
            R.anchor_missing("C16.sem.key_bytes", I(inst), msg)
        else:
            R.note("C16.sem.key_bytes %s inconclusive (%s): the structural rules decide" % (I(inst), msg[:120]))


def check_cfg(F, R, cfg):
    I = lambda s: "%s:%s" % (cfg, s)
    visitors = [f for f in F.fns.values() if "mir" in f and re.search(VISITOR, f.get("trait") or "") and f.get("name", "").startswith("visit_") and not f.get("derived")]
    R.floor("C16.visitors", I("hand-written visitor methods"), len(visitors), 9)
    for f in sorted(visitors, key=lambda f: f["key"]):
        fv = view(F, f)
        T = result_ok_type(f.get("output") or "")
        # inside generic visitors the output prints as Self::Value; take the visitor's Value from the local type of _0
        if T is None or "Value" in T:
            T = result_ok_type(fv.locals[0]["ty"])
        nm = "%s::%s" % ((f.get("self_ty") or "?").split("::")[-1], f["name"])
        if T in VALIDATORS:
            pat, desc = VALIDATORS[T]
            g = Guard(desc + " succeeded", pat, want=1)
            ok, why = established(F, f, [g], memo={})
            if not ok:
                # total constructors (e.g. SigningKey::from([u8;32])) return T itself: Ok(payload) is fine when the payload is that call's value
                sites = success_sites(fv)
                if sites and all(s["kind"] == "agg" and root(fv, s["ops"][0])[0] == "call" and re.search(pat, cname(root(fv, s["ops"][0])[2]))
                                 and not re.search(r"Result|Option", root(fv, s["ops"][0])[2].get("callee_full", "").split("->")[-1] if False else "") for s in sites):
                    ok = True
            (R.ok if ok else R.viol)("C16.validates", I(nm), "every Ok(%s) comes from %s" % (T.split("::")[-1], desc) if ok else why, *(() if ok else (fv.loc(),)))
            # no non-validating constructor anywhere in the visitor (incl. closures)
            bad = []
            for g_ in [f] + F.closures_of(f["key"]):
                gv = view(F, g_)
                for bi, t in gv.calls:
                    if re.search(FORBIDDEN, cname(t)):
                        bad.append(cname(t))
                for b in gv.blocks:
                    for s in b["s"]:
                        if s[0] == "=" and s[2][0] == "agg" and s[2][1][0] == "adt" and norm_ty(s[2][1][1]) == T:
                            bad.append("aggregate " + T.split("::")[-1] + "{..}")
            (R.viol if bad else R.ok)("C16.no_bypass", I(nm), ("value built without the validating decoder: %s" % bad) if bad else "no reducing/clamping constructor or raw aggregate of the validated type",
                                      *((fv.loc(),) if bad else ()))
        elif T in RAW:
            R.ok("C16.raw", I(nm), "raw 32-byte container (no validity rule to apply)")
        else:
            R.viol("C16.unknown_type", I(nm), "visitor for a type the rule table does not know: %s (add its validator)" % T, fv.loc())
            continue
        if f["name"] == "visit_seq":
            B, msg = seq32(F, fv)
            sem = None
            if B is None:
                # the loop is not in the indexed `for i in 0..32` form: decide the same facts on the abstract interpreter instead
                sem = seq32_semantic(F, f, VALIDATORS.get(T, (None,))[0], T)
            if B is not None or (sem and sem[0]):
                R.ok("C16.framing", I(nm), "bytes[i] <- next_element()?.ok_or(invalid_length) for i in 0..32; Ok only after the loop completed" if B is not None else sem[1])
            else:
                R.viol("C16.framing", I(nm), (msg + "; " + sem[1]) if sem else msg, fv.loc())
            if B is not None:
                # the validated / wrapped bytes are that buffer
                good = False
                detail = ""
                for s in success_sites(fv):
                    if s["kind"] == "deleg":
                        sl = fv.slice_back([x for x in [op_local(a) for a in s["term"]["args"]] if x is not None])
                        good = B in sl.locals
                    elif s["kind"] == "agg":
                        sl = fv.slice_back([x for x in [op_local(a) for a in s["ops"]] if x is not None])
                        good = B in sl.locals
                    if not good:
                        detail = "site at line %s" % fv.line_of(s["bb"], s.get("idx", -1))
                        break
                (R.ok if good else R.viol)("C16.framing.dep", I(nm), "the decoded value is computed from the 32 elements read" if good else "Ok value does not depend on the 32 elements read (%s)" % detail,
                                           *(() if good else (fv.loc(),)))
            if f["crate"] == "ed25519_dalek":
                good = trailing_rejected(fv)
                (R.ok if good else R.viol)("C16.trailing", I(nm), "Ok only when no further element follows (remaining > 0 => Err)" if good else "over-long sequences are not rejected before Ok", *(() if good else (fv.loc(),)))

    # ---------------------------------------------------------------- Serialize / Deserialize entry points
    sers = [f for f in F.fns.values() if "mir" in f and re.search(r"serde::(ser::)?Serialize$", f.get("trait") or "") and f.get("name") == "serialize" and not f.get("derived")]
    des = [f for f in F.fns.values() if "mir" in f and re.search(r"serde::(de::)?Deserialize", f.get("trait") or "") and f.get("name") == "deserialize" and not f.get("derived")]
    R.floor("C16.serialize", I("hand-written Serialize impls"), len(sers), 7)
    R.floor("C16.deserialize", I("hand-written Deserialize impls"), len(des), 7)
    tuple_n = {}
    delegating, ser_ok = [], {}
    for f in sorted(sers, key=lambda f: f["key"]):
        fv = view(F, f)
        ty = norm_ty(f.get("self_ty") or "")
        nm = ty.split("::")[-1] + "::serialize"
        st = fv.find_calls(r"Serializer>::serialize_tuple$")
        sb = fv.find_calls(r"Serializer>::serialize_bytes$")
        if st:
            n = ex.strip(expr_of(fv, st[0][1]["args"][1]))
            tuple_n[ty] = n[1] if n[0] == "const" else None
            els = fv.find_calls(r"SerializeTuple>::serialize_element")
            src = None
            if len(els) == 1:
                import C13
                src = C13.loop_iter_source(fv, expr_of(fv, els[0][1]["args"][1], 40))
            elif not els:
                # `iter.try_for_each(|byte| tup.serialize_element(byte))`: the element call lives in a closure; the source is the iterator it is applied to
                fe_ = fv.find_calls(r"Iterator>::(try_for_each|for_each)(::<.*>)?$|Iterator::(try_for_each|for_each)(::<.*>)?$")
                if len(fe_) == 1:
                    ce = ex.strip(expr_of(fv, fe_[0][1]["args"][1]))
                    ck = ce[1][1] if ce[0] == "agg" and ce[1][0] == "closure" else None
                    cf = F.fns.get(ck) if ck else None
                    if cf and "mir" in cf:
                        cv = view(F, cf)
                        ce_ = cv.find_calls(r"SerializeTuple>::serialize_element")
                        if len(ce_) == 1 and root(cv, ce_[0][1]["args"][1])[:2] == ("arg", 2):
                            src = ex.strip(expr_of(fv, fe_[0][1]["args"][0], 40))
                            # `.iter()` / `into_iter()` of the byte container: the container is the source
                            for _ in range(4):
                                if isinstance(src, tuple) and src[0] == "local":
                                    # the iterator variable (taken by &mut): its single definition
                                    ds_ = [d for d in fv.defs.get(src[1], []) if not d.via_mutref]
                                    if len(ds_) == 1 and ds_[0].kind == "call":
                                        src = ("call", cname(ds_[0].term), [expr_of(fv, a_, 40) for a_ in ds_[0].term["args"]])
                                    elif len(ds_) == 1 and ds_[0].kind == "assign" and ds_[0].rv[0] == "use":
                                        src = ex.strip(expr_of(fv, ds_[0].rv[1], 40))
                                    else:
                                        break
                                if ex.is_call(src, r"::iter$|IntoIterator>::into_iter$|Iterator>::by_ref$"):
                                    src = ex.strip(ex.call_args(src)[0])
                                else:
                                    break
            good, want = canonical_source(ty, src)
            good = good and tuple_n[ty] == 32
            ser_ok[ty] = good
            (R.ok if good else R.viol)("C16.serialize", I(nm), "serialize_tuple(32) over " + want if good else
                                       "serialised elements are not the 32 bytes of %s (source: %s, n=%s)" % (want, ex.show(src, 5) if src else None, tuple_n[ty]), *(() if good else (fv.loc(),)))
        elif sb:
            e = expr_of(fv, sb[0][1]["args"][1], 40)
            good, want = canonical_source(ty, e, F)
            ser_ok[ty] = good
            (R.ok if good else R.viol)("C16.serialize", I(nm), "serialize_bytes(" + want + ")" if good else "serialised bytes are not %s: %s" % (want, ex.show(e, 5)), *(() if good else (fv.loc(),)))
        else:
            delegating.append(f)
    for f in delegating:
        # `x.serialize(serializer)` where x's type has its own (already decided) hand-written Serialize: the wire format is that type's, the value must be
        # the canonical encoding of self
        fv = view(F, f)
        ty = norm_ty(f.get("self_ty") or "")
        nm = ty.split("::")[-1] + "::serialize"
        inner = fv.find_calls(r" as [\w:]*Serialize>::serialize(::<.*>)?$")
        good, why = False, "Serialize impl uses neither serialize_tuple nor serialize_bytes"
        if len(inner) == 1:
            t = inner[0][1]
            m_ = re.search(r"<(.*) as [\w:]*Serialize>::serialize(::<.*>)?$", cname(t))
            ty2 = norm_ty(m_.group(1)) if m_ else None
            dec2 = ser_ok.get(ty2)
            e = expr_of(fv, t["args"][0], 40)
            s2 = ty2.split("::")[-1] if ty2 else "?"
            if dec2 and s2 in ("CompressedEdwardsY", "CompressedRistretto", "Scalar"):
                wrapped = ("call", "curve25519_dalek::%s::as_bytes" % s2, [e])
                ok_src, want = canonical_source(ty, wrapped)
                if ok_src:
                    good = True
                    tuple_n[ty] = tuple_n.get(ty2)
                    why = "delegates to %s's Serialize (decided above) applied to the canonical encoding of self" % s2
                else:
                    why = "delegates to %s's Serialize, but the value serialised is not %s: %s" % (s2, want, ex.show(e, 5))
            elif ty2:
                why = "delegates to the Serialize impl of %s, which is not a decided hand-written impl of an encoding type" % ty2
        (R.ok if good else R.viol)("C16.serialize", I(nm), why, *(() if good else (fv.loc(),)))
    for f in sorted(des, key=lambda f: f["key"]):
        fv = view(F, f)
        ty = norm_ty(f.get("self_ty") or "")
        nm = ty.split("::")[-1] + "::deserialize"
        dt = fv.find_calls(r"Deserializer<.*>>::deserialize_tuple|Deserializer<'.*>>::deserialize_tuple|Deserializer.*::deserialize_tuple")
        db = fv.find_calls(r"Deserializer.*::deserialize_bytes")
        if dt:
            n = ex.strip(expr_of(fv, dt[0][1]["args"][1]))
            good = n[0] == "const" and n[1] == 32 and tuple_n.get(ty) == 32
            (R.ok if good else R.viol)("C16.deserialize", I(nm), "deserialize_tuple(32) matches serialize_tuple(32)" if good else
                                       "tuple length of deserialize (%s) and serialize (%s) disagree or differ from 32" % (n[1] if n[0] == "const" else "?", tuple_n.get(ty)), *(() if good else (fv.loc(),)))
        elif db:
            R.ok("C16.deserialize", I(nm), "deserialize_bytes (visitor handles bytes and sequences)")
        else:
            R.viol("C16.deserialize", I(nm), "Deserialize impl uses neither deserialize_tuple nor deserialize_bytes", fv.loc())

    # ---------------------------------------------------------------- X25519 StaticSecret round-trips unclamped
    if "x25519_dalek" in F.crates:
        ss = [f for f in F.fns.values() if "mir" in f and f.get("self_ty") == "x25519_dalek::x25519::StaticSecret"
              and (re.search(r"From<\[u8; \w+\]>$|Deserialize|Serialize", f.get("trait") or "") or f.get("name") in ("to_bytes", "as_bytes"))]
        R.floor("C16.static_secret", I("StaticSecret conversion fns"), len(ss), 4)
        reach = reachable_fns(F, ss)
        bad = []
        for f in reach.values():
            if "mir" in f:
                for bi, t in view(F, f).calls:
                    if re.search(r"clamp_integer$|Scalar::from_bits_clamped$", cname(t)):
                        bad.append(f["path"])
        (R.viol if bad else R.ok)("C16.static_secret", I("StaticSecret"), ("clamping reachable from the StaticSecret (de)serialisation / From<[u8;32]> path: %s" % bad) if bad
                                  else "no clamp on construction or (de)serialisation (%d functions reachable)" % len(reach))
    # derived (de)serialisers exist for the raw newtypes
    derived = sorted({norm_ty(f.get("self_ty") or "").split("::")[-1] for f in F.fns.values() if f.get("derived") and re.search(r"serde::(de::)?Deserialize", f.get("trait") or "") and f.get("name") == "deserialize"})
    want = {"MontgomeryPoint", "PublicKey", "StaticSecret"}
    (R.ok if want <= set(derived) else R.viol)("C16.derived", I("derived Deserialize"), "derived for %s" % derived if want <= set(derived) else "expected derived Deserialize for %s, found %s" % (sorted(want), derived))


def canonical_source(ty, e, F=None):
    """is expression e the canonical encoding of self for type ty?  returns (bool, description)"""
    short = ty.split("::")[-1]
    if e is None:
        return False, "?"
    if short in ("EdwardsPoint", "RistrettoPoint"):
        want = "self.compress().as_bytes()"
        c = ex.find(e, lambda x: x[0] == "call" and re.search(r"(EdwardsPoint|RistrettoPoint)::compress$", x[1]))
        return bool(c) and ex.is_arg(c[0][2][0], 1) and ex.mentions_call(e, r"::as_bytes$"), want
    if short in ("Scalar", "CompressedEdwardsY", "CompressedRistretto"):
        want = "self.as_bytes()"
        c = ex.find(e, lambda x: x[0] == "call" and re.search(r"(Scalar|CompressedEdwardsY|CompressedRistretto)::as_bytes$", x[1]))
        return bool(c) and ex.is_arg(c[0][2][0], 1), want
    if short == "SigningKey":
        direct = ex.mentions_arg(e, 1, r"\.\d+") and not ex.find(e, lambda x: x[0] == "call" and not re.search(r"Index|index|deref|as_ref|borrow", x[1]))
        if not direct and F is not None:
            # through the accessor: SigningKey::as_bytes(self) / to_bytes(self), whose body returns the secret_key field of its receiver
            c = ex.find(e, lambda x: x[0] == "call" and re.search(r"signing::SigningKey::(as_bytes|to_bytes)$", x[1]))
            others = ex.find(e, lambda x: x[0] == "call" and not re.search(r"Index|index|deref|as_ref|borrow|signing::SigningKey::(as_bytes|to_bytes)$", x[1]))
            if c and not others and ex.is_arg(c[0][2][0], 1):
                gs = [g for g in F.fns.values() if "mir" in g and g["path"] == c[0][1]]
                a_ = F.adts.get("ed25519_dalek::signing::SigningKey")
                if len(gs) == 1 and a_:
                    idx = [i for i, fl in enumerate(a_["variants"][0]["fields"]) if fl["name"] == "secret_key"]
                    gv = view(F, gs[0])
                    r_ = ex.strip(expr_of(gv, ["m", [0, []]], 8))
                    direct = bool(idx) and ex.mentions_arg(r_, 1, r"\.%d" % idx[0]) and not ex.find(r_, lambda x: x[0] == "call")
        return direct, "self.secret_key"
    if short == "VerifyingKey":
        c = ex.find(e, lambda x: x[0] == "call" and re.search(r"VerifyingKey::as_bytes$", x[1]))
        return bool(c) and ex.is_arg(c[0][2][0], 1), "self.as_bytes()"
    return False, "canonical bytes of " + short


def seq32(F, fv):
    """Find the [u8;32] buffer filled element-wise from SeqAccess::next_element for i in 0..32.
    Returns (buffer local, msg)."""
    cands = []
    for l, ds in fv.defs.items():
        if fv.locals[l]["ty"] != "[u8; 32]":
            continue
        stores = [d for d in ds if d.kind == "assign" and d.proj and isinstance(d.proj[0], list) and d.proj[0][0] == "i"]
        if not stores:
            continue
        okk = True
        rng_call = None
        for d in stores:
            sl = fv.slice_back([x for x in [op_local(d.rv[1])] if x is not None]) if d.rv[0] == "use" else None
            if sl is None or not sl.has_call(r"SeqAccess<.*>>::next_element|SeqAccess.*::next_element"):
                okk = False
                break
            isl = fv.slice_back([d.proj[0][1]])
            nx = isl.calls_matching(r"Iterator for core::ops::Range<usize>>::next$|core::ops::Range<usize> as core::iter::Iterator>::next$")
            if not nx:
                okk = False
                break
            rng_call = nx[0]
            # the range is 0..32
            if not any(isinstance(k.get("v"), int) and k["v"] == 32 for k in isl.consts) or not any(k.get("v") == 0 for k in isl.consts):
                okk = False
        if okk and rng_call is not None:
            cands.append((l, rng_call))
    if len(cands) != 1:
        return None, "cannot find a [u8;32] buffer filled from next_element() for i in 0..32 (candidates: %d)" % len(cands)
    B, rng_call = cands[0]
    # success exits only after the range iterator returned None
    edges = fv.guard_edges(rng_call["dest"][0], 0)
    sites = [s["bb"] for s in success_sites(fv)]
    if not edges or not dominated(fv, sites, edges):
        return None, "an Ok exit is reachable before all 32 elements were read"
    # a missing element is an error: each next_element result goes through ok_or/ok_or_else (+ '?')
    ne = fv.find_calls(r"SeqAccess.*::next_element")
    for bi, t in ne:
        car = fv.carriers(t["dest"][0])
        if not any(re.search(r"::ok_or(_else)?::<", cname(t2)) and op_local(t2["args"][0]) in car for _, t2 in fv.calls):
            # allowed: the trailing-element probe, whose result is only matched on
            if not fv.F.closures_of(fv.f["key"]):
                return None, "a next_element() result is not turned into an invalid_length error when None"
    return B, ""


def seq32_semantic(F, f, validator_rx, T):
    """ABSINT form of the framing rule, independent of the loop's syntax: when the validating decoder (or the raw wrapper) is reached,
    all 32 bytes it receives are values read from the sequence (none is still the buffer's initial constant), and exactly 32 (ed25519: 33,
    the trailing probe) next_element() calls were executed on that path."""
    from absint import Interp, TOP
    from absint_models import Models
    ip = Interp(F, Models(), step_budget=2_000_000)
    seen = {"args": [], "reads": 0}

    def on_validator(ip_, g, args, st):
        for a in args:
            v = ip_.deref_val(st, a)
            if v[0] == "st" and len(v[1]) == 1:
                v = v[1][0]
            if v[0] == "sl":
                vals = ip_.models.slice_values(ip_, st, v)
                v = ("arr", tuple(vals)) if vals else v
            if v[0] == "arr" and len(v[1]) == 32:
                seen["args"].append(v[1])
    hooks = []
    if validator_rx:
        hooks.append((re.compile(validator_rx), on_validator))
    ip.call_contracts = hooks
    fv = view(F, f)
    vals = [ip.default_value(fv.locals[i + 1]["ty"]) for i in range(fv.nargs)]
    try:
        ret, root_ = ip.run_root(f, vals)
    except Exception as e:
        return False, "semantic framing analysis failed: %r" % (e,)
    reads = sum(n for k, n in ip.unmodelled.items() if re.search(r"SeqAccess.*::next_element", k))
    if validator_rx is None:
        # raw 32-byte wrapper: the Ok payload itself
        if ret is not None and ret[0] == "en":
            for v, fs in ret[1]:
                if v == 0 and fs and fs[0][0] == "st" and fs[0][1] and fs[0][1][0][0] == "arr":
                    seen["args"].append(fs[0][1][0][1])
    if not seen["args"]:
        return False, "the validating decoder is never reached with a 32-byte buffer in the abstract run"
    for arr in seen["args"]:
        const = [i for i, x in enumerate(arr) if x[0] == "i" and x[1] == x[2]]
        if const:
            return False, "byte(s) %s of the buffer still hold a constant when the decoder is called: fewer than 32 elements are stored" % const[:4]
    if reads < 32:
        return False, "only %d next_element() reads happen before the decoder" % reads
    return True, "all 32 bytes handed to the decoder are sequence elements (%d next_element() reads), decided by abstract interpretation (loop not in indexed form)" % reads


def trailing_rejected(fv):
    """Ok exits dominated by the false edge of `remaining > 0` where remaining counts further elements."""
    edges = []
    for bi, b in enumerate(fv.blocks):
        t = b.get("t")
        if not t or t["k"] != "switch":
            continue
        e = ex.strip(expr_of(fv, t["discr"], 30))
        if e[0] == "bin" and e[1] in ("Gt", "Ne", "Eq", "Lt", "Ge", "Le"):
            a, b_ = ex.strip(e[2]), ex.strip(e[3])
            cnt, zero, op = (a, b_, e[1]) if ex.is_const(b_, 0) else ((b_, a, {"Gt": "Lt", "Lt": "Gt", "Ge": "Le", "Le": "Ge"}.get(e[1], e[1])) if ex.is_const(a, 0) else (None, None, None))
            if cnt is None or not ex.mentions_call(cnt, r"Iterator>::count$"):
                continue
            # value of the comparison when count == 0
            val_when_zero = {"Gt": 0, "Ne": 0, "Eq": 1, "Le": 1, "Lt": 0, "Ge": 1}[op]
            if op in ("Lt", "Ge"):
                continue
            for v, tb in t["targets"]:
                if v == val_when_zero:
                    edges.append((bi, tb, ("sw", v)))
            if val_when_zero == 1 and [v for v, _ in t["targets"]] == [0]:
                edges.append((bi, t["otherwise"], ("sw", "otherwise")))
    sites = [s["bb"] for s in success_sites(fv)]
    return bool(edges) and bool(sites) and dominated(fv, sites, edges)
