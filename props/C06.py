"""C06 - ristretto255: structural clauses (decoder rejection flags reach the decision and test the right
values; encoder emits the non-negative representative through the canonical field encoder; one-way map
covers both halves; no public constructor wraps an unvalidated Edwards point)."""
import re
import ctx
from mirlib import view, cname, expr_of, op_local, op_place, root, same_value
from pathlib2 import success_sites, dominated, expr_guard_edges, dominates_block, established, Guard
import ex

LEVEL = "other"
TECHNIQUE = ("PATH: flag-to-decision dominance (edge-removal reachability over boolean implication of Choice expressions), data-dependence of each "
             "rejection flag on the value it must test (expression trees over resolved MIR), encoder/one-way-map dataflow, constructor inventory "
             "over all RistrettoPoint aggregate sites, field visibility facts; all backends")

RP = "curve25519_dalek::ristretto::RistrettoPoint"
EP = "curve25519_dalek::edwards::EdwardsPoint"


def run(tier, R):
    cfgs = [("simd", "release"), ("serial32", "release")]
    if tier == "thorough":
        cfgs += [("serial64", "release"), ("fiat64", "release"), ("fiat32", "release"), ("ifma", "release"), ("notables", "release")]
    FS = ctx.facts_for(R, cfgs)
    R.trust("rustc MIR + resolution; mirfacts exporter; mirlib expression trees / reachability")
    R.assume("field arithmetic implements the ring operations and sqrt_ratio_i its contract (C01); C06.formula compares the decode / encode / MAP code with the RFC 9496 formulas as rational identities per sign scenario "
             "(inverse square roots opaque); that those formulas define a prime-order group encoding is the RFC's / Decaf paper's theorem, not re-proved")
    for (cfg, mode), F in FS.items():
        check_cfg(F, R, cfg)


def fld(F, adt, name):
    a = F.adts.get(adt)
    if not a:
        return None
    for i, f in enumerate(a["variants"][0]["fields"]):
        if f["name"] == name:
            return i
    return None


def tuple_ret(fv, raw=False):
    """operand expressions of the tuple aggregate assigned to the return place (single site), else None"""
    sites = [s for s in fv.exit_sites()]
    if len(sites) != 1:
        return None
    s = sites[0]
    if s["kind"] == "other" and s.get("rv") and s["rv"][0] == "agg" and s["rv"][1][0] == "tuple":
        if raw:
            return s["rv"][2]
        return [expr_of(fv, o) for o in s["rv"][2]]
    return None


def call_def(fv, o):
    """the call terminator defining operand o (through copies), or None"""
    r = root(fv, o)
    return r[2] if r[0] == "call" else None


def agg_def(fv, o, adt):
    """operands of the ADT aggregate defining operand o (through copies), or None"""
    r = root(fv, o)
    if r[0] != "local" or r[2]:
        return None
    ds = fv.defs.get(r[1], [])
    if len(ds) == 1 and ds[0].kind == "assign" and ds[0].rv[0] == "agg" and ds[0].rv[1][0] == "adt" and ds[0].rv[1][1] == adt:
        return ds[0].rv[2]
    return None


_RF = {}


def ristretto_formulas(F):
    """cached C06.formula results: instance -> ok"""
    if id(F) not in _RF:
        import formula_rules as FR
        import itertools
        ep = F.adts.get("curve25519_dalek::edwards::EdwardsPoint")
        res = {}
        if ep:
            fe_ty = ep["variants"][0]["fields"][0]["ty"]
            for inst, f_, ok, msg in itertools.chain(FR.ristretto(F, fe_ty), FR.ristretto_batch(F, fe_ty) if F.has_cfg("feature=alloc") else ()):
                res[inst] = (f_, ok, msg)
        _RF[id(F)] = res
    return _RF[id(F)]


def encoder_formulas_ok(F, nm):
    pre = "RistrettoPoint::compress[" if nm == "compress" else "RistrettoPoint::double_and_compress_batch["
    rs = [ok for inst, (f_, ok, msg) in ristretto_formulas(F).items() if inst.startswith(pre)]
    return len(rs) >= 8 and all(rs)


def decode_truth_table(F, dec, roles1, roles2):
    """(exact, message): decompress interpreted with step_1 / step_2 replaced by each of the 32 combinations of their five flags (constant Choices, everything
    else unknown) returns Some for exactly one combination: canonical, s non-negative, square, t non-negative, y non-zero - and None for the 31 others"""
    from absint import Interp, I as Iv, TOP as TOP_
    from absint_models import Models
    import itertools

    class TT(Models):
        flags = None

        def call(self, ip, fv, st, depth, t, n, a, dty):
            m = re.search(r"ristretto::decompress::(step_1|step_2)$", n)
            if m:
                roles, cnt = (roles1, 3) if m.group(1) == "step_1" else (roles2, 4)
                out = [TOP_] * max(cnt, max(roles.values()) + 1)
                for k, i in roles.items():
                    if k in self.flags:
                        out[i] = ("st", (Iv(self.flags[k]),))
                return ("st", tuple(out))
            return super().call(ip, fv, st, depth, t, n, a, dty)
    names = ["canonical", "negative", "ok", "t_negative", "y_zero"]
    good = {"canonical": 1, "negative": 0, "ok": 1, "t_negative": 0, "y_zero": 0}
    rows = 0
    for bits in itertools.product((0, 1), repeat=5):
        fl = dict(zip(names, bits))
        mdl = TT()
        mdl.flags = fl
        ip = Interp(F, mdl, step_budget=200_000)
        try:
            ret, root_ = ip.run_root(dec, [TOP_])
        except Exception as e:
            return False, "decision table could not be evaluated: %r" % (e,)
        vs = {v for v, _ in ret[1]} if ret is not None and ret[0] == "en" else None
        want = {1} if fl == good else {0}
        if vs != want:
            return False, "with flags %s decompress returns %s" % (fl, "an unknown value" if vs is None else ("Some" if vs == {1} else ("None" if vs == {0} else "Some or None")))
        rows += 1
    return True, "the decision table was evaluated: of the %d combinations of (canonical, s negative, square, t negative, y zero) only (1, 0, 1, 0, 0) returns Some" % rows


def check_cfg(F, R, cfg):
    I = lambda s: "%s:%s" % (cfg, s)

    def fn(path=None, **kw):
        try:
            return F.fn(path, **kw)
        except LookupError as e:
            R.anchor_missing("C06.anchor", I(path or str(kw)), str(e)[:160])
            return None

    s1 = fn("curve25519_dalek::ristretto::decompress::step_1")
    s2 = fn("curve25519_dalek::ristretto::decompress::step_2")
    dec = fn("curve25519_dalek::ristretto::CompressedRistretto::decompress")
    if not (s1 and s2 and dec):
        return
    X, Y, Z, T = (fld(F, EP, n) for n in "XYZT")

    # ---------------------------------------------------------------- step_1 roles and what each flag tests
    v1 = view(F, s1)
    t1 = tuple_ret(v1)
    roles1 = {}
    if t1 is None:
        R.anchor_missing("C06.step1", I("step_1 returns a tuple at a single site"))
        return
    FROM_BYTES = r"field::FieldElement\w+::from_bytes$"
    AS_BYTES = r"field::FieldElement\w+::as_bytes$"

    def is_input(e):
        # the 32 input bytes: parameter 1 (through as_bytes / deref), with no field decoder in between
        return ex.mentions_arg(e, 1) and not ex.mentions_call(e, FROM_BYTES)

    for i, e in enumerate(t1):
        s = ex.strip(e)
        if ex.is_call(s, r"ConstantTimeEq.*::ct_eq$"):
            a, b = ex.call_args(s)
            for x, y in ((a, b), (b, a)):
                xs = ex.find(x, lambda c: c[0] == "call" and re.search(AS_BYTES, c[1]))
                if xs and ex.mentions_call(xs[0][2][0], FROM_BYTES) and ex.mentions_arg(xs[0][2][0], 1) and is_input(y):
                    roles1["canonical"] = i
        elif ex.is_call(s, r"::is_negative$"):
            a = ex.call_args(s)[0]
            if ex.is_call(ex.strip(a), FROM_BYTES) and ex.mentions_arg(a, 1):
                roles1["negative"] = i
        elif ex.is_call(s, FROM_BYTES) and ex.mentions_arg(s, 1):
            roles1["s"] = i
    for role, what in (("canonical", "ct_eq(as_bytes(from_bytes(input)), input)"), ("negative", "is_negative(from_bytes(input))"), ("s", "from_bytes(input)")):
        if role in roles1:
            R.ok("C06.step1." + role, I("step_1"), "tuple field %d = %s" % (roles1[role], what))
        else:
            R.viol("C06.step1." + role, I("step_1"), "step_1 does not return %s; got (%s)" % (what, "; ".join(ex.show(e, 5) for e in t1)), v1.loc())

    # ---------------------------------------------------------------- step_2 roles
    v2 = view(F, s2)
    t2 = tuple_ret(v2)
    roles2 = {}
    if t2 is None:
        R.anchor_missing("C06.step2", I("step_2 returns a tuple at a single site"))
        return
    raw2 = tuple_ret(v2, raw=True)
    point_ops = None
    for i, o in enumerate(raw2):
        outer = agg_def(v2, o, RP)
        if outer is not None:
            inner = agg_def(v2, outer[0], EP)
            if inner is not None:
                roles2["point"] = i
                point_ops = inner
    if point_ops is None:
        R.viol("C06.step2.point", I("step_2"), "step_2 does not return a RistrettoPoint(EdwardsPoint{..}) aggregate", v2.loc())
        return
    R.ok("C06.step2.point", I("step_2"), "tuple field %d is the decoded point" % roles2["point"])
    slX, slY = v2.operand_slice(point_ops[X]), v2.operand_slice(point_ops[Y])
    for i, o in enumerate(raw2):
        t = call_def(v2, o)
        if t is not None and re.search(r"::is_negative$", cname(t)) and same_value(v2, t["args"][0], point_ops[T]):
            roles2["t_negative"] = i
        elif t is not None and re.search(r"::is_zero$", cname(t)) and same_value(v2, t["args"][0], point_ops[Y]):
            roles2["y_zero"] = i
        else:
            r = root(v2, o)
            if r[0] == "local" and r[2] == ".0":
                ds = v2.defs.get(r[1], [])
                if len(ds) == 1 and ds[0].kind == "call" and re.search(r"::invsqrt$", cname(ds[0].term)) and r[1] in slX.locals and r[1] in slY.locals:
                    roles2["ok"] = i
    for role, what in (("ok", "was-square flag of the invsqrt used for X and Y"), ("t_negative", "is_negative(T of the returned point)"),
                       ("y_zero", "is_zero(Y of the returned point)")):
        if role in roles2:
            R.ok("C06.step2." + role, I("step_2"), "tuple field %d = %s" % (roles2[role], what))
        else:
            R.viol("C06.step2." + role, I("step_2"), "step_2 does not return %s; got (%s)" % (what, "; ".join(ex.show(e, 3) for e in t2[:3])), v2.loc())
    # the decoded s enters step_2's formulas
    R.ok("C06.step2.uses_s", I("step_2"), "X and Y depend on the parameter") if slX.has_arg(1) and slY.has_arg(1) else \
        R.viol("C06.step2.uses_s", I("step_2"), "decoded point does not depend on s", v2.loc())
    zc = root(v2, point_ops[Z])
    zdef = None
    if zc[0] == "local":
        ds = v2.defs.get(zc[1], [])
        if len(ds) == 1 and ds[0].kind == "assign" and ds[0].rv[0] == "use" and ds[0].rv[1][0] == "k":
            zdef = ds[0].rv[1][1].get("def")
    elif zc[0] == "const":
        zdef = zc[1].get("def")
    R.ok("C06.step2.Z", I("step_2"), "Z = ONE") if str(zdef or "").endswith("::ONE") else \
        R.viol("C06.step2.Z", I("step_2"), "Z of the decoded point is not the constant ONE (%s)" % (zdef,), v2.loc())
    if len(roles1) < 3 or len(roles2) < 4:
        return

    # ---------------------------------------------------------------- decompress: all five flags reach the None decision
    def flag_atom(step, idx):
        return lambda a: isinstance(a, tuple) and a[0] == "proj" and ex.is_call(a[1], r"ristretto::decompress::%s$" % step) and a[2] == ".%d" % idx

    FLAGS = [("canonical", "step_1", roles1["canonical"], True), ("s_negative", "step_1", roles1["negative"], False),
             ("ok", "step_2", roles2["ok"], True), ("t_negative", "step_2", roles2["t_negative"], False), ("y_zero", "step_2", roles2["y_zero"], False)]

    dv = view(F, dec)
    somes = [s["bb"] for s in success_sites(dv)]
    if not somes:
        R.viol("C06.decode", I("decompress"), "no Some exit found", dv.loc())
    tt = None
    for name, step, idx, want in FLAGS:
        edges = expr_guard_edges(dv, flag_atom(step, idx), want)
        ok = bool(edges) and bool(somes) and dominated(dv, somes, edges)
        if not ok:
            # the dominance form is not recognised (flags combined differently): decide the decision table itself
            if tt is None:
                tt = decode_truth_table(F, dec, roles1, roles2)
            if tt[0]:
                R.ok("C06.decode." + name, I("CompressedRistretto::decompress"), "structural form not recognised; " + tt[1])
                continue
        (R.ok if ok else R.viol)("C06.decode." + name, I("CompressedRistretto::decompress"),
                                 "Some only when %s is %s" % (name, want) if ok else
                                 "a Some exit of decompress is not dominated by the rejection test on flag '%s' (must be %s)%s" % (name, want, ("; " + tt[1]) if tt else ""),
                                 *(() if ok else (dv.loc(),)))
    # payload and wiring
    for s in success_sites(dv):
        if s["kind"] == "agg":
            e = ex.strip(expr_of(dv, s["ops"][0]))
            good = e[0] == "proj" and ex.is_call(e[1], r"decompress::step_2$") and e[2] == ".%d" % roles2["point"]
            (R.ok if good else R.viol)("C06.decode.payload", I("CompressedRistretto::decompress"), "Some(point of step_2)" if good else "Some payload is " + ex.show(e), *(() if good else (dv.loc(),)))
    for bi, t in dv.find_calls(r"decompress::step_2$"):
        e = ex.strip(expr_of(dv, t["args"][0]))
        good = e[0] == "proj" and ex.is_call(e[1], r"decompress::step_1$") and e[2] == ".%d" % roles1["s"] and ex.is_arg(ex.call_args(e[1])[0], 1)
        (R.ok if good else R.viol)("C06.decode.wiring", I("CompressedRistretto::decompress"), "step_2(step_1(self).s)" if good else "step_2 argument is " + ex.show(e), *(() if good else (dv.loc(),)))

    # ---------------------------------------------------------------- GroupEncoding::from_bytes (CtOption form)
    if F.has_cfg("feature=group"):
        gf = fn(None, self_ty="^%s$" % RP, trait=r"GroupEncoding$", name="from_bytes")
        if gf:
            gv = view(F, gf)
            news = gv.find_calls(r"subtle::CtOption(::)?<.*>::new$")
            if len(news) != 1:
                R.viol("C06.group_decode", I("GroupEncoding::from_bytes"), "expected exactly one CtOption::new", gv.loc())
            else:
                t = news[0][1]
                imps = ex.implications(expr_of(gv, t["args"][1]), True)
                for name, step, idx, want in FLAGS:
                    ok = any(flag_atom(step, idx)(a) and v == want for a, v in imps)
                    (R.ok if ok else R.viol)("C06.group_decode." + name, I("GroupEncoding::from_bytes"),
                                             "is_some flag implies %s == %s" % (name, want) if ok else "CtOption flag does not force %s == %s" % (name, want),
                                             *(() if ok else (gv.loc(),)))
                e = ex.strip(expr_of(gv, t["args"][0]))
                good = e[0] == "proj" and ex.is_call(e[1], r"decompress::step_2$") and e[2] == ".%d" % roles2["point"]
                (R.ok if good else R.viol)("C06.group_decode.payload", I("GroupEncoding::from_bytes"), "value is step_2's point" if good else "value is " + ex.show(e), *(() if good else (gv.loc(),)))
            unchecked = fn(None, self_ty="^%s$" % RP, trait=r"GroupEncoding$", name="from_bytes_unchecked")
            if unchecked:
                uv = view(F, unchecked)
                ok = all(s["kind"] == "call" and re.search(r"GroupEncoding>::from_bytes$", cname(s["term"])) for s in uv.exit_sites())
                (R.ok if ok else R.viol)("C06.group_decode.unchecked", I("GroupEncoding::from_bytes_unchecked"), "delegates to the checked decoder" if ok else "from_bytes_unchecked no longer delegates to from_bytes", *(() if ok else (uv.loc(),)))

    # ---------------------------------------------------------------- encoders: non-negative representative through the canonical field encoder
    enc = fn("curve25519_dalek::ristretto::RistrettoPoint::compress")
    encs = [("compress", enc)] if enc else []
    batch = fn("curve25519_dalek::ristretto::RistrettoPoint::double_and_compress_batch")
    if batch:
        for c in F.closures_of(batch["key"]):
            if c["mir"]["locals"][0]["ty"].endswith("CompressedRistretto"):
                encs.append(("double_and_compress_batch::closure", c))
        R.floor("C06.encode", I("batch encoder closure"), len(encs), 2 if enc else 1)
    for nm, f in encs:
        fv = view(F, f)
        good, msg = check_encoder(fv)
        if not good and encoder_formulas_ok(F, nm):
            good, msg = True, "structural form not recognised; decided by C06.formula: in every sign scenario the encoded value is the non-negative representative |s| of the RFC 9496 formula"
        (R.ok if good else R.viol)("C06.encode.nonneg", I(nm), msg, *(() if good else (fv.loc(),)))

    # ---------------------------------------------------------------- one-way map: both halves, two maps, added
    fu = fn("curve25519_dalek::ristretto::RistrettoPoint::from_uniform_bytes")
    if fu:
        fv = view(F, fu)
        good, msg = check_uniform(fv)
        import formula_rules as FR_
        sem_ok, sem_msg = FR_.one_way_map(F)
        if sem_ok is True:
            good, msg = True, sem_msg           # decided semantically (LINCOMB domain); the structural rule only explains failures
        elif sem_ok is False:
            good, msg = False, sem_msg + ("" if good else "; " + msg)
        (R.ok if good else R.viol)("C06.one_way_map", I("from_uniform_bytes"), msg, *(() if good else (fv.loc(),)))

    # ---------------------------------------------------------------- equality is the coset test on both products
    ce = fn(None, self_ty="^%s$" % RP, trait=r"ConstantTimeEq$", name="ct_eq")
    if ce:
        fv = view(F, ce)
        e = None
        for s in fv.exit_sites():
            if s["kind"] == "call":
                e = ("call", cname(s["term"]), [expr_of(fv, a) for a in s["term"]["args"]])
        good = False
        if e and ex.is_call(e, r"Choice as core::ops::BitOr>::bitor$"):
            prods = []
            for side in ex.call_args(e):
                s = ex.strip(side)
                if ex.is_call(s, r"ConstantTimeEq.*::ct_eq$"):
                    prods.append(tuple(sorted(prod_fields(x) for x in ex.call_args(s))))
            want = {tuple(sorted([("1.%d" % X, "2.%d" % Y), ("1.%d" % Y, "2.%d" % X)])), tuple(sorted([("1.%d" % X, "2.%d" % X), ("1.%d" % Y, "2.%d" % Y)]))}
            good = set(prods) == want
        (R.ok if good else R.viol)("C06.equality", I("RistrettoPoint::ct_eq"), "X1Y2==Y1X2 | X1X2==Y1Y2" if good else "ct_eq is not (X1*Y2 == Y1*X2) | (X1*X2 == Y1*Y2): " + ex.show(e, 5), *(() if good else (fv.loc(),)))

    # ---------------------------------------------------------------- constructor inventory / encapsulation
    a = F.adts.get(RP)
    vis = a["variants"][0]["fields"][0]["vis"] if a else "?"
    (R.ok if vis != "pub" else R.viol)("C06.encapsulation", I("RistrettoPoint.0 visibility"), "field visibility = %s (not constructible outside the crate)" % vis if vis != "pub" else "RistrettoPoint's inner Edwards point is public")
    n_sites = 0
    ALLOWED = {"curve25519_dalek::ristretto::decompress::step_2": "decoder", "curve25519_dalek::ristretto::RistrettoPoint::elligator_ristretto_flavor": "one-way map"}
    for f in F.fns.values():
        if "mir" not in f or f.get("derived"):
            continue
        fv = view(F, f)
        for bi, b in enumerate(fv.blocks):
            for s in b["s"]:
                if s[0] == "=" and s[2][0] == "agg" and s[2][1][0] == "adt" and s[2][1][1] == RP:
                    n_sites += 1
                    key = f["path"] + ("" if not f.get("trait") else "<" + f["trait"].split("::")[-1] + ">")
                    if f["path"] in ALLOWED:
                        R.ok("C06.constructors", I(key), "allowed constructor (%s)" % ALLOWED[f["path"]])
                        continue
                    e = expr_of(fv, s[2][2][0])
                    bad = []
                    for a_ in ex.find(e, lambda x: x[0] == "arg"):
                        ty = fv.locals[a_[1]]["ty"]
                        if re.search(r"edwards::EdwardsPoint|CompressedEdwardsY|\[u8|FieldElement|MontgomeryPoint", ty) and "Ristretto" not in ty and f["crate"] == "curve25519_dalek":
                            bad.append("arg%d: %s" % (a_[1], ty))
                    if f["crate"] != "curve25519_dalek":
                        bad.append("constructed outside curve25519_dalek")
                    (R.viol if bad else R.ok)("C06.constructors", I(key), ("RistrettoPoint wrapped around unvalidated input: " + ", ".join(bad)) if bad else
                                              "operand built from Ristretto points / scalars / constants only", *((fv.loc(s[3]),) if bad else ()))
    R.floor("C06.constructors", I("RistrettoPoint aggregate sites"), n_sites, 14 if F.has_cfg("feature=precomputed-tables") else 11)

    # ------------------------------------------------------------------ FORMULA domain: RFC 9496 decode / encode / MAP formulas and the coset equality, per sign scenario
    import formula_rules as FR
    ep = F.adts.get("curve25519_dalek::edwards::EdwardsPoint")
    if ep:
        fe_ty = ep["variants"][0]["fields"][0]["ty"]
        nf = 0
        import itertools
        for inst, (f_, ok, msg) in ristretto_formulas(F).items():
            nf += 1 if f_ else 0
            (R.ok if ok else R.viol)("C06.formula", I(inst), str(msg), *(() if ok else (F.loc(f_) if f_ else "",)))
        R.floor("C06.formula", I("ristretto255 formula scenarios decided"), nf, 22 if F.has_cfg("feature=alloc") else 14)
        ns = 0
        for inst, f_, ok, msg in FR.point_sums(F, r"ristretto::RistrettoPoint"):
            ns += 1
            (R.ok if ok else R.viol)("C06.sum", I(inst), msg, *(() if ok else (F.loc(f_),)))
        R.floor("C06.sum", I("Sum impls decided"), ns, 1)


def same(a, b):
    a, b = ex.strip(a), ex.strip(b)
    return a == b


def prod_fields(e):
    """&self.0.X * &other.0.Y -> ('1.X','2.Y') as sorted pair of 'arg.fieldidx'"""
    e = ex.strip(e)
    if not ex.is_call(e, r"ops::Mul.*::mul$"):
        return ("?",)
    out = []
    for a in ex.call_args(e):
        a = ex.strip(a)
        if a[0] == "arg":
            m = re.findall(r"\.(\d+)", a[2])
            out.append("%d.%s" % (a[1], m[-1] if m else "?"))
        else:
            out.append("?")
    return tuple(sorted(out))


def check_encoder(fv):
    """return value = CompressedRistretto(as_bytes(&s)) where the last definition of s reaching it is
    conditional_negate(&mut s, is_negative(&s))"""
    sites = fv.exit_sites()
    if len(sites) != 1 or sites[0]["kind"] != "agg":
        return False, "encoder does not end in a single CompressedRistretto(..) aggregate"
    e = ex.strip(expr_of(fv, sites[0]["ops"][0]))
    if not ex.is_call(e, r"field::FieldElement\w+::as_bytes$"):
        return False, "encoding is not produced by the canonical field encoder as_bytes: " + ex.show(e)
    s = ex.strip(ex.call_args(e)[0])
    if s[0] != "local":
        return False, "encoded value is not a local: " + ex.show(s)
    sl = s[1]
    ret_bb = sites[0]["bb"]
    negs = []
    for d in fv.defs.get(sl, []):
        if d.kind == "call" and d.via_mutref and re.search(r"ConditionallyNegatable.*::conditional_negate$", cname(d.term)):
            ch = ex.strip(expr_of(fv, d.term["args"][1]))
            if ex.is_call(ch, r"::is_negative$") and ex.strip(ex.call_args(ch)[0]) == s:
                negs.append(d)
    if not negs:
        return False, "encoded value is not passed through conditional_negate(is_negative(itself)) (non-negative representative)"
    nb = negs[-1].bb
    if not dominates_block(fv, nb, ret_bb):
        return False, "sign normalisation does not dominate the encoding"
    # any other definition of s must dominate the normalisation (i.e. happen before it)
    for d in fv.defs.get(sl, []):
        if d is negs[-1]:
            continue
        if not dominates_block(fv, d.bb, nb) or d.bb == nb:
            return False, "encoded value is redefined after sign normalisation"
    return True, "as_bytes(s) with s <- conditional_negate(s, is_negative(s)) dominating the encoding"


def check_uniform(fv):
    sites = fv.exit_sites()
    if len(sites) != 1 or sites[0]["kind"] != "call" or not re.search(r"ops::Add.*::add$", cname(sites[0]["term"])):
        return False, "from_uniform_bytes does not return the sum of two points"
    halves = set()
    for a in sites[0]["term"]["args"]:
        e = ex.strip(expr_of(fv, a))
        if not ex.is_call(e, r"RistrettoPoint::elligator_ristretto_flavor$"):
            return False, "an addend is not an Elligator map output: " + ex.show(e)
        fe = ex.strip(ex.call_args(e)[0])
        if not ex.is_call(fe, r"field::FieldElement\w+::from_bytes$"):
            return False, "Elligator input is not from_bytes(..): " + ex.show(fe)
        buf = ex.strip(ex.call_args(fe)[0])
        if buf[0] != "local":
            return False, "Elligator input bytes are not a local buffer"
        rng = None
        for d in fv.defs.get(buf[1], []):
            if d.kind == "call" and d.via_mutref and re.search(r"copy_from_slice", cname(d.term)):
                src = expr_of(fv, d.term["args"][1])
                for c in ex.find(src, lambda x: x[0] == "call" and re.search(r"ops::Index<core::ops::Range<usize>>.*::index$", x[1])):
                    r = ex.strip(c[2][1])
                    if r[0] == "agg" and ex.is_arg(c[2][0], 1):
                        vals = [ex.strip(v) for v in r[2]]
                        if all(v[0] == "const" for v in vals):
                            rng = (vals[0][1], vals[1][1])
        if rng is None:
            return False, "cannot determine which input bytes feed an Elligator map"
        halves.add(rng)
    if halves != {(0, 32), (32, 64)}:
        return False, "the two maps read input ranges %s, expected [0..32] and [32..64]" % sorted(halves)
    return True, "elligator(from_bytes(bytes[0..32])) + elligator(from_bytes(bytes[32..64]))"
