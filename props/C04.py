"""C04 - scalar multiplication = sum s_i * P_i.  NOT decided: the group arithmetic and the numerical correctness of the
recodings (value-level).  Decided here (necessary conditions, may-analyses on the interval interpreter):

 COVER.write   every digit position a recoding has to be able to produce is written by some execution of the recoder
               (non_adjacent_form: 256 positions; as_radix_16: 64; as_radix_2w(w): ceil(256/w) (+1 for w = 8)).
               A position that no execution writes is always zero, so scalars needing it are mis-recoded.
 COVER.read    in every scalar-multiplication routine (serial and AVX2 copies, all five basepoint-table radices, Straus,
               Pippenger per window width, precomputed Straus, vartime double-base, variable-base), every digit position
               that the recoder called there may leave non-zero is read by some execution of the routine.
 LINCOMB       formal-linear-combination domain (lib/eng_lincomb.py): with group operations abstracted by their algebraic meaning, recodings
               by arrays of symbolic digits d_i and lookup-table contents *computed* from the tables' own constructors, each routine returns
               exactly  sum_i 2^(w*i) * d_i * P  (per scalar/point pair): variable-base (serial, AVX2), the five basepoint tables (create +
               mul_base), vartime double-base (serial, AVX2; with and without precomputed tables), Straus constant-time and variable-time
               (serial, AVX2; three concrete pairs), precomputed Straus (new + mixed; two static, one dynamic pair).  Pippenger (bucket
               method) and the Montgomery ladder are not in this domain.  Decides the Horner / table structure, NOT the group law.
 NONE          every optional_* multiscalar routine (serial and AVX2 Straus and Pippenger, precomputed Straus, the EdwardsPoint /
               RistrettoPoint front ends), analysed with a non-empty collection in which every point is None, can only return None:
               a missing point is never skipped.  (The converse - only Some points give Some - is checked as "Some is reachable".)
 FIT           digit ranges fit the lookup tables: these are the debug-assertion / bounds obligations of
               LookupTable*::select and NafLookupTable*::select decided in C11 for every exported entry point (cited).
"""
import re
import ctx
from mirlib import view
from absint import I
from eng_absint import Driver

LEVEL = "other"
TECHNIQUE = ("may-write / may-read index analysis of the digit arrays on the interval abstract interpreter (ABSINT) over resolved MIR: recoders and every "
             "scalar-multiplication routine of the serial and AVX2 backends; table fit is C11's obligation set")

RECODER = re.compile(r"^curve25519_dalek::scalar::Scalar::(non_adjacent_form|as_radix_16|as_radix_2w)$")


def size_hint(w):
    return (256 + w - 1) // w + (1 if w == 8 else 0)


def merge(ivs):
    out = []
    for lo, hi in sorted(ivs):
        if out and lo <= out[-1][1] + 1:
            out[-1][1] = max(out[-1][1], hi)
        else:
            out.append([lo, hi])
    return out


def covers(ivs, lo, hi):
    """first position in [lo, hi] not covered by the merged intervals, or None"""
    pos = lo
    for a, b in merge(ivs):
        if a > pos:
            break
        pos = max(pos, b + 1)
        if pos > hi:
            return None
    return pos if pos <= hi else None


LINCOMB_OK = set()


def group_of(path):
    return re.sub(r"(::\{closure#\d+\})+$", "", path)


def run(tier, R):
    cfgs = [("simd", "release", "u64"), ("serial32", "release", "u32")]
    if tier == "thorough":
        cfgs += [("serial64", "release", "u64"), ("notables", "release", "u64"), ("ifma", "release", "u64")]
    FS = ctx.facts_for(R, [(c, m) for c, m, _ in cfgs])
    R.trust("rustc MIR; mirfacts; lib/absint.py + models (index intervals are over-approximations: a position outside every logged interval is accessed by no execution)")
    R.note("NOT decided here: the group law (C03 formula decides the formulas) and termination bookkeeping of non_adjacent_form (that the final carry is zero: true for scalars below 2^255; coverage of all 256 positions is COVER.write); "
           "as_radix_16 / as_radix_2w are decided exact and non_adjacent_form's loop is decided value-preserving per iteration by C04.recode, modulo digit ranges (C11)")
    R.note("FIT (digit ranges vs table sizes) = the select() obligations of C11")
    for cfg, mode, backend in cfgs:
        F = FS.get((cfg, mode))
        if F is None:
            continue
        Iq = lambda s, c=cfg: "%s:%s" % (c, s)
        cover_write(F, R, Iq, backend)
        if cfg in ("simd", "notables", "ifma") or tier == "thorough":
            lincomb(F, R, Iq, cfg)
        cover_read(F, R, Iq, backend)
        none_rule(F, R, Iq, backend, tier)
        if cfg == "simd" or tier == "thorough":
            import codec_rules as CR
            nr = 0
            import itertools
            for inst, f_, ok, msg in itertools.chain(CR.recodings(F), CR.naf_invariant(F)):
                nr += 1
                (R.ok if ok else R.viol)("C04.recode", Iq(inst), msg, *(() if ok else (F.loc(f_),)))
            R.floor("C04.recode", Iq("signed-digit recodings decided"), nr, 9)


# ------------------------------------------------------------------------------------------------------------ COVER.write
def cover_write(F, R, I_, backend):
    n = 0
    cases = [("non_adjacent_form", w, 256) for w in (5, 6, 7, 8)] + [("as_radix_16", None, 64)] + [("as_radix_2w", w, size_hint(w)) for w in (5, 6, 7, 8)]
    for name, w, need in cases:
        fs = F.fn("curve25519_dalek::scalar::Scalar::" + name, all=True)
        if len(fs) != 1:
            R.anchor_missing("C04.cover.write", I_(name))
            continue
        f = fs[0]
        fv = view(F, f)
        D = Driver(F, backend)
        D.ip.store_log = {}
        D.run_root(f, {1: I(w)} if w is not None else None, check_ret=False)
        for g, why in D.errors:
            R.viol("C04.cover.write", I_("analysis:%s(%s)" % (name, w)), "analysis did not complete: %s" % why, F.loc(f))
        rty = fv.locals[0]["ty"]
        ivs = []
        for (k, l), v in D.ip.store_log.items():
            if k == f["key"] and fv.locals[l]["ty"] == rty:
                ivs += [(max(lo, 0), hi) for lo, hi in v if hi < 2**32]     # an unbounded (unknown) index is not evidence of coverage
        n += 1
        inst = I_("%s(%s)" % (name, w) if w is not None else name)
        gap = covers(ivs, 0, need - 1)
        if gap is None:
            R.ok("C04.cover.write", inst, "positions 0..%d are written by some execution" % (need - 1))
        else:
            R.viol("C04.cover.write", inst, "no execution of %s writes digit position %d (of the %d it must be able to produce): that digit is always zero, so scalars that need it are recoded wrongly" % (name, gap, need), F.loc(f))
    R.floor("C04.cover.write", I_("recoder instances"), n, 9)


# ------------------------------------------------------------------------------------------------------------ COVER.read
ROOTS = re.compile(r"::(mul|mul_base|mul_base_clamped|mul_clamped|multiscalar_mul|optional_multiscalar_mul|vartime_multiscalar_mul|vartime_double_scalar_mul_basepoint|"
                   r"optional_mixed_multiscalar_mul|vartime_mixed_multiscalar_mul|vartime_multiscalar_mul|mul_bits_be|basepoint_mul|mul_assign)$")


def cover_read(F, R, I_, backend):
    D = Driver(F, backend)
    D.all_generic_roots = True
    D.ip.read_log = {}
    needed = {}     # (group, N) -> set of positions that may be non-zero in a recoder result obtained in that group

    def hook(ip, g, args, st, ret):
        if ret[0] != "arr":
            return
        stack = getattr(ip, "fn_stack", [])
        caller = stack[-1]["path"] if stack else "?"
        pos = {i for i, x in enumerate(ret[1]) if not (x[0] == "i" and x[1] == x[2] == 0)}
        needed.setdefault((group_of(caller), len(ret[1])), set()).update(pos)
    D.ip.ret_hooks = [(RECODER, hook)]
    roots = [f for f in D.root_candidates(r"^curve25519_dalek::", r"fmt$|serde|::hash$|scalar::Scalar") if ROOTS.search(f["path"])]
    # the backend copies are reached through the dispatchers; private routines that are not reached from an exported root in this
    # configuration (e.g. the serial copies under run-time dispatch are reached: the dispatcher has a serial arm) need no extra roots
    for f in sorted(roots, key=lambda f: f["key"]):
        D.run_root(f, check_ret=False)
    R.floor("C04.cover.read", I_("scalar-multiplication entry points analysed"), len(D.roots_run), 25 if F.has_cfg("feature=precomputed-tables") else 15)
    for f, why in D.errors:
        R.viol("C04.cover.read", I_("analysis:" + f["path"][-60:]), "analysis did not complete: %s" % why, F.loc(f))
    # reads per (group, N)
    reads = {}
    for (k, l), ivs in D.ip.read_log.items():
        f = F.fns.get(k)
        if f is None or "mir" not in f:
            continue
        ty = f["mir"]["locals"][l]["ty"]
        m = re.search(r"\[i8; (\d+)\]", ty)
        if not m:
            continue
        N_ = int(m.group(1))
        # an unbounded index (an unknown usize, e.g. the result of an unmodelled library call) is not evidence of coverage;
        # a widened loop counter is clipped to the array
        reads.setdefault((group_of(f["path"]), N_), []).extend((max(lo, 0), min(hi, N_ - 1)) for lo, hi in ivs if hi < 2**32 and lo < N_)
    n = 0
    for (grp, N), pos in sorted(needed.items()):
        if RECODER.match(grp) or not pos:
            continue      # a recoder delegating to another (as_radix_2w(4) -> as_radix_16)
        n += 1
        inst = I_("%s:[i8; %d]" % (short(grp), N))
        ivs = reads.get((grp, N), [])
        missing = sorted(p for p in pos if covers(ivs, p, p) is not None)
        if missing and (I_(""), grp) in LINCOMB_OK:
            # the reads were not recognised (digits reach the routine through a form the access log does not follow), but the routine's result is decided:
            R.ok("C04.cover.read", inst, "read positions not recognised structurally; C04.lincomb decides that %s returns the full sum over all digit positions" % short(grp))
        elif not missing:
            R.ok("C04.cover.read", inst, "all %d possibly non-zero digit positions (max %d) are read" % (len(pos), max(pos)))
        else:
            R.viol("C04.cover.read", inst, "digit position(s) %s%s can be non-zero but no execution of %s reads them: those digits are dropped from the sum"
                   % (missing[:6], "..." if len(missing) > 6 else "", short(grp)), "")
    R.extra.setdefault("cover_read_routines", {})[I_("")] = sorted("%s [i8; %d] needs %d positions" % (short(g), N, len(p)) for (g, N), p in needed.items() if not RECODER.match(g) and p)
    R.floor("C04.cover.read", I_("routines that recode a scalar and consume the digits"), n, 8 if "serial" in I_("") else 12)


def short(p):
    p = p.replace("curve25519_dalek::", "").replace("backend::", "")
    return p[-110:]


# ------------------------------------------------------------------------------------------------------------ NONE
def none_rule(F, R, I_, backend, tier):
    from absint import TOP
    n = 0
    D = Driver(F, backend)
    D.all_generic_roots = True
    sc = D.inv.value("curve25519_dalek::scalar::Scalar")
    for f in sorted(F.fns.values(), key=lambda f: f["key"]):
        if "mir" not in f or f["kind"] == "Closure" or f["crate"] != "curve25519_dalek" or \
                f.get("name") not in ("optional_multiscalar_mul", "optional_mixed_multiscalar_mul", "_impl_optional_multiscalar_mul", "_impl_optional_mixed_multiscalar_mul"):
            continue
        fv = view(F, f)
        if fv.nargs < 2 or fv.nb <= 4:
            continue       # the small target-feature trampolines forward to the _impl_ function analysed here
        ov0 = D.generic_overrides(f)
        if ov0 is None:
            # the _impl_ / backend-level copies: same shapes as the trait-level entry points
            ov0 = {0: D.coll_iter(sc), 1: ("__coll_vals", None, 2**20)} if fv.nargs == 2 else \
                {0: TOP, 1: D.coll_iter(sc), 2: D.coll_iter(sc), 3: ("__coll_vals", None, 2**20)}
        pidx = max(ov0)
        if not (isinstance(ov0[pidx], tuple) and ov0[pidx][0] == "__coll_vals"):
            continue
        pt = ov0[pidx][1]
        if pt is None or pt[0] != "en":
            ep = D.inv.value("curve25519_dalek::ristretto::RistrettoPoint" if "istretto" in (f.get("self_ty") or "") else "curve25519_dalek::edwards::EdwardsPoint")
            pt = ("en", ((0, ()), (1, (ep,))))
        some_only = ("en", tuple(x for x in pt[1] if x[0] == 1))
        cases = [("all-None", ("en", ((0, ()),)))] + ([("all-Some", some_only)] if tier == "thorough" else [])
        for label, elem in cases:
            ov = dict(ov0)
            ov[pidx] = ("__coll_vals_nonempty", elem, 2**20)
            # the scalar collection paired with the points is non-empty too (a zip stops at the shorter one)
            ov[pidx - 1] = ("__coll_iter_nonempty", sc, 2**20)
            nerr = len(D.errors)
            ret = D.run_root(f, ov, check_ret=False)
            inst = I_("%s:%s" % (short(f["path"]), label))
            n += 1
            if len(D.errors) > nerr or ret is None or ret[0] != "en":
                R.viol("C04.none", inst, "analysis did not produce an Option value (%s)" % (D.errors[-1][1] if len(D.errors) > nerr else (ret[0] if ret else None)), F.loc(f))
                continue
            vs = {v for v, _ in ret[1]}
            if label == "all-None":
                if vs == {0}:
                    R.ok("C04.none", inst, "a non-empty batch whose points are all None can only yield None")
                else:
                    R.viol("C04.none", inst, "with every input point None (and at least one input) the routine can still return Some: a missing point is skipped instead of failing the whole computation", F.loc(f))
            else:
                if 1 in vs:
                    R.ok("C04.none", inst, "Some is reachable when every point is Some")
                else:
                    R.viol("C04.none", inst, "the routine cannot return Some even when every point is Some", F.loc(f))
    R.floor("C04.none", I_("optional multiscalar routines"), n, 5)


# ------------------------------------------------------------------------------------------------------------ LINCOMB
def lincomb(F, R, I_, cfg):
    import eng_lincomb as LC
    from absint import I as Iv

    def vals(xs):
        return ("it", "vals", ("arr", tuple(xs)), Iv(0), Iv(len(xs)))

    def some(x):
        return ("en", ((1, (x,)),))

    def fns(rx, min_blocks=4):
        return [f for f in F.fns.values() if "mir" in f and re.search(rx, f["path"]) and len(f["mir"]["blocks"]) >= min_blocks and f["kind"] != "Closure"]

    def width(tokid):
        return {"as_radix_16": 4}.get(tokid[1], tokid[2])

    def check(inst, f, args, pairs, unwrap=False, self_from=None):
        """pairs: [(point symbol, scalar id)] expected  sum_pairs sum_i 2^(w i) d_{scalar,i} * point  with w the width the routine recoded that scalar with"""
        # zero scalars: every digit is zero, so every work-skipping path is taken at once; the result must still be the identity (and Some)
        try:
            zret, zip_ = LC.run(F, f, args, zero_digits=True)
            if unwrap and zret is not None and zret[0] == "en":
                zs = [fs[0] for v, fs in zret[1] if v == 1 and fs]
                zret = zs[0] if {v for v, _ in zret[1]} == {1} and zs else ("none",)
            if zret is None or zret[0] != "lc" or LC.terms(zret):
                R.viol("C04.lincomb.zero", I_(inst), "with every scalar zero (and every point present) the routine returns %s, not the identity" % (
                    "None" if zret == ("none",) else (LC.terms(zret) if zret is not None and zret[0] == "lc" else "a value outside the domain")), F.loc(f))
            else:
                R.ok("C04.lincomb.zero", I_(inst), "all-zero scalars give the identity")
        except Exception as e:
            R.viol("C04.lincomb.zero", I_(inst), "analysis failed: %r" % (e,), F.loc(f))
        try:
            ret, ip = LC.run(F, f, args)
        except Exception as e:
            R.viol("C04.lincomb", I_(inst), "analysis failed: %r" % (e,), F.loc(f))
            return None
        if unwrap and ret is not None and ret[0] == "en":
            ok_some = [fs[0] for v, fs in ret[1] if v == 1 and fs]
            if {v for v, _ in ret[1]} != {1} or not ok_some:
                R.viol("C04.lincomb", I_(inst), "with every point present the routine does not definitely return Some", F.loc(f))
                return None
            ret = ok_some[0]
        t = LC.terms(ret)
        bad_tables = [d for ok, d in ip.models.table_checks if not ok]
        rec = {sid: (kind, w) for kind, w, sid in getattr(ip.models, "recodings", [])}
        if t is None and not bad_tables:
            # the sign of a digit was tested with two separate comparisons (`if d > 0 {..} else if d < 0 {..}`): an interval-free domain cannot correlate
            # them, so the routine is decided once with every digit positive and once with every digit negative; both must give the full sum
            per_sign = []
            for sgn in (1, -1):
                try:
                    rs, ips = LC.run(F, f, args, digit_sign=sgn)
                except Exception:
                    per_sign = None
                    break
                if unwrap and rs is not None and rs[0] == "en":
                    oks_ = [fs[0] for v, fs in rs[1] if v == 1 and fs]
                    rs = oks_[0] if {v for v, _ in rs[1]} == {1} and oks_ else None
                ts = LC.terms(rs) if rs is not None else None
                if ts is None or [d for ok_, d in ips.models.table_checks if not ok_]:
                    per_sign = None
                    break
                per_sign.append((ts, ips))
            if per_sign and per_sign[0][0] == per_sign[1][0]:
                t, ip = per_sign[0]
                rec = {sid: (kind, w) for kind, w, sid in getattr(ip.models, "recodings", [])}
        if t is None:
            R.viol("C04.lincomb", I_(inst), "the result is not a linear combination of the inputs in the abstract domain (%s)" % ("; ".join(sorted(set(bad_tables))) or "an operation outside the modelled group operations reached the result"), F.loc(f))
            return None
        exp = {}
        for psym, sid in pairs:
            if sid not in rec:
                R.viol("C04.lincomb", I_(inst), "scalar %s is never recoded" % sid, F.loc(f))
                return None
            kind, w = rec[sid]
            wbits = 4 if kind == "as_radix_16" else (1 if kind == "non_adjacent_form" else w)
            n = 256 if kind == "non_adjacent_form" else (64 if kind == "as_radix_16" else (256 + w - 1) // w + (1 if w == 8 else 0))
            for i in range(n):
                exp[(psym, ((sid, kind, w), i))] = 2 ** (wbits * i)
        # digits beyond the recoding's length never occur (they are zero): only the expected support is compared
        got = {k: c for k, c in t.items()}
        missing = [k for k in exp if got.get(k) != exp[k]]
        extra = [k for k in got if k not in exp]
        if not missing and not extra and not bad_tables:
            LINCOMB_OK.add((I_(""), group_of(f["path"])))
            R.ok("C04.lincomb", I_(inst), "= sum 2^(w i) d_i P over %d digit terms (%d group operations, tables: %s)" % (len(exp), ip.models.group_ops, "; ".join(sorted({d for _, d in ip.models.table_checks})) or "none"))
        else:
            k = (missing or extra)[0]
            R.viol("C04.lincomb", I_(inst), "the routine does not compute sum 2^(w i) d_i P: %d terms wrong or missing, %d unexpected (first: point %s, digit %s of %s: coefficient %s, expected %s)%s" % (
                len(missing), len(extra), k[0], k[1][1] if k[1] else None, k[1][0][0] if k[1] else None, got.get(k), exp.get(k), ("; " + "; ".join(sorted(set(bad_tables)))) if bad_tables else ""), F.loc(f))
        return ret

    n = 0
    vec = r"(spec_avx2|spec_avx512ifma_avx512vl)"
    # variable base
    for f in fns(r"serial::scalar_mul::variable_base::mul$") + fns(r"vector::scalar_mul::variable_base::%s::mul(::_impl_mul)?$" % vec, 6):
        n += 1
        check("variable_base:" + tag(f), f, [LC.sym("P"), ("scal", "s")], [("P", "s")])
    # vartime double base
    for f in fns(r"serial::scalar_mul::vartime_double_base::mul$") + fns(r"vector::scalar_mul::vartime_double_base::%s::mul(::_impl_mul)?$" % vec, 10):
        n += 1
        check("vartime_double_base:" + tag(f), f, [("scal", "a"), LC.sym("A"), ("scal", "b")], [("A", "a"), ("B", "b")])
    # Straus
    for f in fns(r"scalar_mul::straus::(%s::)?Straus as .*traits::MultiscalarMul>::multiscalar_mul(::.*_impl_multiscalar_mul)?$" % vec, 8):
        n += 1
        check("straus_ct:" + tag(f), f, [vals([("scal", "s%d" % k) for k in range(3)]), vals([LC.sym("P%d" % k) for k in range(3)])], [("P%d" % k, "s%d" % k) for k in range(3)])
    for f in fns(r"scalar_mul::straus::(%s::)?Straus as .*VartimeMultiscalarMul>::optional_multiscalar_mul(::.*_impl_optional_multiscalar_mul)?$" % vec, 8):
        n += 1
        check("straus_vartime:" + tag(f), f, [vals([("scal", "s%d" % k) for k in range(3)]), vals([some(LC.sym("P%d" % k)) for k in range(3)])], [("P%d" % k, "s%d" % k) for k in range(3)], unwrap=True)
    # precomputed Straus
    for mod in (r"serial::scalar_mul::precomputed_straus::", r"vector::scalar_mul::precomputed_straus::%s::" % vec):
        news = fns(mod + r"VartimePrecomputedStraus as .*VartimePrecomputedMultiscalarMul>::new(::.*_impl_new)?$", 4)
        mixs = fns(mod + r"VartimePrecomputedStraus as .*VartimePrecomputedMultiscalarMul>::optional_mixed_multiscalar_mul(::.*_impl_optional_mixed_multiscalar_mul)?$", 8)
        for nf, mf in zip(news, mixs):
            n += 1
            try:
                selfv, _ = LC.run(F, nf, [vals([LC.sym("S0"), LC.sym("S1")])])
            except Exception as e:
                R.viol("C04.lincomb", I_("precomputed_straus:" + tag(mf)), "analysis of new() failed: %r" % (e,), F.loc(nf))
                continue
            check("precomputed_straus:" + tag(mf), mf, [selfv, vals([("scal", "a0"), ("scal", "a1")]), vals([("scal", "b0")]), vals([some(LC.sym("Q0"))])],
                  [("S0", "a0"), ("S1", "a1"), ("Q0", "b0")], unwrap=True)
    # basepoint tables: create then mul_base
    for f in fns(r"edwards::EdwardsBasepointTable\w* as .*BasepointTable>::create$", 3):
        name = re.search(r"(EdwardsBasepointTable\w*) as", f["path"]).group(1)
        mb = fns(r"edwards::%s as .*BasepointTable>::mul_base$" % name, 3)
        if not mb:
            continue
        n += 1
        try:
            tab, ipc = LC.run(F, f, [LC.sym("B")])
        except Exception as e:
            R.viol("C04.lincomb", I_("basepoint_table:" + name), "analysis of create() failed: %r" % (e,), F.loc(f))
            continue
        check("basepoint_table:" + name, mb[0], [tab, ("scal", "s")], [("B", "s")])
    # Pippenger (bucket method): bucket indices are symbolic digits.  buckets[|d| - 1] +- P is an update of *every* bucket b by the indicator
    # [d = +-(b + 1)] times +-P; the routine is analysed once with every digit positive and once with every digit negative (both arms of the
    # sign match at every position; the bucket updates are additive, so mixed sign patterns add nothing).  Expected: for every point i, position j
    # and digit value v the coefficient of [d_ij = v] P_i is v 2^(w j) - i.e. sum_j 2^(w j) d_ij P_i for every value the digits can take.
    for f in fns(r"serial::scalar_mul::pippenger::Pippenger as .*VartimeMultiscalarMul>::optional_multiscalar_mul$", 8) + \
            fns(r"vector::scalar_mul::pippenger::%s::Pippenger as .*VartimeMultiscalarMul>::optional_multiscalar_mul::__Impl_optional_multiscalar_mul__>::_impl_optional_multiscalar_mul$" % vec, 8):
        n += 1
        inst = "pippenger:" + tag(f)
        bad, nterms, ops = [], 0, 0
        for sgn in (1, -1):
            try:
                ret, ip = LC.run(F, f, [vals([("scal", "s0"), ("scal", "s1")]), vals([some(LC.sym("P0")), some(LC.sym("P1"))])], vec_limit=160, digit_sign=sgn)
            except Exception as e:
                bad.append("analysis failed: %r" % (e,))
                continue
            somes = [fs[0] for v, fs in ret[1] if v == 1 and fs] if ret is not None and ret[0] == "en" else []
            t = LC.terms(somes[0]) if len(somes) == 1 and {v for v, _ in ret[1]} == {1} else None
            rec = {sid: (kind, w) for kind, w, sid in getattr(ip.models, "recodings", [])}
            if t is None or set(rec) != {"s0", "s1"} or len({w for _, w in rec.values()}) != 1:
                bad.append("the result is not a combination of the inputs in the abstract domain (digits %s)" % ("positive" if sgn > 0 else "negative"))
                continue
            w = rec["s0"][1]
            ndig = (256 + w - 1) // w + (1 if w == 8 else 0)
            exp = {}
            for k in range(2):
                for j in range(ndig):
                    for v in range(1, 2 ** (w - 1) + 1):
                        exp[("P%d" % k, ("ind", ("s%d" % k, "as_radix_2w", w), j, sgn * v))] = sgn * v * 2 ** (w * j)
            wrong = [key for key in set(exp) | set(t) if exp.get(key) != t.get(key)]
            nterms += len(exp)
            ops += ip.models.group_ops
            if wrong:
                key = sorted(wrong, key=repr)[0]
                bad.append("%d terms differ for %s digits, e.g. point %s, position %s, digit value %s: coefficient %s, expected %s" % (
                    len(wrong), "positive" if sgn > 0 else "negative", key[0], key[1][2] if key[1] else None, key[1][3] if key[1] else None, t.get(key), exp.get(key)))
        (R.viol if bad else R.ok)("C04.lincomb", I_(inst), bad[0] if bad else
                                  "for every position j and every digit value v in +-[1, 2^(w-1)]: contribution v 2^(w j) P_i (%d indicator terms, %d group operations, both sign arms)" % (nterms, ops),
                                  *((F.loc(f),) if bad else ()))
    # mul_by_pow_2(k) = 2^k P (the body's loop is followed for k = 1, 2, 3, 5, 8; every other routine uses it through this contract)
    for f in fns(r"edwards::EdwardsPoint::mul_by_pow_2$", 2) + fns(r"vector::(avx2|ifma)::edwards::ExtendedPoint as [\w:]*mul_by_pow_2::__Impl_mul_by_pow_2__>::_impl_mul_by_pow_2$", 2) + \
            fns(r"edwards::EdwardsPoint::mul_by_cofactor$", 1):
        ks = (None,) if f["path"].endswith("mul_by_cofactor") else (1, 2, 3, 5, 8)
        bad = []
        for k in ks:
            try:
                ret, ip = LC.run(F, f, [LC.sym("P")] + ([Iv(k)] if k else []))
            except Exception as e:
                bad.append("k=%s: analysis failed: %r" % (k, e))
                continue
            if LC.terms(ret) != {("P", None): 2 ** (k or 3)}:
                bad.append("k=%s: returns %s, expected %d P" % (k, LC.terms(ret), 2 ** (k or 3)))
        inst = ("mul_by_cofactor:" if ks == (None,) else "mul_by_pow_2:") + tag(f)
        (R.viol if bad else R.ok)("C04.lincomb", I_(inst), bad[0] if bad else ("= 8 P" if ks == (None,) else "= 2^k P for k = 1, 2, 3, 5, 8 (k doublings)"), *((F.loc(f),) if bad else ()))
    tables = F.has_cfg("feature=precomputed-tables")
    R.floor("C04.lincomb", I_("routines decided in the linear-combination domain"), n, (15 if tables else 12) if cfg in ("simd", "notables", "ifma") else (10 if tables else 5))


def tag(f):
    p = f["path"]
    return "avx512" if "avx512" in p else ("avx2" if "avx2" in p else "serial")
