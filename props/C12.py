"""C12 - every precomputed constant and table entry equals its definition (exhaustive)."""
import ctx
from eng_consts import Consts, selfcheck

LEVEL = "proof"
TECHNIQUE = ("CONSTS: every const/static of the three crates, as evaluated by rustc's const evaluator and decoded by type layout, "
             "is compared with an independent big-integer oracle (GF(2^255-19), Edwards group law, ristretto255 encoding); exhaustive over all "
             "table entries and all configurations listed; no repository code is executed")

QUICK = [("simd", "release"), ("serial32", "release")]
THOROUGH = QUICK + [("serial64", "release"), ("fiat64", "release"), ("fiat32", "release"), ("ifma", "release"),
                    ("notables", "release"), ("simd-legacy", "release")]


def run(tier, R):
    selfcheck()
    R.trust("rustc const evaluation + layout (values decoded by the driver from the final allocations)")
    R.trust("lib/oracle.py: ~150 lines of integer arithmetic written from RFC 7748/8032/9496 definitions; self-checked (B on curve, order l, RFC 9496 constants satisfy their relations)")
    FS = ctx.facts_for(R, QUICK if tier == "quick" else THOROUGH)
    for (cfg, mode), F in FS.items():
        C = Consts(F, R, cfg)
        tables = F.has_cfg("feature=precomputed-tables")
        C.field_constants()
        C.scalar_constants()
        C.point_constants()
        C.serial_tables(required=tables)
        C.vector_constants(required_tables=tables)
        if F.has_cfg("feature=group"):
            C.ff_constants(rule="C12.ff")
        R.extra.setdefault("constants_decoded", {})[cfg] = C.found
    R.extra["exhaustive"] = True
    R.note("limb representations covered: u64 radix-51, u32 radix-25.5, fiat wrappers of both, AVX2 u32x8 lanes, IFMA u64x4 lanes")
