"""C01 - field arithmetic mod p = 2^255 - 19.  Decided here (each a necessary condition of the statement), for the serial u64 and u32
backends and the AVX2 vector backend (the chains are shared by every backend); NOT decided: the IFMA kernels and the fiat primitives:

 KERNEL   the serial limb kernels and the AVX2 vector kernels (mul, square, reduce, negate, add, diff_sum, small-constant mul, new, split; shuffle / blend
          for every control value) are value-exact modulo p on symbolic limbs (polynomial limb domain, lib/eng_limbpoly.py / eng_lanepoly.py).

 CHAIN    invert = x^(p-2), pow_p58 = x^((p-5)/8), pow22501 = (x^(2^250-1), x^11); the candidate root of sqrt_ratio_i is
          u^((p+3)/8) * v^(3+7(p-5)/8) and its check value is v*r^2 (monomial domain, lib/eng_expchain.py).
 PMULT    every literal limb vector that is added before a `reduce` (sub, sub_assign, negate) is a multiple of p.
 RANGE    from_bytes yields limbs within their nominal width (so bit 255 of the input is dropped and the value is
          below 2^255); as_bytes yields byte 31 <= 127 (top bit clear) - interval abstract interpretation.
 TRUNC    in the limb kernels and limb repacking code (serial u64/u32 field, AVX2 field; byte codecs excluded) every low-bit mask
          `v & (2^k - 1)` applied to a value that can exceed the mask has its carry companion `v >> k` in the same function:
          otherwise significant bits are silently discarded (interval analysis finds the droppable bits, a def-use rule the companion).
 NOWRAP   no u64/u128/u32 arithmetic in any field kernel can wrap: this is C11's obligation set (cited, not repeated).
"""
import re
import ctx
from mirlib import view, cname, expr_of
from eng_absint import Driver
from eng_expchain import run_chain, exponents, ExpModels
import oracle as O
import ex

LEVEL = "other"
TECHNIQUE = ("LIMBPOLY (polynomials over limb symbols, opaque carry quotients) for the serial limb kernels and, lane-wise with structural bounds (LANEPOLY), the AVX2 vector kernels; BITS (bit provenance, carry-chain tokens) for from_bytes / as_bytes; "
             "FORMULA domain for batch_invert (all zero / non-zero patterns); EXPCHAIN monomial abstract domain over the addition chains + literal limb-vector arithmetic against p + ABSINT interval post-conditions of "
             "the byte codecs, over resolved MIR of the serial u64 / u32 (and, for the shared chains, fiat) backends")

P = O.P if hasattr(O, "P") else 2**255 - 19


def weights(n):
    if n == 5:
        return [51 * i for i in range(5)]
    w, acc = [], 0
    for i in range(10):
        w.append(acc)
        acc += 26 if i % 2 == 0 else 25
    return w


def run(tier, R):
    cfgs = [("simd", "release", "u64"), ("serial32", "release", "u32")]
    if tier == "thorough":
        cfgs += [("fiat64", "release", "u64"), ("fiat32", "release", "u32"), ("serial64", "release", "u64")]
    FS = ctx.facts_for(R, [(c, m) for c, m, _ in cfgs])
    R.trust("rustc MIR; mirfacts; lib/eng_expchain.py transfer functions (mul adds exponents, square doubles, pow2k(k) multiplies by 2^k); lib/absint.py for RANGE")
    R.note("NOT decided: value-exactness of the IFMA vector field kernels and of the fiat primitives; the serial kernels (C01.kernel) and the AVX2 vector kernels (C01.vkernel) are "
           "decided value-exact modulo p under the no-wrap obligations of C11")
    R.note("NOWRAP is C11 (every overflow obligation of the field kernels, serial u64 + u32)")
    for cfg, mode, backend in cfgs:
        F = FS.get((cfg, mode))
        if F is None:
            continue
        I = lambda s, c=cfg: "%s:%s" % (c, s)
        chain(F, R, I)
        if not cfg.startswith("fiat"):
            import codec_rules as CR
            nd = 0
            for inst, f_, ok, msg in CR.field_decode(F):
                nd += 1
                (R.ok if ok else R.viol)("C01.decode_bits", I(inst), msg, *(() if ok else (F.loc(f_),)))
            R.floor("C01.decode_bits", I("field decoders decided bit by bit"), nd, 1)
            import kernel_rules as KR
            nk = 0
            for inst, f_, ok, msg in KR.field_kernels(F):
                nk += 1 if f_ else 0
                KERNEL_OK[(id(F), inst.split("::")[-1])] = bool(ok and f_)
                (R.ok if ok else R.viol)("C01.kernel", I(inst), msg, *(() if ok else (F.loc(f_) if f_ else "",)))
            R.floor("C01.kernel", I("field kernels decided value-exact modulo p"), nk, 9)
            if cfg == "simd":
                nv = 0
                for inst, f_, ok, msg in KR.vector_kernels(F):
                    nv += 1 if f_ else 0
                    (R.ok if ok else R.viol)("C01.vkernel", I(inst), msg, *(() if ok else (F.loc(f_) if f_ else "",)))
                R.floor("C01.vkernel", I("AVX2 vector field kernels decided (10 kernels, 10 shuffles, 8 blends)"), nv, 28)
            ne = 0
            for inst, f_, ok, msg in CR.field_encode(F):
                ne += 1
                (R.ok if ok else R.viol)("C01.encode_canonical", I(inst), msg, *(() if ok else (F.loc(f_),)))
            R.floor("C01.encode_canonical", I("field encoders decided"), ne, 1)
            batch_invert(F, R, I)
            pmult(F, R, I)
            ranges(F, R, I, backend)
            trunc(F, R, I, backend)


# ------------------------------------------------------------------------------------------------------------ BATCH
def batch_invert(F, R, I):
    """FORMULA domain (lib/eng_formula.py): FieldElement::batch_invert on slices of 0..4 elements, each either the constant zero or a
    generic (non-zero) symbol: every non-zero entry becomes its inverse, every zero stays zero, and the `acc != 0` assertion is unreachable."""
    import itertools
    import eng_formula as FM
    fs = [f for f in F.fns.values() if "mir" in f and re.search(r"field::<impl .*FieldElement\w+>::batch_invert$", f["path"])]
    if len(fs) != 1:
        R.anchor_missing("C01.batch_invert", I("FieldElement::batch_invert"), "expected one function, found %d" % len(fs))
        return
    f = fs[0]
    m = re.search(r"impl (.*FieldElement\w+)>::batch_invert$", f["path"])
    radix = FM.radix_for(F, m.group(1))
    n_s, bad = 0, []
    for n in range(5):
        for zeros in itertools.product((0, 1), repeat=n):
            vals = ("arr", tuple(FM.fconst(0) if z else FM.fvar("a%d" % i) for i, z in enumerate(zeros)))
            try:
                ret, ip, root = FM.run(F, f, [vals], radix)
            except Exception as e:
                bad.append("zeros at %s: analysis failed: %r" % ([i for i, z in enumerate(zeros) if z], e))
                continue
            n_s += 1
            out = root.get(0)
            unproved = [o for o in ip.obl.values() if not o.ok]
            if unproved:
                bad.append("n=%d zeros at %s: %s is reachable (%s)" % (n, [i for i, z in enumerate(zeros) if z], unproved[0].kind, unproved[0].why[:80]))
            for i, z in enumerate(zeros):
                want = FM.fconst(0) if z else FM.finv(FM.fvar("a%d" % i))
                got = out[1][i] if out and out[0] == "arr" and len(out[1]) == n else None
                if got is None or got[0] != "fe" or not FM.is_zero(FM.fadd(got, want, -1)):
                    bad.append("n=%d, zeros at %s: element %d becomes %s, expected %s" % (n, [j for j, zz in enumerate(zeros) if zz], i, FM.show(got) if got is not None and got[0] == "fe" else "a value outside the domain", FM.show(want)))
    if bad:
        R.viol("C01.batch_invert", I("FieldElement::batch_invert"), "%d of the zero / non-zero patterns fail; first: %s" % (len(bad), bad[0]), F.loc(f))
    else:
        R.ok("C01.batch_invert", I("FieldElement::batch_invert"), "for every pattern of zero / non-zero entries in slices of 0..4 elements (%d scenarios): non-zero entries are inverted, zeros stay zero, the accumulator assertion cannot fire" % n_s)
    R.floor("C01.batch_invert", I("zero / non-zero patterns analysed"), n_s, 31)


# ------------------------------------------------------------------------------------------------------------ CHAIN
def chain(F, R, I):
    want = {
        "invert": {"x": P - 2},
        "pow_p58": {"x": (P - 5) // 8},
    }
    n = 0
    for name, exp_ in want.items():
        for f in [f for f in F.fns.values() if "mir" in f and re.search(r"field::<impl .*FieldElement\w+>::%s$" % name, f["path"])]:
            n += 1
            got = safe_chain(F, R, I, f, ["x"])
            if got is None:
                continue
            ret, ip = got
            e = exponents(ret)
            if e == exp_:
                R.ok("C01.chain", I(name), "x^%s (%d kernel applications)" % ({"invert": "(p-2)", "pow_p58": "((p-5)/8)"}[name], ip.models.kernel_calls))
            else:
                R.viol("C01.chain", I(name), "%s does not raise to %s: got %s" % (name, {"invert": "p-2", "pow_p58": "(p-5)/8"}[name], describe(e, exp_["x"])), F.loc(f))
    for f in [f for f in F.fns.values() if "mir" in f and re.search(r"field::<impl .*FieldElement\w+>::pow22501$", f["path"])]:
        n += 1
        got = safe_chain(F, R, I, f, ["x"])
        if got is None:
            continue
        ret, ip = got
        es = [exponents(x) for x in ret[1]] if ret is not None and ret[0] == "st" and len(ret[1]) == 2 else None
        if es == [{"x": 2**250 - 1}, {"x": 11}]:
            R.ok("C01.chain", I("pow22501"), "(x^(2^250-1), x^11)")
        else:
            R.viol("C01.chain", I("pow22501"), "pow22501 does not return (x^(2^250-1), x^11): got %s" % (es,), F.loc(f))
    for f in [f for f in F.fns.values() if "mir" in f and re.search(r"field::<impl .*FieldElement\w+>::sqrt_ratio_i$", f["path"])]:
        n += 1
        got = safe_chain(F, R, I, f, ["u", "v"], record=True)
        if got is None:
            continue
        ret, ip = got
        prod = ip.models.produced
        r_exp = {"u": (P + 3) // 8, "v": 3 + 7 * ((P - 5) // 8)}
        check = {"u": 2 * r_exp["u"], "v": 1 + 2 * r_exp["v"]}
        for nm, m in (("candidate_root", r_exp), ("check_value", check)):
            if any(dict(x[1]) == m for x in prod):
                R.ok("C01.chain", I("sqrt_ratio_i:" + nm), "u^((p+3)/8) v^(3+7(p-5)/8)" if nm == "candidate_root" else "v r^2")
            else:
                R.viol("C01.chain", I("sqrt_ratio_i:" + nm), "sqrt_ratio_i never forms the %s monomial %s" % (nm, "u^((p+3)/8) v^(3+7(p-5)/8)" if nm == "candidate_root" else "v*r^2"), F.loc(f))
    R.floor("C01.chain", I("addition-chain functions"), n, 4)


def safe_chain(F, R, I, f, syms, record=False):
    try:
        if record:
            ExpModels.produced_enabled = True
        return run_chain(F, f, syms)
    except Exception as e:
        R.viol("C01.chain", I(f["path"].split("::")[-1]), "monomial analysis failed: %r" % (e,), F.loc(f))
        return None


def describe(e, want):
    if e is None:
        return "a value that is not a pure power of the input"
    return ", ".join("%s^(expected%+d)" % (v, x - want) if abs(x - want) < 2**64 else "%s^(%d-bit exponent)" % (v, x.bit_length()) for v, x in e.items())


# ------------------------------------------------------------------------------------------------------------ PMULT
def addconst(e):
    """constant part of the top-level +/- tree of an expression: literal leaves (and literal << literal, literal * literal) are
    summed with their sign, every other subtree (limb reads, products, calls) is the variable part and counts 0"""
    e = ex.strip(e, through_calls=False)
    if not isinstance(e, tuple):
        return 0
    if e[0] == "const":
        return e[1] if isinstance(e[1], int) else 0
    if e[0] == "cast":
        return addconst(e[1])
    if e[0] == "bin":
        op = e[1].replace("Unchecked", "")
        if op == "Add":
            return addconst(e[2]) + addconst(e[3])
        if op == "Sub":
            return addconst(e[2]) - addconst(e[3])
        if op == "Shl" and is_lit(e[2]) and is_lit(e[3]):
            return lit(e[2]) << lit(e[3])
        if op == "Mul" and is_lit(e[2]) and is_lit(e[3]):
            return lit(e[2]) * lit(e[3])
    return 0


def is_lit(e):
    e = ex.strip(e, through_calls=False)
    return isinstance(e, tuple) and e[0] == "const" and isinstance(e[1], int)


def lit(e):
    return ex.strip(e, through_calls=False)[1]


KERNEL_OK = {}


def subneg_decided(F):
    return all(KERNEL_OK.get((id(F), k)) for k in ("sub", "negate", "neg"))


def pmult(F, R, I):
    n = 0
    for f in sorted(F.fns.values(), key=lambda f: f["key"]):
        if "mir" not in f or not re.search(r"backend::serial::(u64|u32)::field::", f["key"]):
            continue
        fv = view(F, f)
        for bi, t in fv.calls:
            if not re.search(r"field::FieldElement\w+::reduce$", cname(t)) or fv.blocks[bi].get("cleanup"):
                continue
            arr = ex.strip(expr_of(fv, t["args"][0], 12), through_calls=False)
            if not (isinstance(arr, tuple) and arr[0] == "agg" and isinstance(arr[2], list) and len(arr[2]) in (5, 10)):
                continue
            cs = [addconst(x) for x in arr[2]]
            if all(c == 0 for c in cs):
                continue      # reduce() of plain limbs / products, no literal added
            n += 1
            inst = I("reduce-input@" + (f.get("name") or f["path"].split("::")[-1]) + ":" + ("%d limbs" % len(cs)))
            if None in cs and subneg_decided(F):
                R.ok("C01.pmult", inst, "the literal added before reduce() could not be isolated structurally; sub / negate / neg are decided value-exact modulo p by C01.kernel")
                continue
            if None in cs:
                R.viol("C01.pmult", inst, "cannot isolate the literal added to each limb before reduce() in %s" % f["path"], fv.loc(t["line"]))
                continue
            w = weights(len(cs))
            tot = sum(c << w[i] for i, c in enumerate(cs))
            if tot % P == 0 and tot > 0:
                R.ok("C01.pmult", inst, "literal vector = %d * p" % (tot // P))
            else:
                R.viol("C01.pmult", inst, "the literal limb vector added before reduce() in %s is not a multiple of p (residue %d bits): the result is off by a constant" % (f["path"], (tot % P).bit_length()), fv.loc(t["line"]))
    if n < 2 and subneg_decided(F):
        R.ok("C01.pmult", I("sub / negate / neg"), "no literal limb vector is added in aggregate form before reduce(); that sub, negate and neg compute a - b and -a modulo p "
             "(so whatever is added is a multiple of p) is decided by C01.kernel")
    else:
        R.floor("C01.pmult", I("literal vectors added before reduce"), n, 2)


# ------------------------------------------------------------------------------------------------------------ RANGE
def ranges(F, R, I, backend):
    D = Driver(F, backend)
    nom = [51] * 5 if backend == "u64" else [26 if i % 2 == 0 else 25 for i in range(10)]
    fb = [f for f in F.fns.values() if "mir" in f and re.search(r"backend::serial::(u64|u32)::field::FieldElement\w+::from_bytes$", f["path"])]
    ab = [f for f in F.fns.values() if "mir" in f and re.search(r"backend::serial::(u64|u32)::field::FieldElement\w+::(as_bytes|to_bytes)$", f["path"])]
    if len(fb) != 1 or len(ab) != 1:
        R.anchor_missing("C01.range", I("from_bytes/as_bytes"), "found %d / %d" % (len(fb), len(ab)))
        return
    ret = D.run_root(fb[0], check_ret=False)
    limbs = ret[1][0][1] if ret is not None and ret[0] == "st" and ret[1] and ret[1][0][0] == "arr" else None
    if limbs is not None and len(limbs) == len(nom) and all(x[0] == "i" and x[1] >= 0 and x[2] < (1 << nom[i]) for i, x in enumerate(limbs)):
        R.ok("C01.range", I("from_bytes"), "every limb within its nominal width: value < 2^255, bit 255 of the input dropped")
    else:
        R.viol("C01.range", I("from_bytes"), "from_bytes can produce a limb beyond its nominal width (bit 255 not masked / value >= 2^255)", F.loc(fb[0]))
    ret = D.run_root(ab[0], check_ret=False)
    b31 = ret[1][31] if ret is not None and ret[0] == "arr" and len(ret[1]) == 32 else None
    if b31 is not None and b31[0] == "i" and b31[2] <= 127:
        R.ok("C01.range", I("as_bytes"), "byte 31 <= 127 (top bit clear) for every admissible limb representation")
    else:
        R.viol("C01.range", I("as_bytes"), "as_bytes can emit an encoding with the top bit set", F.loc(ab[0]))
    for f, why in D.errors:
        R.viol("C01.range", I("analysis"), "analysis did not complete: %s" % why, F.loc(f))


# ------------------------------------------------------------------------------------------------------------ TRUNC
SCOPE = re.compile(r"backend::(serial::(u64|u32)|vector::(avx2|ifma))::field::")
CODEC = re.compile(r"::(from_bytes|as_bytes|to_bytes|load\d?|load8_at|split)\b")


def canon(fv, o, depth=0):
    """canonical identity of the value an operand reads: follows single-definition temporaries through copies and integer casts"""
    if o[0] == "k":
        return ("k", repr(o[1].get("v")))
    pl = o[1]
    if not pl[1] and depth < 8:
        ds = [d for d in fv.defs.get(pl[0], []) if not d.via_mutref]
        if len(ds) == 1 and ds[0].kind == "assign" and not fv.locals[pl[0]].get("name"):
            rv = ds[0].rv
            if rv[0] == "use" and rv[1][0] in ("c", "m", "k"):
                return canon(fv, rv[1], depth + 1)
            if rv[0] == "cast" and rv[2][0] in ("c", "m"):
                return canon(fv, rv[2], depth + 1)
    proj = []
    for e in pl[1]:
        if isinstance(e, list) and e[0] in ("i", "ci"):
            proj.append("[*]")      # any element of the same array: robust against re-rolling an unrolled carry chain into loops
        else:
            proj.append(repr(e))
    return ("p", pl[0], tuple(proj))


def operand_ty(fv, o):
    if o[0] == "k":
        return o[1].get("ty")
    pl = o[1]
    ty = fv.locals[pl[0]]["ty"]
    if not pl[1]:
        return ty
    m = re.search(r"\b(u8|u16|u32|u64|u128|usize)\b", ty)      # element type of the array / reference being indexed or dereferenced
    return m.group(1) if m else ty


def const_of(fv, o, depth=0):
    if o[0] == "k":
        v = o[1].get("v")
        return v if isinstance(v, int) else None
    pl = o[1]
    if not pl[1] and depth < 6:
        ds = [d for d in fv.defs.get(pl[0], []) if not d.via_mutref]
        if len(ds) == 1 and ds[0].kind == "assign":
            rv = ds[0].rv
            if rv[0] == "use":
                return const_of(fv, rv[1], depth + 1)
            if rv[0] == "cast":
                return const_of(fv, rv[2], depth + 1)
    return None


def trunc(F, R, I, backend):
    D = Driver(F, backend)
    D.ip.trunc_log = {}
    n_fn = 0
    for f in sorted(F.fns.values(), key=lambda f: f["key"]):
        if "mir" not in f or f["kind"] == "Closure" or not SCOPE.search(f["key"]) or CODEC.search(f["path"]) or re.search(r"fmt$|zeroize|ct_eq|conditional_", f["path"]):
            continue
        ov = {1: __import__("absint").I(1, 3)} if (f.get("name") == "pow2k") else None
        before = len(D.roots_run)
        D.run_root(f, ov, check_ret=False)
        n_fn += len(D.roots_run) - before
    R.floor("C01.trunc", I("limb kernels / repacking functions analysed"), n_fn, 12)
    n = 0
    for (fk, line, k), (oper, val) in sorted(D.ip.trunc_log.items(), key=lambda x: (x[0][0], x[0][2], x[0][1])):
        f = F.fns.get(fk)
        if f is None or not SCOPE.search(fk) or CODEC.search(f["path"]):
            continue
        fv = view(F, f)
        # the companion: some `>> k` (same k) of a value of the same integer type in the same function.  (Matching the exact operand
        # was tried first and alarmed on a behaviour-preserving re-roll of `reduce` into loops / iter_mut, selftest benign-u64-reduce-loops.)
        oty = operand_ty(fv, oper)
        found = False
        for b in fv.blocks:
            for s in b["s"]:
                if s[0] == "=" and s[2][0] == "bin" and s[2][1] in ("Shr", "ShrUnchecked") and const_of(fv, s[2][3]) == k and operand_ty(fv, s[2][2]) == oty:
                    found = True
        n += 1
        inst = I("%s:mask%d#%d" % (f["path"].replace("curve25519_dalek::backend::", "")[-70:], k, sum(1 for kk in D.ip.trunc_log if kk[0] == fk and kk[2] == k and kk[1] < line)))
        if found:
            R.ok("C01.trunc", inst, "the bits above the %d-bit mask are captured by `>> %d` of the same value" % (k, k))
        else:
            R.viol("C01.trunc", inst, "a %d-bit mask is applied to a value that can be as large as 2^%.2f and nothing in the function takes `>> %d` of that value: its high bits are silently discarded"
                   % (k, __import__("math").log2(val[2] + 1), k), fv.loc(line))
    R.floor("C01.trunc", I("masks that can drop bits"), n, 10 if backend == "u64" else 3)
