"""C10 - secret-independent control flow and addressing, decided at MIR level (release MIR) in every backend."""
import re
import ctx
from mirlib import view, cname
from eng_taint import Taint, VARTIME

LEVEL = "other"
TECHNIQUE = ("TAINT: interprocedural forward taint analysis over resolved release-mode MIR from a frozen table of constant-time API roots "
             "(all parameters secret); sinks = SwitchInt/Assert on secret values, secret-indexed memory, secret Div/Rem, un-vetted extern calls, "
             "value-dependent library routines (comparisons, predicate adapters), and any call edge into the variable-time set; per backend")

# canonical selector string: "<crate>|<self_ty>|<trait>|<name>"
ROOTS = [
    # ---- scalars
    r"^curve25519_dalek\|(&('\w+ )?)?curve25519_dalek::scalar::Scalar\|core::ops::(Add|Sub|Mul|Neg|AddAssign|SubAssign|MulAssign)(<.*Scalar>)?\|",
    r"^curve25519_dalek\|curve25519_dalek::scalar::Scalar\|core::iter::(Sum|Product)<T>\|",
    r"^curve25519_dalek\|curve25519_dalek::scalar::Scalar\|\|(invert|batch_invert|from_bytes_mod_order|from_bytes_mod_order_wide|from_hash|from_canonical_bytes|to_bytes|as_bytes)$",
    r"^curve25519_dalek\|curve25519_dalek::scalar::Scalar\|subtle::(ConditionallySelectable|ConstantTimeEq)\|",
    r"^curve25519_dalek\|curve25519_dalek::scalar::Scalar\|group::ff::Field\|(square|double|invert)$",
    r"^curve25519_dalek\|\|\|clamp_integer$",
    # ---- Edwards
    r"^curve25519_dalek\|(&('\w+ )?)?curve25519_dalek::edwards::EdwardsPoint\|core::ops::(Add|Sub|Neg|AddAssign|SubAssign)(<.*EdwardsPoint>)?\|",
    r"^curve25519_dalek\|(&('\w+ )?)?curve25519_dalek::edwards::EdwardsPoint\|core::ops::(Mul|MulAssign)<.*Scalar>\|",
    r"^curve25519_dalek\|(&('\w+ )?)?curve25519_dalek::scalar::Scalar\|core::ops::Mul<.*(EdwardsPoint|RistrettoPoint|MontgomeryPoint|BasepointTable\w*|SubgroupPoint)>\|",
    r"^curve25519_dalek\|curve25519_dalek::edwards::EdwardsPoint\|core::iter::Sum<T>\|",
    r"^curve25519_dalek\|curve25519_dalek::edwards::EdwardsPoint\|subtle::(ConditionallySelectable|ConstantTimeEq)\|",
    r"^curve25519_dalek\|curve25519_dalek::edwards::EdwardsPoint\|\|(compress|double|mul_base|mul_clamped|mul_base_clamped|to_montgomery|mul_by_cofactor)$",
    r"^curve25519_dalek\|curve25519_dalek::edwards::EdwardsPoint\|curve25519_dalek::traits::MultiscalarMul\|multiscalar_mul$",
    r"^curve25519_dalek\|curve25519_dalek::edwards::EdwardsBasepointTable\w*\|curve25519_dalek::traits::BasepointTable\|mul_base$",
    r"^curve25519_dalek\|(&('\w+ )?)?curve25519_dalek::edwards::EdwardsBasepointTable\w*\|core::ops::Mul<.*Scalar>\|",
    r"^curve25519_dalek\|\|curve25519_dalek::traits::BasepointTable\|mul_base_clamped$",
    # ---- Ristretto
    r"^curve25519_dalek\|(&('\w+ )?)?curve25519_dalek::ristretto::RistrettoPoint\|core::ops::(Add|Sub|Neg|AddAssign|SubAssign)(<.*RistrettoPoint>)?\|",
    r"^curve25519_dalek\|(&('\w+ )?)?curve25519_dalek::ristretto::RistrettoPoint\|core::ops::(Mul|MulAssign)<.*Scalar>\|",
    r"^curve25519_dalek\|curve25519_dalek::ristretto::RistrettoPoint\|core::iter::Sum<T>\|",
    r"^curve25519_dalek\|curve25519_dalek::ristretto::RistrettoPoint\|subtle::(ConditionallySelectable|ConstantTimeEq)\|",
    r"^curve25519_dalek\|curve25519_dalek::ristretto::RistrettoPoint\|\|(compress|mul_base|from_uniform_bytes|from_hash|double_and_compress_batch)$",
    r"^curve25519_dalek\|curve25519_dalek::ristretto::RistrettoPoint\|curve25519_dalek::traits::MultiscalarMul\|multiscalar_mul$",
    r"^curve25519_dalek\|(&('\w+ )?)?curve25519_dalek::ristretto::RistrettoBasepointTable\|core::ops::Mul<.*Scalar>\|",
    # ---- Montgomery
    r"^curve25519_dalek\|(&('\w+ )?)?curve25519_dalek::montgomery::MontgomeryPoint\|core::ops::(Mul|MulAssign)<.*Scalar>\|",
    r"^curve25519_dalek\|curve25519_dalek::montgomery::MontgomeryPoint\|\|(mul_bits_be|mul_clamped|mul_base_clamped|mul_base)$",
    r"^curve25519_dalek\|curve25519_dalek::montgomery::MontgomeryPoint\|subtle::(ConditionallySelectable|ConstantTimeEq)\|",
    # ---- Ed25519 key derivation and signing
    r"^ed25519_dalek\|ed25519_dalek::signing::SigningKey\|\|(from_bytes|sign_prehashed|to_scalar|to_scalar_bytes)$",
    r"^ed25519_dalek\|ed25519_dalek::signing::SigningKey\|core::convert::From<&?\[u8; \w+\]>\|from$",
    r"^ed25519_dalek\|ed25519_dalek::signing::SigningKey\|signature::(Signer|DigestSigner)<.*>\|(try_sign|try_sign_digest)$",
    r"^ed25519_dalek\|ed25519_dalek::context::Context<.*SigningKey>\|signature::DigestSigner<.*>\|try_sign_digest$",
    r"^ed25519_dalek\|ed25519_dalek::hazmat::ExpandedSecretKey\|\|(from_bytes|raw_sign|raw_sign_prehashed)$",
    r"^ed25519_dalek\|ed25519_dalek::hazmat::ExpandedSecretKey\|core::convert::From<&\[u8; \w+\]>\|from$",
    r"^ed25519_dalek\|\|\|(raw_sign|raw_sign_prehashed)$",
    # ---- X25519
    r"^x25519_dalek\|\|\|x25519$",
    r"^x25519_dalek\|x25519_dalek::x25519::(EphemeralSecret|ReusableSecret|StaticSecret)\|\|diffie_hellman$",
    r"^x25519_dalek\|x25519_dalek::x25519::PublicKey\|core::convert::From<&.*(EphemeralSecret|ReusableSecret|StaticSecret)>\|from$",
]
# reviewed exceptions: (function path regex, kind, detail regex) -> reason.  Keys carry no line numbers.
EXCEPTIONS = [
    (r"field::<impl .*FieldElement\w+>::batch_invert$", "secret-branch", r"^switch@from\(not\(is_zero\(&acc\)\)\)$",
     "assert!(!acc.is_zero()): acc is the product of the inputs with zeros skipped, hence never zero - the branch outcome is invariant and carries no information"),
]


def selector(f):
    return "%s|%s|%s|%s" % (f["crate"], f.get("self_ty") or "", f.get("trait") or f.get("in_trait") or "", f.get("name") or "")


def find_roots(F):
    rx = [re.compile(r) for r in ROOTS]
    out = []
    hit = [0] * len(rx)
    for f in F.fns.values():
        if "mir" not in f or f["kind"] == "Closure" or f.get("derived"):
            continue
        s = selector(f)
        for i, r in enumerate(rx):
            if r.search(s):
                if VARTIME.search(f["path"]):
                    continue
                out.append(f)
                hit[i] += 1
                break
    return out, hit


def run(tier, R):
    cfgs = [("simd", "release")]
    if tier == "thorough":
        cfgs += [("serial64", "release"), ("serial32", "release"), ("fiat64", "release"), ("fiat32", "release"), ("ifma", "release"), ("notables", "release")]
    else:
        cfgs += [("serial32", "release")]
    FS = ctx.facts_for(R, cfgs)
    R.trust("rustc MIR (release flags: debug assertions and overflow checks off) + Instance resolution; mirfacts; lib/eng_taint.py and its vetted-extern table")
    R.assume("what LLVM does to branch-free MIR is not analysed: subtle's optimisation barriers and data-independent timing of the x86-64 integer/AVX2/IFMA instructions used are trusted")
    R.assume("extern functions in the vetted table (core integer helpers, subtle, zeroize, digest/sha2, iterator adapters, Vec/slice plumbing) neither branch on nor index by the values they are given")
    for (cfg, mode), F in FS.items():
        check_cfg(F, R, cfg)


def check_cfg(F, R, cfg):
    I = lambda s: "%s:%s" % (cfg, s)
    roots, hit = find_roots(F)
    grp = F.has_cfg("feature=group")
    for i, h in enumerate(hit):
        tables = F.has_cfg("feature=precomputed-tables")
        if h == 0 and not ("group::ff" in ROOTS[i] and not grp) and not ("BasepointTable" in ROOTS[i] and not tables):
            R.viol("C10.roots", I("root-pattern-%d" % i), "constant-time root pattern matches no function: %s" % ROOTS[i][:100])
    R.floor("C10.roots", I("constant-time roots"), len(roots), 100)
    T = Taint(F, R, "C10", cfg)
    for f in roots:
        T.add_root(f)
    steps = T.run()
    R.extra.setdefault("taint", {})[cfg] = {"roots": len(roots), "functions_reached": len(T.reached), "fixpoint_steps": steps, "call_sites": T.n_calls}
    R.floor("C10.reach", I("functions reached from the roots"), len(T.reached), 250)
    # every reached function is one obligation: "no sink"
    bad_fns = set()
    for (fk, kind, detail), (loc, msg, f) in sorted(T.sinks.items()):
        inst = "%s:%s:%s" % (short(f), kind, re.sub(r"\s+", " ", detail)[:100])
        if excepted(f, kind, detail):
            R.note("exception: " + inst)
            continue
        bad_fns.add(fk)
        R.viol("C10." + kind, I(inst), "%s in %s" % (msg, short(f)), loc)
    for (fk, n), (loc, f) in sorted(T.edges_vartime.items()):
        inst = "%s->%s" % (short(f), re.sub(r"<[^<>]*>", "", n)[-70:])
        bad_fns.add(fk)
        R.viol("C10.vartime-edge", I(inst), "constant-time code reaches a variable-time routine: %s calls %s" % (short(f), n[:120]), loc)
    for k, f in T.reached.items():
        if k not in bad_fns:
            R.ok("C10.no_secret_flow", I(short(f)), "no secret-dependent branch / index / division / un-vetted escape")


def excepted(f, kind, detail):
    for fp, k, d, why in EXCEPTIONS:
        if re.search(fp, f["path"]) and k == kind and re.search(d, detail):
            return True
    return False


def short(f):
    p = f["path"]
    if f["kind"] == "Closure":
        return p.replace("curve25519_dalek::", "")
    if f.get("trait"):
        return "<%s as %s>::%s" % ((f.get("self_ty") or "").replace("curve25519_dalek::", "").replace("backend::", ""), re.sub(r"^.*::", "", re.sub(r"<.*", "", f["trait"])) + ("<" + f["trait"].split("<", 1)[1].split("::")[-1] if "<" in f["trait"] else ""), f["name"])
    return p.replace("curve25519_dalek::", "")
