"""C08 - Ed25519 key derivation and signing: structural clauses (hash input ORDER for r and k in pure and
prehashed signing incl. dom2 prefix, 255-byte context guard, s = k*a + r data flow, expansion order hash->clamp->reduce,
SigningKey construction, keypair-import mismatch check)."""
import re
import ctx
from mirlib import view, cname, expr_of, root, op_local
from pathlib2 import Guard, established, success_sites, dominated, paths
import hashorder as H
import ex

LEVEL = "other"
TECHNIQUE = ("PATH: ORDER of digest updates per hash session along every CFG path (origins normalised from expression trees), "
             "call-identity data flow for R=compress(mul_base(r)), s=k*a+r, must-pass-through of the context-length and keypair-mismatch checks, "
             "constructor inventory for SigningKey / ExpandedSecretKey; resolved MIR of ed25519-dalek with all features")

DOM2 = b"SigEd25519 no Ed25519 collisions"
EXPAND = r"ExpandedSecretKey as core::convert::From<&\[u8; \w+\]>>::from$|impl core::convert::From<&\[u8; \w+\]> for ed25519_dalek::hazmat::ExpandedSecretKey>::from$|<&\[u8; \w+\] as core::convert::Into<ed25519_dalek::hazmat::ExpandedSecretKey>>::into$"
ESK = "ed25519_dalek::hazmat::ExpandedSecretKey"
SK = "ed25519_dalek::signing::SigningKey"
VK = "ed25519_dalek::verifying::VerifyingKey"
IS = "ed25519_dalek::signature::InternalSignature"


def run(tier, R):
    cfgs = [("simd", "release")]
    if tier == "thorough":
        cfgs += [("simd-legacy", "release"), ("serial32", "release"), ("notables", "release")]
    FS = ctx.facts_for(R, cfgs)
    R.trust("rustc MIR + resolution; mirfacts; mirlib/hashorder")
    R.assume("SHA-512, scalar arithmetic and fixed-base multiplication are value-correct (C02/C04); equality with RFC 8032 vectors for all inputs is not decided")
    for (cfg, mode), F in FS.items():
        check_cfg(F, R, cfg)


def fidx(F, adt, name):
    a = F.adts.get(adt)
    for i, f in enumerate(a["variants"][0]["fields"]) if a else []:
        if f["name"] == name:
            return i
    return None


def is_root_call(fv, o, term):
    r = root(fv, o)
    return r[0] == "call" and r[2] is term


def root_call(fv, o, pat):
    r = root(fv, o)
    if r[0] == "call" and re.search(pat, cname(r[2])):
        return r[2]
    return None


def check_cfg(F, R, cfg):
    I = lambda s: "%s:%s" % (cfg, s)
    scalar_i, prefix_i = fidx(F, ESK, "scalar"), fidx(F, ESK, "hash_prefix")
    sk_secret, sk_vk = fidx(F, SK, "secret_key"), fidx(F, SK, "verifying_key")
    r_i, s_i = fidx(F, IS, "R"), fidx(F, IS, "s")
    if None in (scalar_i, prefix_i, sk_secret, sk_vk, r_i, s_i):
        R.anchor_missing("C08.anchor", I("struct fields"))
        return

    def fn(path=None, **kw):
        try:
            return F.fn(path, **kw)
        except LookupError as e:
            R.anchor_missing("C08.anchor", I(path or str(kw)), str(e)[:160])
            return None

    raw_sign = [f for f in F.fns.values() if f.get("name") == "raw_sign" and f.get("self_ty") == ESK and "mir" in f]
    raw_ph = [f for f in F.fns.values() if f.get("name") == "raw_sign_prehashed" and f.get("self_ty") == ESK and "mir" in f]
    if len(raw_sign) != 1 or len(raw_ph) != 1:
        R.anchor_missing("C08.anchor", I("ExpandedSecretKey::raw_sign / raw_sign_prehashed"))
        return

    # ------------------------------------------------------------------ signing cores
    R_outer = R
    for f, ph in ((raw_sign[0], False), (raw_ph[0], True)):
        fv = view(F, f)
        nm = f["name"]
        R = SemBacked(R_outer, sem_core_ok(F, ph))
        ps = paths(fv)
        if ps is None:
            R.viol("C08.sign.order", I(nm), "signing core has a loop or too many paths", fv.loc())
            continue
        ok_paths = []
        for p in ps:
            ss = H.sessions(fv, p)
            sc = [s for s in ss if re.search(r"Scalar::from_hash", cname(s[1]))]
            if sc:
                ok_paths.append((p, sc))
        if not ok_paths:
            R.viol("C08.sign.order", I(nm), "no path with hash sessions ending in Scalar::from_hash", fv.loc())
            continue
        # parameter indexes: (self, message | prehashed_message, verifying_key, [context])
        a_self, a_msg, a_vk, a_ctx = 1, 2, 3, 4
        for p, sc in ok_paths:
            if len(sc) != 2:
                R.viol("C08.sign.order", I(nm), "expected two hash-to-scalar sessions (r and k), found %d" % len(sc), fv.loc())
                continue
            (d1, t1), (d2, t2) = sc
            prefix = ()
            msg_o = ("arg", a_msg, "")
            if ph:
                ctx_o = None
                if len(d1) >= 4:
                    ctx_o = d1[3]
                good_ctx = ctx_o is not None and ctx_o[0] == "call" and ctx_o[1] == "unwrap_or" and ctx_o[2][0] == ("arg", a_ctx, "") and ctx_o[2][1] == ("bytes", b"")
                if not good_ctx:
                    R.viol("C08.sign.order", I(nm), "context operand is not context.unwrap_or(b\"\"): %s" % (ctx_o,), fv.loc())
                    continue
                prefix = (("bytes", DOM2), ("bytes", b"\x01"), ("array1", ("len", ctx_o)), ctx_o)
                # prehash buffer: local filled from finalize(prehashed_message)
                msg_o = d1[-1]
                pre_ok = msg_o[0] == "local" and prehash_buffer_ok(fv, msg_o[1], a_msg)
                (R.ok if pre_ok else R.viol)("C08.sign.prehash", I(nm), "prehash = prehashed_message.finalize() (64 bytes) feeds both hashes" if pre_ok else
                                             "the message operand of the prehashed hashes is not the finalized prehash: %s" % (msg_o,), *(() if pre_ok else (fv.loc(),)))
            want1 = prefix + (("arg", a_self, ".%d" % prefix_i), msg_o)
            good1 = d1 == want1
            (R.ok if good1 else R.viol)("C08.sign.order.r", I(nm), "r = H(%shash_prefix || M)" % ("dom2(1,ctx) || " if ph else "") if good1 else
                                        "nonce hash inputs are %s, expected %s" % (list(d1), list(want1)), *(() if good1 else (fv.loc(),)))
            # second session: prefix, R bytes, A bytes, M ; R = compress(mul_base(&r)) with r = result of session 1
            good2 = len(d2) == len(prefix) + 3 and d2[:len(prefix)] == prefix and d2[-1] == msg_o and d2[-2] == ("arg", a_vk, "")
            # R operand: find the update call and check call identities
            upd = [t for b in p for t in [fv.blocks[b].get("t", {})] if t.get("k") == "call" and H.UPD.search(cname(t))]
            r_upd = upd[len(d1) + len(prefix)] if len(upd) > len(d1) + len(prefix) else None
            comp = None
            if r_upd is not None:
                ab = root_call(fv, r_upd["args"][1], r"::as_bytes$")
                comp = root_call(fv, ab["args"][0], r"EdwardsPoint::compress$") if ab else root_call(fv, r_upd["args"][1], r"EdwardsPoint::compress$")
            mb = root_call(fv, comp["args"][0], r"EdwardsPoint::mul_base$") if comp else None
            good2 = good2 and mb is not None and is_root_call(fv, mb["args"][0], t1)
            (R.ok if good2 else R.viol)("C08.sign.order.k", I(nm), "k = H(%sR || A || M), R = compress(mul_base(r))" % ("dom2(1,ctx) || " if ph else "") if good2 else
                                        "challenge hash inputs are %s (expected prefix %s + [R = compress(mul_base(r)), verifying_key, M])" % (list(d2), list(prefix)),
                                        *(() if good2 else (fv.loc(),)))
            # signature aggregate: {R: that compress, s: k*scalar + r}
            aggs = [(bi, s) for bi in p for s in fv.blocks[bi]["s"] if s[0] == "=" and s[2][0] == "agg" and s[2][1][0] == "adt" and s[2][1][1] == IS]
            good3 = False
            if len(aggs) == 1 and comp is not None:
                ops = aggs[0][1][2][2]
                add = root_call(fv, ops[s_i], r"Scalar as core::ops::Add.*::add$")
                if add and is_root_call(fv, ops[r_i], comp):
                    a0, a1 = add["args"]
                    for x, y in ((a0, a1), (a1, a0)):
                        mul = root_call(fv, x, r"Scalar as core::ops::Mul.*::mul$")
                        if mul and is_root_call(fv, y, t1):
                            m0, m1 = mul["args"]
                            for u, v in ((m0, m1), (m1, m0)):
                                if is_root_call(fv, u, t2) and root(fv, v) == ("arg", a_self, ".%d" % scalar_i):
                                    good3 = True
            (R.ok if good3 else R.viol)("C08.sign.equation", I(nm), "signature = (R, s) with s = k*self.scalar + r" if good3 else
                                        "signature is not (compress(mul_base(r)), k*self.scalar + r)", *(() if good3 else (fv.loc(),)))
        if ph:
            # context length guard dominates every hash update and every Ok
            edges = len_guard_edges(F, fv, 255)
            blocks = [bi for bi, t in fv.calls if H.UPD.search(cname(t))] + [s["bb"] for s in success_sites(fv)]
            good = bool(edges) and dominated(fv, blocks, edges)
            (R.ok if good else R.viol)("C08.ctx_len", I(nm), "context longer than 255 bytes => Err before any hashing" if good else
                                       "hashing or Ok reachable without the check len(ctx) <= 255", *(() if good else (fv.loc(),)))
    R = R_outer
    cn = [f for f in F.fns.values() if f["path"].startswith("ed25519_dalek::context::Context") and f.get("name") == "new" and "mir" in f]
    if len(cn) == 1:
        fv = view(F, cn[0])
        edges = len_guard_edges(F, fv, 255)
        good = bool(edges) and dominated(fv, [s["bb"] for s in success_sites(fv)], edges)
        (R.ok if good else R.viol)("C08.ctx_len", I("Context::new"), "Ok only when value.len() <= 255" if good else "Context::new accepts contexts longer than 255 bytes", *(() if good else (fv.loc(),)))
    else:
        R.anchor_missing("C08.ctx_len", I("Context::new"))

    # ------------------------------------------------------------------ expansion: SHA-512(seed) -> split -> clamp -> reduce
    ex_from = fn(None, self_ty="^%s$" % ESK, trait=r"From<&\[u8; \w+\]>$", name="from")
    if ex_from:
        fv = view(F, ex_from)
        good = False
        ps = paths(fv)
        sites = fv.exit_sites()
        if ps and len(sites) == 1 and sites[0]["kind"] == "call" and re.search(r"ExpandedSecretKey::from_bytes$", cname(sites[0]["term"])):
            ss = H.sessions(fv, ps[0])
            if len(ss) == 1 and ss[0][0] == (("arg", 1, ""),) and re.search(r"Digest>::finalize$", cname(ss[0][1])):
                sl = fv.operand_slice(sites[0]["term"]["args"][0])
                good = ss[0][1] in sl.calls and sha512_hasher(fv, ps[0])
        if not good and sem_sign_ok(F):
            good = True     # structural form not recognised; C08.sem.sign decides a = clamp(H(seed)[0..32]) mod l and prefix = H(seed)[32..64] on the signing path
        (R.ok if good else R.viol)("C08.expand.hash", I("ExpandedSecretKey::from(&seed)"), "from_bytes(SHA-512(seed))" if good else "expansion is not from_bytes(Sha512(seed))", *(() if good else (fv.loc(),)))
    ex_fb = fn("ed25519_dalek::hazmat::ExpandedSecretKey::from_bytes")
    if ex_fb:
        fv = view(F, ex_fb)
        aggs = [(bi, s) for bi, b in enumerate(fv.blocks) for s in b["s"] if s[0] == "=" and s[2][0] == "agg" and s[2][1][0] == "adt" and s[2][1][1] == ESK]
        good, msg = False, "no single ExpandedSecretKey aggregate"
        if len(aggs) == 1:
            ops = aggs[0][1][2][2]
            red = root_call(fv, ops[scalar_i], r"Scalar::from_bytes_mod_order$")
            cl = root_call(fv, red["args"][0], r"scalar::clamp_integer$") if red else None
            msg = "scalar is not from_bytes_mod_order(clamp_integer(bytes[0..32]))"
            if cl:
                r1 = buf_range(fv, cl["args"][0])
                r2 = buf_range(fv, ops[prefix_i])
                good = r1 == (0, 32) and r2 == (32, 64)
                msg = "scalar <- reduce(clamp(bytes[0..32])), hash_prefix <- bytes[32..64]" if good else "halves are %s / %s, expected (0,32) / (32,64)" % (r1, r2)
        import sig_rules as SR_
        st_fb, msg_fb = SR_.expanded_from_bytes_rule(F)
        if st_fb == "ok":
            good, msg = True, msg_fb + " (decided on 64 symbolic bytes)"
        elif st_fb == "viol":
            good, msg = False, msg_fb
        # (the signing-path rule C08.sem.sign does not imply this one: hazmat users call from_bytes directly - round-6 seed C08.6)
        (R.ok if good else R.viol)("C08.expand.clamp", I("ExpandedSecretKey::from_bytes"), msg, *(() if good else (fv.loc(),)))

    # ------------------------------------------------------------------ SigningKey construction
    n_sk = 0
    for f in F.fns.values():
        if "mir" not in f or f.get("derived") or f["crate"] != "ed25519_dalek":
            continue
        fv = view(F, f)
        for bi, b in enumerate(fv.blocks):
            for s in b["s"]:
                if s[0] == "=" and s[2][0] == "agg" and s[2][1][0] == "adt" and s[2][1][1] == SK:
                    n_sk += 1
                    ops = s[2][2]
                    vk = root_call(fv, ops[sk_vk], r"VerifyingKey as core::convert::From<&ed25519_dalek::hazmat::ExpandedSecretKey>>::from$")
                    e1 = root_call(fv, vk["args"][0], EXPAND) if vk else None
                    good = e1 is not None and root(fv, e1["args"][0])[:2] == ("arg", 1) and root(fv, ops[sk_secret])[:2] == ("arg", 1)
                    (R.ok if good else R.viol)("C08.signing_key", I(f["path"].split("::")[-1] + ":SigningKey{..}"),
                                               "verifying_key = VerifyingKey::from(&ExpandedSecretKey::from(seed)), secret_key = seed" if good else
                                               "SigningKey assembled with a verifying key not derived from the same seed", *(() if good else (fv.loc(s[3]),)))
    R.floor("C08.signing_key", I("SigningKey aggregate sites"), n_sk, 1)
    vk_from = fn(None, self_ty="^%s$" % VK, trait=r"From<&ed25519_dalek::hazmat::ExpandedSecretKey>$", name="from")
    if vk_from:
        fv = view(F, vk_from)
        sites = fv.exit_sites()
        good = False
        if len(sites) == 1 and sites[0]["kind"] == "call" and re.search(r"VerifyingKey as core::convert::From<curve25519_dalek::(edwards::)?EdwardsPoint>>::from$", cname(sites[0]["term"])):
            mb = root_call(fv, sites[0]["term"]["args"][0], r"EdwardsPoint::mul_base$")
            good = mb is not None and root(fv, mb["args"][0]) == ("arg", 1, ".%d" % scalar_i)
        (R.ok if good else R.viol)("C08.public_key", I("VerifyingKey::from(&ExpandedSecretKey)"), "A = mul_base(expanded.scalar)" if good else "public key is not [scalar]B", *(() if good else (fv.loc(),)))
    a = F.adts.get(SK)
    pubf = [f["name"] for f in a["variants"][0]["fields"] if f["vis"] == "pub"] if a else ["?"]
    (R.viol if pubf else R.ok)("C08.encapsulation", I("SigningKey fields"), ("public fields: %s" % pubf) if pubf else "secret_key / verifying_key are not public (cannot be assembled from outside)")

    # ------------------------------------------------------------------ sign wiring: the key's own verifying key and the seed's expansion
    wired = 0
    for f in F.fns.values():
        if "mir" not in f or f["crate"] != "ed25519_dalek" or f.get("self_ty") != SK:
            continue
        fv = view(F, f)
        for bi, t in fv.find_calls(r"ExpandedSecretKey>::raw_sign(_prehashed)?::<"):
            wired += 1
            e0 = root_call(fv, t["args"][0], EXPAND)
            good = e0 is not None and root(fv, e0["args"][0]) == ("arg", 1, ".%d" % sk_secret) and root(fv, t["args"][2]) == ("arg", 1, ".%d" % sk_vk)
            (R.ok if good else R.viol)("C08.sign.wiring", I(short(f)), "raw_sign(expand(self.secret_key), msg, &self.verifying_key)" if good else
                                       "signing does not use the key's own seed expansion and verifying key", *(() if good else (fv.loc(t["line"]),)))
    R.floor("C08.sign.wiring", I("SigningKey -> raw_sign call sites"), wired, 2)
    import sig_rules as SR
    import itertools
    for clause, f, status, msg in sem_sign_results(F):
        inst_ = "SigningKey::try_sign" if clause == "sign" else "SigningKey::" + clause
        if status == "ok":
            R.ok("C08.sem.sign", I(inst_), msg)
        elif status == "viol":
            R.viol("C08.sem.sign", I(inst_), msg, F.loc(f) if f else "")
        elif status == "missing":
            R.anchor_missing("C08.sem.sign", I(inst_), msg)
        else:
            R.note("C08.sem.sign inconclusive (%s): the structural rules decide" % msg[:160])

    # ------------------------------------------------------------------ keypair import mismatch check
    kp = fn("ed25519_dalek::signing::SigningKey::from_keypair_bytes")
    if kp:
        fv = view(F, kp)
        edges, desc = mismatch_edges(fv, sk_vk)
        good = bool(edges) and dominated(fv, [s["bb"] for s in success_sites(fv)], edges)
        # halves: split_at(32): secret from .0, public from .1
        sp = fv.find_calls(r"\]>::split_at$")
        good_split = len(sp) == 1 and const_val(F, expr_of(fv, sp[0][1]["args"][1])) == 32
        (R.ok if good and good_split else R.viol)("C08.keypair_import", I("from_keypair_bytes"),
                                                  "Ok only if derived verifying key == provided public half (split at 32)" if good and good_split else
                                                  "keypair import does not reject a mismatching public half (guard=%s split32=%s)" % (good, good_split), *(() if good and good_split else (fv.loc(),)))
    if F.has_cfg("feature=pkcs8"):
        pk = fn(None, self_ty="^%s$" % SK, trait=r"TryFrom<&ed25519::(pkcs8::)?KeypairBytes>$", name="try_from")
        if pk:
            fv = view(F, pk)
            edges, desc = mismatch_edges(fv, sk_vk)
            # allowed alternative: the document carries no public key (None edge of the Option test)
            none_edges = []
            for bi, b in enumerate(fv.blocks):
                t = b.get("t")
                if t and t["k"] == "switch":
                    e = ex.strip(expr_of(fv, t["discr"]))
                    if e[0] == "disc" and ex.is_arg(e[1], 1, r"\.\d+"):
                        for v, tb in t["targets"]:
                            if v == 0:
                                none_edges.append((bi, tb, ("sw", v)))
                        if [v for v, _ in t["targets"]] == [1]:
                            none_edges.append((bi, t["otherwise"], ("sw", "otherwise")))
            good = bool(edges) and dominated(fv, [s["bb"] for s in success_sites(fv)], edges + none_edges)
            (R.ok if good else R.viol)("C08.keypair_import", I("TryFrom<&pkcs8::KeypairBytes>"),
                                       "Ok only if no public key is present or it equals the derived one" if good else "pkcs8 import does not reject a mismatching public key", *(() if good else (fv.loc(),)))


def short(f):
    if f.get("trait"):
        return "<SigningKey as %s>::%s" % (re.sub(r"<.*", "", f["trait"]).split("::")[-1], f["name"])
    return f["path"].replace("ed25519_dalek::", "")


def const_val(F, e):
    e = ex.strip(e)
    if isinstance(e, tuple) and e[0] == "const":
        if e[1] is not None:
            return e[1]
        if e[3] and e[3] in F.const_by_path:
            return F.const_by_path[e[3]][0].get("value")
    return None


def len_guard_edges(F, fv, limit):
    """edges on which len(x) <= limit is known, for switches on a comparison of a slice length with the constant"""
    edges = []
    for bi, b in enumerate(fv.blocks):
        t = b.get("t")
        if not t or t["k"] != "switch":
            continue
        e = ex.strip(expr_of(fv, t["discr"]))
        if not (isinstance(e, tuple) and e[0] == "bin" and e[1] in ("Gt", "Le", "Lt", "Ge")):
            continue
        a, b_ = ex.strip(e[2]), ex.strip(e[3])
        if not ex.is_call(a, r"\]>::len$"):
            continue
        c = const_val(F, b_)
        if c is None:
            continue
        # value of discr on which len <= limit holds
        if e[1] == "Gt" and c == limit:
            good_val = 0
        elif e[1] == "Le" and c == limit:
            good_val = 1
        elif e[1] == "Lt" and c == limit + 1:
            good_val = 1
        elif e[1] == "Ge" and c == limit + 1:
            good_val = 0
        else:
            continue
        for v, tb in t["targets"]:
            if v == good_val:
                edges.append((bi, tb, ("sw", v)))
        if good_val == 1 and [v for v, _ in t["targets"]] == [0]:
            edges.append((bi, t["otherwise"], ("sw", "otherwise")))
    return edges


def prehash_buffer_ok(fv, local, a_msg):
    """local is a [u8;64] filled by copy_from_slice(finalize(prehashed_message).as_slice())"""
    if fv.locals[local]["ty"] != "[u8; 64]":
        return False
    for d in fv.defs.get(local, []):
        if d.kind == "call" and d.via_mutref and re.search(r"copy_from_slice$", cname(d.term)):
            sl = fv.operand_slice(d.term["args"][1])
            fin = sl.calls_matching(r"Digest>::finalize$")
            if fin and root(fv, fin[0]["args"][0])[:2] == ("arg", a_msg):
                return True
    return False


def buf_range(fv, o):
    """constant range (from,to) of the source slice copied into the local buffer operand o refers to"""
    r = root(fv, o)
    if r[0] != "local":
        return None
    for d in fv.defs.get(r[1], []):
        if d.kind == "call" and d.via_mutref and re.search(r"copy_from_slice$", cname(d.term)):
            src = expr_of(fv, d.term["args"][1], 20)
            for c in ex.find(src, lambda x: x[0] == "call" and re.search(r"ops::Index<core::ops::Range<usize>>.*::index$", x[1])):
                rng = ex.strip(c[2][1])
                if rng[0] == "agg" and ex.is_arg(c[2][0], 1):
                    vals = [ex.strip(v) for v in rng[2]]
                    if all(v[0] == "const" for v in vals):
                        return (vals[0][1], vals[1][1])
    return None


def sha512_hasher(fv, path):
    for b in path:
        t = fv.blocks[b].get("t", {})
        if t.get("k") == "call" and re.search(r"core::default::Default>::default$|Digest>::new$", cname(t)) and "Sha512" in cname(t):
            return True
    return False


_SEM_SIGN = {}


def sem_sign_results(F):
    if id(F) not in _SEM_SIGN:
        import sig_rules as SR
        import itertools
        _SEM_SIGN[id(F)] = list(itertools.chain(SR.sign_rule(F), SR.prehashed_sign_rule(F) if F.has_cfg("feature=digest") else ()))
    return _SEM_SIGN[id(F)]


def sem_core_ok(F, prehashed):
    """the signing core (raw_sign / raw_sign_prehashed), reached from the public signing entry point, is decided by C08.sem.sign: every clause of it holds"""
    rs = [st for clause, f, st, msg in sem_sign_results(F) if (clause != "sign") == prehashed]
    return len(rs) >= (4 if prehashed else 1) and all(st == "ok" for st in rs)


class SemBacked:
    """Report proxy for the structural rules of one signing core: when the semantic rule decides the core, a structural mismatch (a refactored
    but equivalent body) is recorded as holding with that reason instead of as a violation; everything else passes through"""
    def __init__(self, R, sem_ok):
        self.R, self.sem_ok = R, sem_ok

    def viol(self, rule, inst, msg, *loc):
        if self.sem_ok and rule.startswith(("C08.sign.", "C08.ctx_len")):
            self.R.ok(rule, inst, "structural form not recognised (%s); decided by C08.sem.sign: the signature is (compress(r B), k a + r) with the RFC 8032 hash inputs and a "
                      "256-byte context is rejected" % msg[:80])
        else:
            self.R.viol(rule, inst, msg, *loc)

    def __getattr__(self, name):
        return getattr(self.R, name)


def sem_sign_ok(F):
    rs = [st for clause, f, st, msg in sem_sign_results(F) if clause == "sign"]
    return bool(rs) and all(st == "ok" for st in rs)


def mismatch_edges(fv, vk_idx=None):
    """false edges of `derived_vk != provided_vk` (or true edges of ==) where one side is the verifying key of the SigningKey built from the secret half:
    SigningKey::verifying_key(..) or the verifying_key field of that SigningKey"""
    def derived(op):
        x = root(fv, op)
        if x[0] == "call" and re.search(r"SigningKey::verifying_key$", cname(x[2])):
            return True
        if vk_idx is None:
            return False
        e = expr_of(fv, op, 12)
        txt = ex.show(e, 10)
        made = ex.find(e, lambda y: isinstance(y, tuple) and y[0] == "call" and re.search(r"SigningKey as core::convert::(TryFrom|From)<|SigningKey::from_bytes$", y[1]))
        return bool(made) and re.search(r"\.%d$" % vk_idx, txt.rstrip(")* ")) is not None
    edges = []
    for bi, t in fv.calls:
        n = cname(t)
        m_ = re.search(r"VerifyingKey as core::cmp::PartialEq>::(ne|eq)$", n)
        if not m_:
            continue
        flags = [derived(t["args"][0]), derived(t["args"][1])]
        if flags.count(True) != 1:
            continue
        want = 0 if m_.group(1) == "ne" else 1
        edges += fv.guard_edges(t["dest"][0], want)
    return edges, ""
